//! History explorer: explicit-state breadth-first search where a state *is* the history that reaches
//! it. `run(hist)` replays the history on a fresh real object (checking the oracle on the way) and
//! returns a canonical key of the reached state; histories with equal keys are merged.
use crate::{Ctx, Stats};
use std::collections::HashSet;
use std::hash::Hash;
use std::sync::Mutex;
use std::sync::atomic::{AtomicUsize, Ordering};

pub enum Step<K> {
    /// reached state with canonical key; `terminal` states are not expanded
    State { key: K, terminal: bool },
    /// history is not enabled (op precondition false) – not a state, not counted
    Disabled,
    /// oracle failed: (fingerprint, message)
    Violation(String, String),
}

pub trait HistoryModel: Sync {
    type Op: Clone + Send + Sync + std::fmt::Debug;
    type Key: Hash + Eq + Send;
    /// candidate operations (small finite menu); may depend on depth only
    fn ops(&self) -> Vec<Self::Op>;
    /// replay on a fresh object, check oracle after every step, return key of the final state
    fn run(&self, hist: &[Self::Op]) -> Step<Self::Key>;
    fn describe(&self, hist: &[Self::Op]) -> serde_json::Value {
        serde_json::json!(hist.iter().map(|o| format!("{o:?}")).collect::<Vec<_>>())
    }
}

/// BFS up to `max_depth`; dedup by key when `dedup`. Counts states, transitions, traces.
pub fn explore<M: HistoryModel>(ctx: &Ctx, label: &str, m: &M, max_depth: usize, dedup: bool, st: &mut Stats) {
    explore_with_threads(ctx, ctx.threads, label, m, max_depth, dedup, st)
}

/// Same as [`explore`] with an explicit worker count (use 1 when many independent explorations are
/// themselves run in parallel).
pub fn explore_with_threads<M: HistoryModel>(ctx: &Ctx, threads: usize, label: &str, m: &M, max_depth: usize, dedup: bool, st: &mut Stats) {
    let ops = m.ops();
    let mut seen: HashSet<M::Key> = HashSet::new();
    let mut frontier: Vec<Vec<M::Op>> = vec![vec![]];
    match m.run(&[]) {
        Step::State { key, .. } => {
            seen.insert(key);
            st.states += 1;
        }
        Step::Disabled => return,
        Step::Violation(fp, msg) => {
            st.violate(0, fp, msg, || serde_json::json!({"sub": label, "history": []}));
            return;
        }
    }
    let mut order: u64 = 1;
    for depth in 1..=max_depth {
        if frontier.is_empty() {
            break;
        }
        if ctx.out_of_time() {
            st.cap(format!("{label}: time budget hit before depth {depth}"));
            break;
        }
        // expand in parallel; results indexed (frontier idx, op idx) for deterministic merging
        let n = frontier.len() * ops.len();
        let results: Mutex<Vec<(usize, Step<M::Key>)>> = Mutex::new(Vec::with_capacity(n));
        let next = AtomicUsize::new(0);
        std::thread::scope(|s| {
            for _ in 0..threads.max(1).min(n.max(1)) {
                s.spawn(|| {
                    let mut local = vec![];
                    loop {
                        let i = next.fetch_add(1, Ordering::Relaxed);
                        if i >= n {
                            break;
                        }
                        let (fi, oi) = (i / ops.len(), i % ops.len());
                        let mut h = frontier[fi].clone();
                        h.push(ops[oi].clone());
                        local.push((i, m.run(&h)));
                    }
                    results.lock().unwrap().extend(local);
                });
            }
        });
        let mut results = results.into_inner().unwrap();
        results.sort_by_key(|r| r.0);
        let mut next_frontier = vec![];
        for (i, step) in results {
            let (fi, oi) = (i / ops.len(), i % ops.len());
            match step {
                Step::Disabled => {}
                Step::State { key, terminal } => {
                    st.transitions += 1;
                    st.traces += 1;
                    let new = if dedup { seen.insert(key) } else { true };
                    if new {
                        st.states += 1;
                        st.max_depth = st.max_depth.max(depth as u64);
                        if !terminal {
                            let mut h = frontier[fi].clone();
                            h.push(ops[oi].clone());
                            next_frontier.push(h);
                        }
                    }
                }
                Step::Violation(fp, msg) => {
                    st.transitions += 1;
                    st.traces += 1;
                    let mut h = frontier[fi].clone();
                    h.push(ops[oi].clone());
                    let d = m.describe(&h);
                    st.violate(order, fp, msg, || serde_json::json!({"sub": label, "history": d}));
                }
            }
            order += 1;
        }
        if depth == max_depth || next_frontier.is_empty() {
            if let Some(h) = next_frontier.last().or(frontier.last()) {
                let d = m.describe(h);
                st.sample(label, || serde_json::json!({"history": d, "depth": h.len()}));
            }
        }
        frontier = next_frontier;
    }
}
