//! I/O fault injectors: wrappers that count calls and answer call `k` from a fixed fault menu.
use std::io::{self, Read, Seek, SeekFrom, Write};
use std::sync::Arc;
use std::sync::atomic::{AtomicUsize, Ordering};

#[derive(Clone, Copy, Debug, PartialEq, Eq)]
pub enum Fault {
    None,
    ErrOther,
    ErrBrokenPipe,
    ErrInterrupted,
    Zero,
    Short1,
    ShortHalf,
}

pub const WRITE_FAULTS: [Fault; 6] = [Fault::ErrOther, Fault::ErrBrokenPipe, Fault::ErrInterrupted, Fault::Zero, Fault::Short1, Fault::ShortHalf];
pub const READ_FAULTS: [Fault; 5] = [Fault::ErrOther, Fault::ErrInterrupted, Fault::Zero, Fault::Short1, Fault::ShortHalf];

#[derive(Clone, Debug)]
pub struct Plan {
    pub at: usize,
    pub fault: Fault,
    /// every call from `at` on fails (only meaningful for the Err* faults)
    pub persistent: bool,
}

impl Plan {
    pub fn none() -> Plan {
        Plan { at: usize::MAX, fault: Fault::None, persistent: false }
    }
    fn fires(&self, call: usize) -> bool {
        self.fault != Fault::None && (call == self.at || (self.persistent && call > self.at))
    }
}

fn err_of(f: Fault) -> Option<io::Error> {
    match f {
        Fault::ErrOther => Some(io::Error::other("injected fault")),
        Fault::ErrBrokenPipe => Some(io::Error::new(io::ErrorKind::BrokenPipe, "injected broken pipe")),
        Fault::ErrInterrupted => Some(io::Error::new(io::ErrorKind::Interrupted, "injected interrupt")),
        _ => None,
    }
}

/// A `Write + Seek` sink over a shared Vec that records accepted bytes and injects one fault.
#[derive(Clone)]
pub struct FaultySink {
    pub data: Arc<std::sync::Mutex<Vec<u8>>>,
    pub pos: Arc<AtomicUsize>,
    pub calls: Arc<AtomicUsize>,
    pub faults_fired: Arc<AtomicUsize>,
    pub plan: Plan,
}

impl FaultySink {
    pub fn new(plan: Plan) -> Self {
        FaultySink { data: Default::default(), pos: Default::default(), calls: Default::default(), faults_fired: Default::default(), plan }
    }
    pub fn bytes(&self) -> Vec<u8> {
        self.data.lock().unwrap().clone()
    }
    pub fn n_calls(&self) -> usize {
        self.calls.load(Ordering::SeqCst)
    }
    pub fn fired(&self) -> usize {
        self.faults_fired.load(Ordering::SeqCst)
    }
    fn put(&self, buf: &[u8]) {
        let mut d = self.data.lock().unwrap();
        let p = self.pos.load(Ordering::SeqCst);
        if d.len() < p + buf.len() {
            d.resize(p + buf.len(), 0);
        }
        d[p..p + buf.len()].copy_from_slice(buf);
        self.pos.store(p + buf.len(), Ordering::SeqCst);
    }
}

impl Write for FaultySink {
    fn write(&mut self, buf: &[u8]) -> io::Result<usize> {
        let call = self.calls.fetch_add(1, Ordering::SeqCst);
        if self.plan.fires(call) && !buf.is_empty() {
            self.faults_fired.fetch_add(1, Ordering::SeqCst);
            if let Some(e) = err_of(self.plan.fault) {
                return Err(e);
            }
            let n = match self.plan.fault {
                Fault::Zero => 0,
                Fault::Short1 => 1.min(buf.len()),
                Fault::ShortHalf => (buf.len() / 2).max(1),
                _ => buf.len(),
            };
            self.put(&buf[..n]);
            return Ok(n);
        }
        self.put(buf);
        Ok(buf.len())
    }
    fn flush(&mut self) -> io::Result<()> {
        let call = self.calls.fetch_add(1, Ordering::SeqCst);
        if self.plan.fires(call) {
            if let Some(e) = err_of(self.plan.fault) {
                self.faults_fired.fetch_add(1, Ordering::SeqCst);
                return Err(e);
            }
        }
        Ok(())
    }
}

impl Seek for FaultySink {
    fn seek(&mut self, pos: SeekFrom) -> io::Result<u64> {
        let len = self.data.lock().unwrap().len() as i64;
        let cur = self.pos.load(Ordering::SeqCst) as i64;
        let np = match pos {
            SeekFrom::Start(p) => p as i64,
            SeekFrom::End(d) => len + d,
            SeekFrom::Current(d) => cur + d,
        };
        if np < 0 {
            return Err(io::Error::new(io::ErrorKind::InvalidInput, "negative seek"));
        }
        self.pos.store(np as usize, Ordering::SeqCst);
        Ok(np as u64)
    }
}

/// A `Read + Seek` source over bytes that injects one fault at read call `k`.
pub struct FaultySource {
    pub data: Arc<Vec<u8>>,
    pub pos: usize,
    pub calls: Arc<AtomicUsize>,
    pub faults_fired: Arc<AtomicUsize>,
    pub plan: Plan,
}

impl FaultySource {
    pub fn new(data: Arc<Vec<u8>>, plan: Plan) -> Self {
        FaultySource { data, pos: 0, calls: Default::default(), faults_fired: Default::default(), plan }
    }
}

impl Read for FaultySource {
    fn read(&mut self, buf: &mut [u8]) -> io::Result<usize> {
        let call = self.calls.fetch_add(1, Ordering::SeqCst);
        let avail = self.data.len().saturating_sub(self.pos);
        let mut n = avail.min(buf.len());
        if self.plan.fires(call) && n > 0 {
            self.faults_fired.fetch_add(1, Ordering::SeqCst);
            if let Some(e) = err_of(self.plan.fault) {
                return Err(e);
            }
            n = match self.plan.fault {
                Fault::Zero => 0,
                Fault::Short1 => 1.min(n),
                Fault::ShortHalf => (n / 2).max(1),
                _ => n,
            };
        }
        buf[..n].copy_from_slice(&self.data[self.pos..self.pos + n]);
        self.pos += n;
        Ok(n)
    }
}

impl Seek for FaultySource {
    fn seek(&mut self, pos: SeekFrom) -> io::Result<u64> {
        let len = self.data.len() as i64;
        let np = match pos {
            SeekFrom::Start(p) => p as i64,
            SeekFrom::End(d) => len + d,
            SeekFrom::Current(d) => self.pos as i64 + d,
        };
        if np < 0 {
            return Err(io::Error::new(io::ErrorKind::InvalidInput, "negative seek"));
        }
        self.pos = np as usize;
        Ok(np as u64)
    }
}
