//! vcore: shared machinery for the bounded-exhaustive exploration engines.
//!
//! * `Ctx`      – command line / tier / budget
//! * `Stats`    – mergeable per-worker counters, samples and violations
//! * `par_for`  – deterministic sharding of an index space over worker threads
//! * `catch`    – panic capture with in-repo location fingerprinting
//! * `finish`   – evidence writer + known-finding matching + exit code
//! * `bfs`      – history explorer (explicit-state BFS over replayed histories)
//! * `fault`    – I/O fault injectors
//! * `sched`    – baton scheduler for exhaustive thread-schedule enumeration
pub mod bfs;
pub mod fault;
pub mod sched;
pub mod sub;

use serde_json::{Value, json};
use std::cell::{Cell, RefCell};
use std::collections::BTreeMap;
use std::path::PathBuf;
use std::sync::Mutex;
use std::sync::atomic::{AtomicU64, AtomicUsize, Ordering};
use std::time::{Duration, Instant};

pub use serde_json;

#[derive(Clone, Copy, PartialEq, Eq, Debug)]
pub enum Tier {
    Quick,
    Thorough,
}

pub struct Ctx {
    pub prop: String,
    pub tier: Tier,
    pub seed: u64,
    pub replay: Option<PathBuf>,
    pub start: Instant,
    pub budget: Duration,
    pub verif_dir: PathBuf,
    pub threads: usize,
    pub extra_args: Vec<String>,
}

impl Ctx {
    /// `<bin> <ID> [--tier quick|thorough] [--replay path] [--budget secs] [extra...]`
    pub fn from_args() -> Ctx {
        let args: Vec<String> = std::env::args().collect();
        let mut prop = String::new();
        let mut tier = match std::env::var("VERIF_TIER").ok().as_deref() {
            Some("thorough") => Tier::Thorough,
            _ => Tier::Quick,
        };
        let mut replay = None;
        let mut budget = None;
        let mut extra = vec![];
        let mut i = 1;
        while i < args.len() {
            match args[i].as_str() {
                "--tier" => {
                    i += 1;
                    tier = if args[i] == "thorough" { Tier::Thorough } else { Tier::Quick };
                }
                "--replay" => {
                    i += 1;
                    replay = Some(PathBuf::from(&args[i]));
                }
                "--budget" => {
                    i += 1;
                    budget = Some(args[i].parse::<u64>().expect("budget secs"));
                }
                s if prop.is_empty() && !s.starts_with("--") => prop = s.to_string(),
                s => extra.push(s.to_string()),
            }
            i += 1;
        }
        let seed = std::env::var("VERIF_SEED").ok().and_then(|s| s.parse().ok()).unwrap_or(0);
        let verif_dir = PathBuf::from(std::env::var("VERIF_DIR").unwrap_or_else(|_| "/verif".into()));
        let threads = std::env::var("VERIF_THREADS")
            .ok()
            .and_then(|s| s.parse().ok())
            .unwrap_or_else(|| std::thread::available_parallelism().map(|n| n.get()).unwrap_or(8).min(16));
        let budget = Duration::from_secs(budget.unwrap_or(match tier {
            Tier::Quick => 300,
            Tier::Thorough => 5400,
        }));
        install_panic_hook();
        Ctx { prop, tier, seed, replay, start: Instant::now(), budget, verif_dir, threads, extra_args: extra }
    }
    pub fn quick(&self) -> bool {
        self.tier == Tier::Quick
    }
    pub fn pick<T>(&self, quick: T, thorough: T) -> T {
        if self.quick() { quick } else { thorough }
    }
    pub fn out_of_time(&self) -> bool {
        self.start.elapsed() > self.budget
    }
    pub fn has_flag(&self, f: &str) -> bool {
        self.extra_args.iter().any(|a| a == f)
    }
}

// ------------------------------------------------------------------------------------------------
// Violations and stats

#[derive(Clone, Debug)]
pub struct Violation {
    /// class-level identity of what failed (call site / input class), used for known-finding matching
    pub fingerprint: String,
    pub message: String,
    /// replayable case descriptor
    pub case: Value,
    /// ordering key (case index) so that the report is deterministic
    pub order: u64,
}

#[derive(Default, Clone, Debug)]
pub struct SubCount {
    pub evaluations: u64,
    pub nontrivial: u64,
}

const MAX_VIOL_PER_FP: usize = 3;
const MAX_SAMPLES_PER_SUB: usize = 2;

#[derive(Default)]
pub struct Stats {
    pub subs: BTreeMap<String, SubCount>,
    pub outcomes: BTreeMap<String, u64>,
    pub samples: BTreeMap<String, Vec<Value>>,
    pub violations: Vec<Violation>,
    pub viol_counts: BTreeMap<String, u64>,
    pub states: u64,
    pub transitions: u64,
    pub traces: u64,
    pub max_depth: u64,
    pub capped: Vec<String>,
    pub extra: BTreeMap<String, Value>,
    pub counters: BTreeMap<String, u64>,
}

impl Stats {
    pub fn new() -> Stats {
        Stats::default()
    }
    /// bulk-count evaluations for a sub-engine
    pub fn add(&mut self, sub: &str, evaluations: u64, nontrivial: u64) {
        let e = self.subs.entry(sub.to_string()).or_default();
        e.evaluations += evaluations;
        e.nontrivial += nontrivial;
    }
    pub fn outcome(&mut self, class: &str) {
        *self.outcomes.entry(class.to_string()).or_default() += 1;
    }
    pub fn outcome_n(&mut self, class: &str, n: u64) {
        *self.outcomes.entry(class.to_string()).or_default() += n;
    }
    pub fn count(&mut self, key: &str, n: u64) {
        *self.counters.entry(key.to_string()).or_default() += n;
    }
    pub fn sample(&mut self, sub: &str, f: impl FnOnce() -> Value) {
        let v = self.samples.entry(sub.to_string()).or_default();
        if v.len() < MAX_SAMPLES_PER_SUB {
            v.push(f());
        }
    }
    pub fn violate(&mut self, order: u64, fingerprint: impl Into<String>, message: impl Into<String>, case: impl FnOnce() -> Value) {
        let fingerprint = fingerprint.into();
        let c = self.viol_counts.entry(fingerprint.clone()).or_default();
        *c += 1;
        // keep the MAX_VIOL_PER_FP lowest-order ones per fingerprint (bounded memory)
        let kept: Vec<usize> = self
            .violations
            .iter()
            .enumerate()
            .filter(|(_, v)| v.fingerprint == fingerprint)
            .map(|(i, _)| i)
            .collect();
        if kept.len() >= MAX_VIOL_PER_FP {
            let (worst_i, worst) = kept.iter().map(|&i| (i, self.violations[i].order)).max_by_key(|x| x.1).unwrap();
            if worst <= order {
                return;
            }
            self.violations.remove(worst_i);
        }
        self.violations.push(Violation { fingerprint, message: message.into(), case: case(), order });
    }
    pub fn cap(&mut self, what: impl Into<String>) {
        self.capped.push(what.into());
    }
    pub fn merge(&mut self, o: Stats) {
        for (k, v) in o.subs {
            let e = self.subs.entry(k).or_default();
            e.evaluations += v.evaluations;
            e.nontrivial += v.nontrivial;
        }
        for (k, v) in o.outcomes {
            *self.outcomes.entry(k).or_default() += v;
        }
        for (k, v) in o.counters {
            *self.counters.entry(k).or_default() += v;
        }
        for (k, v) in o.samples {
            let e = self.samples.entry(k).or_default();
            for s in v {
                if e.len() < MAX_SAMPLES_PER_SUB {
                    e.push(s);
                }
            }
        }
        for (k, v) in o.viol_counts {
            *self.viol_counts.entry(k).or_default() += v;
        }
        self.violations.extend(o.violations);
        self.states += o.states;
        self.transitions += o.transitions;
        self.traces += o.traces;
        self.max_depth = self.max_depth.max(o.max_depth);
        self.capped.extend(o.capped);
        for (k, v) in o.extra {
            self.extra.insert(k, v);
        }
    }
    pub fn total_evaluations(&self) -> u64 {
        self.subs.values().map(|s| s.evaluations).sum()
    }
    pub fn total_nontrivial(&self) -> u64 {
        self.subs.values().map(|s| s.nontrivial).sum()
    }
}

// ------------------------------------------------------------------------------------------------
// Deterministic parallel index-space sharding

/// Runs `f(idx, &mut Stats)` for every `idx in 0..n`, on `ctx.threads` workers that pull chunks of
/// indices from a shared counter. Results are merged; because every per-index computation is a pure
/// function of `idx`, the merged result does not depend on thread timing (violations are sorted by
/// their `order` key at report time). Stops early (and records a cap) when the budget is exhausted.
pub fn par_for<F>(ctx: &Ctx, label: &str, n: u64, chunk: u64, f: F) -> Stats
where
    F: Fn(u64, &mut Stats) + Sync,
{
    let next = AtomicU64::new(0);
    let done_upto = AtomicU64::new(0);
    let capped = AtomicUsize::new(0);
    let merged = Mutex::new(Stats::new());
    let chunk = chunk.max(1);
    std::thread::scope(|s| {
        for _ in 0..ctx.threads.min(n.max(1) as usize).max(1) {
            s.spawn(|| {
                let mut st = Stats::new();
                loop {
                    if ctx.out_of_time() {
                        capped.store(1, Ordering::Relaxed);
                        break;
                    }
                    let lo = next.fetch_add(chunk, Ordering::Relaxed);
                    if lo >= n {
                        break;
                    }
                    let hi = (lo + chunk).min(n);
                    for i in lo..hi {
                        f(i, &mut st);
                    }
                    done_upto.fetch_add(hi - lo, Ordering::Relaxed);
                }
                merged.lock().unwrap().merge(st);
            });
        }
    });
    let mut st = merged.into_inner().unwrap();
    if capped.load(Ordering::Relaxed) != 0 && done_upto.load(Ordering::Relaxed) < n {
        st.cap(format!("{label}: time budget hit after {} of {} indices", done_upto.load(Ordering::Relaxed), n));
    }
    st
}


/// `(sub-engine label recorded in the case, order key)` of the replay file, when replaying.
pub fn replay_target(ctx: &Ctx) -> Option<(String, u64)> {
    let p = ctx.replay.as_ref()?;
    let txt = std::fs::read_to_string(p).ok()?;
    let v: Value = serde_json::from_str(&txt).ok()?;
    let sub = v.get("case").and_then(|c| c.get("sub")).and_then(|s| s.as_str()).unwrap_or("").to_string();
    let order = v.get("order").and_then(|o| o.as_u64())?;
    Some((sub, order))
}

/// `par_for` that, under `--replay <file>`, re-executes only the recorded index of the sub-engine whose
/// label prefixes the recorded case's `sub` (other sub-engines run nothing).
pub fn par_for_replayable<F>(ctx: &Ctx, label: &str, n: u64, chunk: u64, f: F) -> Stats
where
    F: Fn(u64, &mut Stats) + Sync,
{
    match replay_target(ctx) {
        None if ctx.replay.is_some() => Stats::new(),
        None => par_for(ctx, label, n, chunk, f),
        Some((sub, order)) => {
            let mut st = Stats::new();
            if (sub.starts_with(label) || sub.is_empty()) && order < n {
                f(order, &mut st);
            }
            st
        }
    }
}

// ------------------------------------------------------------------------------------------------
// Panic capture

#[derive(Clone, Debug)]
pub struct PanicInfo {
    pub file: String,
    pub line: u32,
    pub msg: String,
}

impl PanicInfo {
    /// call-site fingerprint: in-repo file + message with digits stripped (line numbers move)
    pub fn fingerprint(&self) -> String {
        format!("panic@{}:{}", crate_relative(&self.file), strip_digits(&self.msg))
    }
}


/// Source path relative to the workspace crate directory, independent of where the repository is
/// checked out (`/repo/arrow-csv/src/writer.rs` and `/scratch/x/repo/arrow-csv/src/writer.rs` both
/// give `arrow-csv/src/writer.rs`); registry and toolchain paths are kept from the crate name on.
pub fn crate_relative(file: &str) -> String {
    let parts: Vec<&str> = file.split('/').collect();
    // a workspace crate directory is the component right before a `src` / `tests` / `examples` / `benches` dir
    for i in 1..parts.len() {
        if matches!(parts[i], "src" | "tests" | "examples" | "benches") && (parts[i - 1].starts_with("arrow") || parts[i - 1].starts_with("parquet")) {
            return parts[i - 1..].join("/");
        }
    }
    if let Some(i) = parts.iter().position(|p| p.starts_with("index.crates.io-")) {
        return parts[i + 1..].join("/");
    }
    file.strip_prefix("/repo/").unwrap_or(file).to_string()
}

pub fn strip_digits(s: &str) -> String {
    let mut out = String::new();
    let mut last_hash = false;
    for c in s.chars().take(160) {
        if c.is_ascii_digit() {
            if !last_hash {
                out.push('#');
            }
            last_hash = true;
        } else {
            out.push(c);
            last_hash = false;
        }
    }
    out
}

thread_local! {
    static CATCHING: Cell<u32> = const { Cell::new(0) };
    static LAST_PANIC: RefCell<Option<PanicInfo>> = const { RefCell::new(None) };
}

pub fn install_panic_hook() {
    static ONCE: std::sync::Once = std::sync::Once::new();
    ONCE.call_once(|| {
        let default = std::panic::take_hook();
        std::panic::set_hook(Box::new(move |info| {
            if CATCHING.with(|c| c.get()) > 0 {
                let (file, line) = info.location().map(|l| (l.file().to_string(), l.line())).unwrap_or(("?".into(), 0));
                let msg = if let Some(s) = info.payload().downcast_ref::<&str>() {
                    s.to_string()
                } else if let Some(s) = info.payload().downcast_ref::<String>() {
                    s.clone()
                } else {
                    "<non-string panic>".to_string()
                };
                LAST_PANIC.with(|l| *l.borrow_mut() = Some(PanicInfo { file, line, msg }));
            } else {
                default(info);
            }
        }));
    });
}

/// Runs `f`, converting a panic into `Err(PanicInfo)`.
pub fn catch<R>(f: impl FnOnce() -> R) -> Result<R, PanicInfo> {
    CATCHING.with(|c| c.set(c.get() + 1));
    let r = std::panic::catch_unwind(std::panic::AssertUnwindSafe(f));
    CATCHING.with(|c| c.set(c.get() - 1));
    match r {
        Ok(v) => Ok(v),
        Err(_) => Err(LAST_PANIC.with(|l| l.borrow_mut().take()).unwrap_or(PanicInfo { file: "?".into(), line: 0, msg: "?".into() })),
    }
}

// ------------------------------------------------------------------------------------------------
// Named deterministic bit streams (play the role of "arbitrary content"; nothing is random)

/// xorshift32 stream, 8 output bits per byte. `LFSR_A = 0x1234_5678`, `LFSR_B = 0x0BAD_F00D`, `LFSR_C = 0x9E37_79B9`.
pub const LFSR_A: u32 = 0x1234_5678;
pub const LFSR_B: u32 = 0x0BAD_F00D;
pub const LFSR_C: u32 = 0x9E37_79B9;
pub fn lfsr_bytes(n: usize, seed: u32) -> Vec<u8> {
    let mut s = seed;
    (0..n)
        .map(|_| {
            let mut b = 0u8;
            for k in 0..8 {
                s ^= s << 13;
                s ^= s >> 17;
                s ^= s << 5;
                b |= (((s >> 7) & 1) as u8) << k;
            }
            b
        })
        .collect()
}

pub fn fnv64(bytes: &[u8]) -> u64 {
    let mut h = 0xcbf29ce484222325u64;
    for b in bytes {
        h ^= *b as u64;
        h = h.wrapping_mul(0x100000001b3);
    }
    h
}

// ------------------------------------------------------------------------------------------------
// Report

pub struct Level {
    pub category: &'static str,
    pub rule: String,
    pub assumptions: Vec<String>,
    pub exhaustive_space: String,
}

#[derive(Debug)]
struct Known {
    fingerprint: String,
    what: String,
}

fn load_known(ctx: &Ctx) -> Vec<Known> {
    let p = ctx.verif_dir.join("known_findings.json");
    let Ok(txt) = std::fs::read_to_string(&p) else { return vec![] };
    let v: Value = match serde_json::from_str(&txt) {
        Ok(v) => v,
        Err(e) => {
            eprintln!("MACHINERY: known_findings.json unreadable: {e}");
            std::process::exit(2);
        }
    };
    let mut out = vec![];
    if let Some(a) = v.get("findings").and_then(|f| f.as_array()) {
        for f in a {
            if f.get("property").and_then(|p| p.as_str()) == Some(ctx.prop.as_str()) {
                out.push(Known {
                    fingerprint: f.get("fingerprint").and_then(|p| p.as_str()).unwrap_or("").to_string(),
                    what: f.get("what").and_then(|p| p.as_str()).unwrap_or("").to_string(),
                });
            }
        }
    }
    out
}

/// Writes evidence, prints KNOWN-FINDING / VIOLATION lines, exits with 0 / 1.
pub fn finish(ctx: &Ctx, level: Level, mut st: Stats) -> ! {
    let known = load_known(ctx);
    st.violations.sort_by(|a, b| (a.order, &a.fingerprint).cmp(&(b.order, &b.fingerprint)));
    let mut unlisted: Vec<&Violation> = vec![];
    let mut known_hit: BTreeMap<String, (String, u64)> = BTreeMap::new();
    for v in &st.violations {
        if let Some(k) = known.iter().find(|k| k.fingerprint == v.fingerprint) {
            let n = st.viol_counts.get(&v.fingerprint).copied().unwrap_or(1);
            known_hit.insert(v.fingerprint.clone(), (k.what.clone(), n));
        } else {
            unlisted.push(v);
        }
    }
    for (fp, (what, n)) in &known_hit {
        println!("KNOWN-FINDING: property={} {} [fingerprint={} occurrences={}]", ctx.prop, what, fp, n);
    }
    let replay_dir = ctx.verif_dir.join("replays").join(&ctx.prop);
    let mut seen_fp: BTreeMap<String, u32> = BTreeMap::new();
    let mut n_unlisted_classes = 0;
    for v in &unlisted {
        let c = seen_fp.entry(v.fingerprint.clone()).or_default();
        *c += 1;
        if *c > 1 {
            continue; // one replay + line per fingerprint class (the lowest-order case)
        }
        n_unlisted_classes += 1;
        let _ = std::fs::create_dir_all(&replay_dir);
        let body = json!({"property": ctx.prop, "fingerprint": v.fingerprint, "message": v.message, "case": v.case, "order": v.order,
            "occurrences": st.viol_counts.get(&v.fingerprint).copied().unwrap_or(1)});
        let name = format!("{:016x}.json", fnv64(v.fingerprint.as_bytes()));
        let path = replay_dir.join(name);
        if let Err(e) = std::fs::write(&path, serde_json::to_string_pretty(&body).unwrap()) {
            eprintln!("MACHINERY: cannot write replay {path:?}: {e}");
            std::process::exit(2);
        }
        println!("VIOLATION property={} replay={}", ctx.prop, path.display());
        println!("  fingerprint: {}", v.fingerprint);
        println!("  message: {}", v.message.chars().take(600).collect::<String>());
    }

    let evaluations = st.total_evaluations();
    let nontrivial = st.total_nontrivial();
    let mut samples: Vec<Value> = vec![];
    for (k, v) in &st.samples {
        for s in v {
            samples.push(json!({"sub": k, "case": s}));
        }
    }
    if samples.is_empty() {
        samples.push(json!({"note": "no sample recorded"}));
    }
    let exhaustive = st.capped.is_empty();
    let mut coverage = json!({
        "evaluations": evaluations,
        "distinct_nontrivial": nontrivial,
        "rule": level.rule,
        "samples": samples,
        "exhaustive": exhaustive,
        "exhaustive_space": level.exhaustive_space,
        "caps_hit": st.capped,
        "per_sub_engine": st.subs.iter().map(|(k, v)| (k.clone(), json!({"evaluations": v.evaluations, "distinct_nontrivial": v.nontrivial}))).collect::<serde_json::Map<_, _>>(),
        "distinct_outcomes": st.outcomes.len(),
        "outcome_histogram": st.outcomes,
        "counters": st.counters,
        "known_findings_seen": known_hit.iter().map(|(k, v)| json!({"fingerprint": k, "occurrences": v.1})).collect::<Vec<_>>(),
        "threads": ctx.threads,
    });
    if level.category == "model_checking" {
        coverage["states"] = json!(st.states);
        coverage["transitions"] = json!(st.transitions);
        coverage["traces_validated_against_impl"] = json!(st.traces);
        coverage["max_depth"] = json!(st.max_depth);
    }
    for (k, v) in &st.extra {
        coverage[k] = v.clone();
    }
    let ev = json!({
        "property_id": ctx.prop,
        "tier": if ctx.quick() { "quick" } else { "thorough" },
        "seed": ctx.seed,
        "level": level.category,
        "coverage": coverage,
        "assumptions": level.assumptions,
        "wall_s": (ctx.start.elapsed().as_secs_f64() * 100.0).round() / 100.0,
        "violations": n_unlisted_classes,
    });
    if ctx.replay.is_none() {
        let dir = ctx.verif_dir.join("evidence");
        let _ = std::fs::create_dir_all(&dir);
        let path = dir.join(format!("{}.json", ctx.prop));
        if let Err(e) = std::fs::write(&path, serde_json::to_string_pretty(&ev).unwrap() + "\n") {
            eprintln!("MACHINERY: cannot write evidence {path:?}: {e}");
            std::process::exit(2);
        }
    }
    println!(
        "{} tier={} evaluations={} nontrivial={} states={} transitions={} outcomes={} exhaustive={} wall={:.1}s violations={} known={}",
        ctx.prop,
        if ctx.quick() { "quick" } else { "thorough" },
        evaluations,
        nontrivial,
        st.states,
        st.transitions,
        st.outcomes.len(),
        exhaustive,
        ctx.start.elapsed().as_secs_f64(),
        n_unlisted_classes,
        known_hit.len()
    );
    for c in &st.capped {
        println!("CAP: {c}");
    }
    if ctx.replay.is_some() {
        println!("replay: {} case(s) re-executed, {} violation class(es) reproduced", evaluations, n_unlisted_classes + known_hit.len());
        std::process::exit(if n_unlisted_classes + known_hit.len() > 0 { 1 } else { 0 });
    }
    if evaluations == 0 || nontrivial < 2 {
        eprintln!("MACHINERY: vacuous run (evaluations={evaluations}, nontrivial={nontrivial})");
        std::process::exit(2);
    }
    std::process::exit(if n_unlisted_classes > 0 { 1 } else { 0 });
}

/// Load a replay file's `case` object.
pub fn load_replay(ctx: &Ctx) -> Option<Value> {
    let p = ctx.replay.as_ref()?;
    let txt = std::fs::read_to_string(p).unwrap_or_else(|e| {
        eprintln!("MACHINERY: cannot read replay {p:?}: {e}");
        std::process::exit(2)
    });
    let v: Value = serde_json::from_str(&txt).unwrap_or_else(|e| {
        eprintln!("MACHINERY: bad replay json: {e}");
        std::process::exit(2)
    });
    Some(v.get("case").cloned().unwrap_or(v))
}
