//! Baton scheduler: real OS threads serialised so that exactly one runs at a time; a thread gives
//! the baton back at *scheduling points*. `explore` enumerates all choice sequences depth-first with
//! a preemption bound. See DESIGN.md 3.7.
use std::sync::{Arc, Condvar, Mutex};

struct Inner {
    /// which thread currently holds the baton (usize::MAX = controller)
    running: usize,
    /// per thread: finished?
    done: Vec<bool>,
    /// per thread: parked at a scheduling point (or at start), waiting for the baton
    parked: Vec<bool>,
    /// per thread: label of the point it is parked at
    at: Vec<String>,
    /// per thread: resource the thread needs next (threads whose resource is held are disabled)
    panicked: Option<String>,
}

pub struct Baton {
    inner: Mutex<Inner>,
    cv: Condvar,
}

const CTRL: usize = usize::MAX;

#[derive(Clone)]
pub struct Handle {
    b: Arc<Baton>,
    pub id: usize,
}

impl Handle {
    /// Scheduling point: give the baton to the controller and wait to be chosen again.
    pub fn point(&self, label: &str) {
        let mut g = self.b.inner.lock().unwrap();
        g.parked[self.id] = true;
        g.at[self.id] = label.to_string();
        g.running = CTRL;
        self.b.cv.notify_all();
        while g.running != self.id {
            g = self.b.cv.wait(g).unwrap();
        }
        g.parked[self.id] = false;
    }
}

pub struct RunResult {
    /// at each decision: (enabled thread ids in canonical order, index chosen, running thread still enabled?)
    pub decisions: Vec<(Vec<usize>, usize, bool)>,
    pub panicked: Option<String>,
    pub trace: Vec<(usize, String)>,
}

/// Runs one execution following `prefix` (choice indices into the canonical enabled order), then
/// choice 0 afterwards. Thread bodies get a `Handle` and must call `point()` at scheduling points.
pub fn run_one(bodies: Vec<Box<dyn FnOnce(Handle) + Send>>, prefix: &[usize]) -> RunResult {
    let n = bodies.len();
    let b = Arc::new(Baton {
        inner: Mutex::new(Inner { running: CTRL, done: vec![false; n], parked: vec![false; n], at: vec![String::new(); n], panicked: None }),
        cv: Condvar::new(),
    });
    let mut joins = vec![];
    for (id, body) in bodies.into_iter().enumerate() {
        let h = Handle { b: b.clone(), id };
        let b2 = b.clone();
        joins.push(std::thread::spawn(move || {
            // wait for first scheduling
            {
                let mut g = b2.inner.lock().unwrap();
                g.parked[id] = true;
                g.at[id] = "start".into();
                b2.cv.notify_all();
                while g.running != id {
                    g = b2.cv.wait(g).unwrap();
                }
                g.parked[id] = false;
            }
            let r = crate::catch(move || body(h));
            let mut g = b2.inner.lock().unwrap();
            g.done[id] = true;
            if let Err(p) = r {
                g.panicked = Some(format!("thread {id}: {}:{} {}", p.file, p.line, p.msg));
            }
            g.running = CTRL;
            b2.cv.notify_all();
        }));
    }
    let mut decisions = vec![];
    let mut trace = vec![];
    let mut last: Option<usize> = None;
    loop {
        let mut g = b.inner.lock().unwrap();
        // wait until controller holds the baton and every live thread is parked
        while !(g.running == CTRL && (0..n).all(|i| g.done[i] || g.parked[i])) {
            g = b.cv.wait(g).unwrap();
        }
        let mut enabled: Vec<usize> = (0..n).filter(|&i| !g.done[i]).collect();
        if enabled.is_empty() {
            break;
        }
        // canonical order: the last running thread first if still enabled, then ascending ids
        let mut running_enabled = false;
        if let Some(l) = last {
            if let Some(p) = enabled.iter().position(|&x| x == l) {
                enabled.remove(p);
                enabled.insert(0, l);
                running_enabled = true;
            }
        }
        let d = decisions.len();
        let choice = if d < prefix.len() {
            assert!(prefix[d] < enabled.len(), "schedule replay diverged: choice {} of {} at decision {d}", prefix[d], enabled.len());
            prefix[d]
        } else {
            0
        };
        let t = enabled[choice];
        trace.push((t, g.at[t].clone()));
        decisions.push((enabled, choice, running_enabled));
        last = Some(t);
        g.running = t;
        b.cv.notify_all();
    }
    for j in joins {
        let _ = j.join();
    }
    let panicked = b.inner.lock().unwrap().panicked.clone();
    RunResult { decisions, panicked, trace }
}

/// Depth-first enumeration of all schedules with at most `bound` preemptions. `mk` builds fresh
/// thread bodies for each execution; `check` is called after each complete execution with the
/// schedule (choice list). Returns number of schedules explored.
pub fn explore<M, C>(bound: usize, mut mk: M, mut check: C) -> u64
where
    M: FnMut() -> Vec<Box<dyn FnOnce(Handle) + Send>>,
    C: FnMut(&[usize], &RunResult),
{
    let mut count = 0u64;
    let mut stack: Vec<Vec<usize>> = vec![vec![]];
    while let Some(prefix) = stack.pop() {
        let r = run_one(mk(), &prefix);
        count += 1;
        let choices: Vec<usize> = r.decisions.iter().map(|d| d.1).collect();
        check(&choices, &r);
        // preemptions used before each decision
        let mut used = 0usize;
        let mut pre = vec![];
        for (i, (_en, ch, run_en)) in r.decisions.iter().enumerate() {
            pre.push(used);
            if *run_en && *ch != 0 {
                used += 1;
            }
            let _ = i;
        }
        for i in (prefix.len()..r.decisions.len()).rev() {
            let (en, _ch, run_en) = &r.decisions[i];
            for alt in 1..en.len() {
                let cost = pre[i] + if *run_en { 1 } else { 0 };
                if cost > bound {
                    continue;
                }
                let mut p = choices[..i].to_vec();
                p.push(alt);
                stack.push(p);
            }
        }
    }
    count
}
