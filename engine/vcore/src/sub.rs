//! Subprocess runner for untrusted-input sweeps: the engine binary re-invokes itself in worker mode
//! so that an abort (allocation failure, stack overflow, SIGSEGV) or a hang is attributed to the case
//! that was in flight and exploration continues after it.
use std::io::{BufRead, BufReader, Read};
use std::process::{Command, Stdio};
use std::time::{Duration, Instant};

pub enum WorkerEnd {
    /// worker printed `DONE`
    Completed,
    /// worker died; signal or exit code, last index reported in flight
    Died { desc: String, in_flight: Option<u64> },
    /// watchdog expired on an index
    Hung { in_flight: Option<u64> },
}

/// Runs `exe args...` as a worker. The worker protocol (stdout lines):
///   `@ <idx>`    about to run case idx
///   `R <json>`   a result line forwarded to `on_line`
///   `DONE`       finished its range
/// `per_case_timeout` applies between consecutive `@` lines.
pub fn run_worker(exe: &std::path::Path, args: &[String], rlimit_as: Option<u64>, per_case_timeout: Duration, mut on_line: impl FnMut(&str)) -> WorkerEnd {
    let mut cmd = Command::new(exe);
    cmd.args(args).stdout(Stdio::piped()).stderr(Stdio::piped()).stdin(Stdio::null());
    if let Some(lim) = rlimit_as {
        use std::os::unix::process::CommandExt;
        unsafe {
            cmd.pre_exec(move || {
                let r = libc::rlimit { rlim_cur: lim, rlim_max: lim };
                libc::setrlimit(libc::RLIMIT_AS, &r);
                Ok(())
            });
        }
    }
    let mut child = cmd.spawn().expect("spawn worker");
    let stdout = child.stdout.take().unwrap();
    let mut stderr = child.stderr.take().unwrap();
    let (tx, rx) = std::sync::mpsc::channel::<String>();
    let reader = std::thread::spawn(move || {
        let br = BufReader::new(stdout);
        for line in br.lines() {
            match line {
                Ok(l) => {
                    if tx.send(l).is_err() {
                        break;
                    }
                }
                Err(_) => break,
            }
        }
    });
    let errreader = std::thread::spawn(move || {
        let mut s = String::new();
        let _ = stderr.read_to_string(&mut s);
        s
    });
    let mut in_flight: Option<u64> = None;
    let mut last = Instant::now();
    let mut completed = false;
    let mut hung = false;
    loop {
        match rx.recv_timeout(Duration::from_millis(200)) {
            Ok(l) => {
                if let Some(r) = l.strip_prefix("@ ") {
                    in_flight = r.trim().parse().ok();
                    last = Instant::now();
                } else if l == "DONE" {
                    completed = true;
                } else {
                    on_line(&l);
                }
            }
            Err(std::sync::mpsc::RecvTimeoutError::Timeout) => {
                if last.elapsed() > per_case_timeout {
                    hung = true;
                    let _ = child.kill();
                    break;
                }
            }
            Err(std::sync::mpsc::RecvTimeoutError::Disconnected) => break,
        }
    }
    let status = child.wait().ok();
    let _ = reader.join();
    let err = errreader.join().unwrap_or_default();
    if hung {
        return WorkerEnd::Hung { in_flight };
    }
    if completed {
        return WorkerEnd::Completed;
    }
    use std::os::unix::process::ExitStatusExt;
    let desc = match status {
        Some(s) => {
            let tail: String = err.lines().rev().take(3).collect::<Vec<_>>().into_iter().rev().collect::<Vec<_>>().join(" | ");
            format!("signal={:?} code={:?} stderr_tail={}", s.signal(), s.code(), tail)
        }
        None => "unknown".into(),
    };
    WorkerEnd::Died { desc, in_flight }
}
