//! decimal add/sub/div/rem rescale the operands with checked multiplication in the native width, so
//! they report an overflow for an unrepresentable *intermediate* although the exact final result is
//! representable (and within the result precision, from operands within their declared precision).
use arrow_arith::numeric::{add, div, rem, sub};
use arrow_array::{Decimal32Array, Decimal128Array};

fn main() {
    // div: 1000000000000000 / 10000000000 (both Decimal128(38,10)); exact quotient 100000.0000 at scale 14
    let l = Decimal128Array::from(vec![10i128.pow(25)]).with_precision_and_scale(38, 10).unwrap();
    let r = Decimal128Array::from(vec![10i128.pow(20)]).with_precision_and_scale(38, 10).unwrap();
    println!("div  Decimal128(38,10) 1e15 / 1e10 -> {:?}   (exact: 1e5 = 10^19 at scale 14, fits i128 and precision 38)", div(&l, &r).map(|a| format!("{a:?}")));
    assert!(div(&l, &r).is_err());

    // div, Decimal32: 999999999 / 999999999 = 1.0000
    let l = Decimal32Array::from(vec![999_999_999]).with_precision_and_scale(9, 0).unwrap();
    println!("div  Decimal32(9,0) 999999999 / 999999999 -> {:?}   (exact: 10000 at scale 4)", div(&l, &l).map(|a| format!("{a:?}")));
    assert!(div(&l, &l).is_err());

    // rem: 0.999999999 % 999999999 ; right operand rescaled by 10^9 overflows i32, exact result = left operand
    let l = Decimal32Array::from(vec![999_999_999]).with_precision_and_scale(9, 9).unwrap();
    let r = Decimal32Array::from(vec![999_999_999]).with_precision_and_scale(9, 0).unwrap();
    println!("rem  Decimal32(9,9) 0.999999999 % Decimal32(9,0) 999999999 -> {:?}   (exact: 0.999999999)", rem(&l, &r).map(|a| format!("{a:?}")));
    assert!(rem(&l, &r).is_err());

    // add / sub: scales 9 and -1: the multiplier 10^10 itself does not fit i32, so even 0 + x and empty arrays fail
    let l = Decimal32Array::from(vec![0]).with_precision_and_scale(9, -1).unwrap();
    let r = Decimal32Array::from(vec![5]).with_precision_and_scale(9, 9).unwrap();
    println!("add  Decimal32(9,-1) 0 + Decimal32(9,9) 5 -> {:?}   (exact: 5 at scale 9)", add(&l, &r).map(|a| format!("{a:?}")));
    println!("sub  Decimal32(9,-1) 0 - Decimal32(9,9) 5 -> {:?}   (exact: -5 at scale 9)", sub(&l, &r).map(|a| format!("{a:?}")));
    let e = Decimal32Array::from(Vec::<i32>::new()).with_precision_and_scale(9, -1).unwrap();
    let f = Decimal32Array::from(Vec::<i32>::new()).with_precision_and_scale(9, 9).unwrap();
    println!("add  of two EMPTY arrays of these types -> {:?}", add(&e, &f).map(|a| format!("{a:?}")));
    assert!(add(&l, &r).is_err() && sub(&l, &r).is_err() && add(&e, &f).is_err());
}
