//! F10 confirmed: decimal `rem` computes its rescale multipliers with `pow_wrapping`
//! (arrow-arith/src/numeric.rs, `Op::Rem` arm of `decimal_op`); when 10^(scale difference) does not fit
//! the native type the multiplier silently wraps and `rem` returns a wrong value instead of an error.
//!   1e1 % 0.000000003  (Decimal32(9,-1) value 1  %  Decimal32(9,9) value 3)
//!   exact: 10^10 mod 3 = 1 -> 0.000000001 (representable); arrow returns 0.000000002 (1410065408 mod 3 = 2).
use arrow_arith::numeric::rem;
use arrow_array::{Array, Decimal32Array, Decimal128Array};

fn main() {
    let l = Decimal32Array::from(vec![1]).with_precision_and_scale(9, -1).unwrap(); // 1e1 = 10
    let r = Decimal32Array::from(vec![3]).with_precision_and_scale(9, 9).unwrap(); // 3e-9
    let out = rem(&l, &r).unwrap();
    let out = out.as_any().downcast_ref::<Decimal32Array>().unwrap();
    println!("Decimal32(9,-1) 1  %  Decimal32(9,9) 3  -> {:?} value {} (exact: 1)", out.data_type(), out.value(0));
    assert_eq!(out.value(0), 2, "arrow returns the wrapped-multiplier remainder");

    // same with Decimal128: 10^39 does not fit i128
    let l = Decimal128Array::from(vec![1]).with_precision_and_scale(38, -1).unwrap(); // 10
    let r = Decimal128Array::from(vec![7]).with_precision_and_scale(38, 38).unwrap(); // 7e-38
    let out = rem(&l, &r).unwrap();
    let out = out.as_any().downcast_ref::<Decimal128Array>().unwrap();
    // exact: 10^39 mod 7 = 6 ; wrapped: (10^39 mod 2^128) mod 7
    let wrapped = 10i128.wrapping_pow(39) % 7;
    println!("Decimal128(38,-1) 1  %  Decimal128(38,38) 7  -> value {} (exact: 6, wrapped multiplier gives {wrapped})", out.value(0));
    assert_ne!(out.value(0), 6);
}
