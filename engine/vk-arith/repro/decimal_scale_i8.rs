//! decimal_op computes scale / precision differences in `i8` although
//! `validate_decimal_precision_and_scale` admits every negative scale down to -128: the differences wrap
//! (release) or panic (overflow checks), giving wrong result types, spurious errors and wrong values.
use arrow_arith::numeric::{add, rem};
use arrow_array::{Array, Decimal32Array, Decimal128Array};

fn main() {
    // result type: documented precision = max(s1,s2) + max(p1-s1, p2-s2) + 1 = -128 + 131 + 1 = 4
    let a = Decimal32Array::from(vec![1]).with_precision_and_scale(3, -128).unwrap();
    let out = add(&a, &a).unwrap();
    println!("Decimal32(3,-128) + Decimal32(3,-128) -> {} (documented rule gives Decimal32(4, -128))", out.data_type());

    // rem: scale difference 38 - (-128) = 166 wraps in i8 to -90, `as u32` = 4294967206, 10.pow_wrapping(..) = 0,
    // so the left operand is multiplied by 0: result 0 instead of (1 * 10^166) mod 3 = 1
    let l = Decimal128Array::from(vec![1]).with_precision_and_scale(3, -128).unwrap();
    let r = Decimal128Array::from(vec![3]).with_precision_and_scale(38, 38).unwrap();
    let out = rem(&l, &r).unwrap();
    let out = out.as_any().downcast_ref::<Decimal128Array>().unwrap();
    println!("Decimal128(3,-128) 1 % Decimal128(38,38) 3 -> {} value {} (exact: 1)", out.data_type(), out.value(0));

    // add with 0: exact result representable, arrow: Err(10 ^ 4294967168)
    let l = Decimal32Array::from(vec![0]).with_precision_and_scale(3, -128).unwrap();
    let r = Decimal32Array::from(vec![7]).with_precision_and_scale(9, 0).unwrap();
    println!("Decimal32(3,-128) 0 + Decimal32(9,0) 7 -> {:?}", add(&l, &r).map(|a| format!("{a:?}")));
}
