//! multiply_fixed_point / multiply_fixed_point_checked compute the divisor 10^(product_scale - required_scale)
//! with `i256::pow_wrapping` (arrow-arith/src/arithmetic.rs get_fixed_point_info): for a difference > 76 the
//! divisor wraps and the "rounded" result is garbage instead of 0 (or an error).
use arrow_arith::arithmetic::{multiply_fixed_point, multiply_fixed_point_checked};
use arrow_array::Decimal128Array;

fn main() {
    // 0.1 * 0.1 = 0.01, required scale -3 (units of 1000): exact rounded result 0
    let a = Decimal128Array::from(vec![10i128.pow(37)]).with_precision_and_scale(38, 38).unwrap();
    let c = multiply_fixed_point_checked(&a, &a, -3);
    let u = multiply_fixed_point(&a, &a, -3);
    println!("0.1 * 0.1 at required scale -3: checked = {:?}, unchecked = {:?} (exact: 0)", c.map(|x| x.value(0)), u.map(|x| x.value(0)));
}
