//! multiply_fixed_point / multiply_fixed_point_checked compute the divisor 10^(product_scale - required_scale)
//! with `i256::pow_wrapping` (arrow-arith/src/arithmetic.rs get_fixed_point_info): for a difference > 76 the
//! divisor wraps and the "rounded" result is garbage instead of 0 (or an error).
use arrow_arith::arithmetic::{multiply_fixed_point, multiply_fixed_point_checked};
use arrow_array::Decimal128Array;

fn main() {
    // 0.99..9 * 0.99..9 ~ 1, required scale -1 (units of 10): exact rounded result 0.
    // product scale 76, divisor 10^77 does not fit i256 (wraps to 10^77 - 2^256 < 0)
    let a = Decimal128Array::from(vec![10i128.pow(38) - 1]).with_precision_and_scale(38, 38).unwrap();
    let c = multiply_fixed_point_checked(&a, &a, -1);
    let u = multiply_fixed_point(&a, &a, -1);
    println!("0.99..9 * 0.99..9 at required scale -1: checked = {:?}, unchecked = {:?} (exact: 0)", c.map(|x| x.value(0)), u.map(|x| x.value(0)));
    // operands at the physical minimum (beyond precision 38), required scale -3: exact 0
    let m = Decimal128Array::from(vec![i128::MIN]).with_precision_and_scale(38, 38).unwrap();
    println!("MIN * MIN at required scale -3: checked = {:?} (exact: 0)", multiply_fixed_point_checked(&m, &m, -3).map(|x| x.value(0)));
}
