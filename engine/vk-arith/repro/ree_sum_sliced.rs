//! `sum_array` / `sum_array_checked` on a *sliced* run-end-encoded array are wrong:
//! arrow-arith/src/aggregate.rs `ree::fold` iterates `run_ends.sliced_values()` (which already yields run ends
//! relative to the slice, i.e. minus the logical offset and capped at the logical length) and then clamps them
//! again into `[offset, offset + len]`, so with a non-zero offset the first run is counted with a length of at
//! least `offset` and the early exit `current_run_end == logical_end` is missed.
use arrow_arith::aggregate::{max_array, min_array, sum_array, sum_array_checked};
use arrow_array::types::Int32Type;
use arrow_array::{Array, Int32Array, RunArray};

fn main() {
    // logical content: [5, 5, 5]
    let ree = RunArray::<Int32Type>::try_new(&Int32Array::from(vec![3]), &Int32Array::from(vec![5])).unwrap();
    let sl = ree.slice(2, 1); // logical content: [5]
    let typed = sl.downcast::<Int32Array>().unwrap();
    let s = sum_array::<Int32Type, _>(typed);
    let sc = sum_array_checked::<Int32Type, _>(typed);
    println!("slice(2,1) of REE[5,5,5]: len {} sum_array = {:?}, sum_array_checked = {:?} (expected Some(5)); min {:?} max {:?}", sl.len(), s, sc, min_array::<Int32Type, _>(typed), max_array::<Int32Type, _>(typed));
    assert_eq!(s, Some(10));

    // logical content [1, 1, 7, 7, 7, 9]; slice(3, 3) = [7, 7, 9] -> 23
    let ree = RunArray::<Int32Type>::try_new(&Int32Array::from(vec![2, 5, 6]), &Int32Array::from(vec![1, 7, 9])).unwrap();
    let sl = ree.slice(3, 3);
    let typed = sl.downcast::<Int32Array>().unwrap();
    println!("slice(3,3) of REE[1,1,7,7,7,9]: sum_array = {:?} (expected Some(23))", sum_array::<Int32Type, _>(typed));
}
