//! arrow_arith::aggregate against reductions over the non-null values.
//!
//! Enumerated: every length in LENS x slice offset in OFFS x validity family x poison kind x every poison
//! position within the first 64 and the last 64 slots. Base content is a fixed small-valued pattern so that
//! exactly one element (the poison: overflowing / extreme / NaN / infinity) decides the outcome.
use crate::core::{mk, mk_nulls};
use crate::ints::{FloatN, same_float};
use crate::refm::*;
use arrow_arith::aggregate as ag;
use arrow_array::types::*;
use arrow_array::*;
use arrow_buffer::{BooleanBuffer, NullBuffer, i256};
use arrow_schema::DataType;
use half::f16;
use num_bigint::BigInt;
use std::sync::Arc;
use vcore::serde_json::{Value, json};
use vcore::{Ctx, Stats, catch, par_for};

const LENS: [usize; 12] = [0, 1, 7, 8, 9, 63, 64, 65, 127, 128, 129, 257];
const OFFS: [usize; 4] = [0, 1, 3, 64];
const NVALID: usize = 7;

/// validity families; `p` = poison position
fn valid_at(fam: usize, i: usize, p: usize, len: usize) -> bool {
    match fam {
        0 | 1 => true,         // 0: no validity buffer, 1: buffer with all bits set
        2 => i != p,           // the poison is hidden under the only null
        3 => i >= len / 2,     // leading null run
        4 => i % 2 == 1,       // alternating
        5 => i == p,           // everything null except the poison
        _ => false,            // all null
    }
}
fn positions(len: usize) -> Vec<usize> {
    let mut v: Vec<usize> = (0..len.min(64)).collect();
    v.extend(len.saturating_sub(64)..len);
    v.sort();
    v.dedup();
    if v.is_empty() {
        v.push(0); // the empty array is still one case
    }
    v
}

fn case(sub: &str, ty: &str, len: usize, off: usize, fam: usize, poison: &str, p: usize) -> Value {
    json!({"sub": sub, "type": ty, "len": len, "offset": off, "validity_family": fam, "poison": poison, "poison_position": p})
}

fn build<T: ArrowPrimitiveType>(vals: &[T::Native], fam: usize, p: usize, off: usize, dt: &DataType, garbage: T::Native) -> (PrimitiveArray<T>, Vec<bool>) {
    let len = vals.len();
    let valid: Vec<bool> = (0..len).map(|i| valid_at(fam, i, p, len)).collect();
    let a = if fam == 0 { mk::<T>(vals, dt, off, garbage) } else { mk_nulls::<T>(vals, &valid, dt, off, garbage) };
    (a, valid)
}

// ---------------------------------------------------------------------------------------------
// integers (<= 64 bit) incl. durations

fn base_int(i: usize, signed: bool) -> i128 {
    let b = [1i128, -1, 2, 1, 1, -1, 1, 3][i % 8];
    if signed { b } else { b.abs() }
}

fn agg_int<T>(ctx: &Ctx, sub: &'static str, with_bits: Option<fn(&PrimitiveArray<T>) -> [Option<T::Native>; 3]>) -> Stats
where
    T: ArrowNumericType,
    T::Native: IntN + BigN + ArrowNativeTypeOp,
{
    let ty = T::DATA_TYPE.to_string();
    let min = <T::Native as IntN>::min_i();
    let max = <T::Native as IntN>::max_i();
    let poisons: Vec<(&'static str, i128)> = vec![("MAX", max), ("MIN", min), ("zero", 0), ("none", 1)];
    let units = (LENS.len() * OFFS.len() * NVALID * poisons.len()) as u64;
    par_for(ctx, sub, units, 4, |idx, st| {
        let mut k = idx as usize;
        let (pn, pv) = poisons[k % poisons.len()];
        k /= poisons.len();
        let fam = k % NVALID;
        k /= NVALID;
        let off = OFFS[k % OFFS.len()];
        let len = LENS[k / OFFS.len()];
        for p in positions(len) {
            if pn == "none" && p != 0 {
                continue;
            }
            let vals: Vec<T::Native> = (0..len).map(|i| <T::Native as IntN>::wrap(if i == p { pv } else { base_int(i, <T::Native as IntN>::SIGNED) })).collect();
            let (arr, valid) = build::<T>(&vals, fam, p, off, &T::DATA_TYPE, <T::Native as IntN>::wrap(max));
            let xs: Vec<i128> = (0..len).filter(|i| valid[*i]).map(|i| IntN::to_i128(vals[i])).collect();
            let some = !xs.is_empty();
            st.add(sub, 1, (len > 1 && some) as u64);
            let cj = || case(sub, &ty, len, off, fam, pn, p);
            if len == 65 && p == 64 {
                st.sample(sub, cj);
            }
            let mut viol: Vec<(String, String)> = vec![];
            let mut bad = |name: &str, msg: String| viol.push((format!("c12:aggregate:{name}"), format!("{ty} len {len} off {off} validity family {fam} poison {pn}@{p}: {msg}")));
            // sum (wrapping) / sum_checked
            let mut acc: i128 = 0;
            let mut prefix_over = false;
            for x in &xs {
                acc += *x;
                prefix_over |= !<T::Native as IntN>::fits(acc);
            }
            let want_sum = some.then(|| <T::Native as IntN>::wrap(acc));
            let r = catch(|| (ag::sum(&arr), ag::sum_checked(&arr), ag::min(&arr), ag::max(&arr), ag::product(&arr), ag::product_checked(&arr)));
            let (g_sum, g_sumc, g_min, g_max, g_prod, g_prodc) = match r {
                Ok(v) => v,
                Err(pn_) => {
                    st.violate(idx, format!("c12:aggregate:{}", pn_.fingerprint()), format!("{ty} len {len} off {off} validity family {fam} poison {pn}@{p}: panic {pn_:?}"), cj);
                    continue;
                }
            };
            if g_sum != want_sum {
                bad("sum", format!("sum = {g_sum:?}, reduction over non-null values (mod 2^w) = {want_sum:?}"));
            }
            let total_fits = <T::Native as IntN>::fits(acc);
            match (&g_sumc, some) {
                (Ok(None), false) => {}
                (Ok(Some(v)), true) if total_fits && *v == <T::Native as IntN>::wrap(acc) => st.outcome("c12:aggregate:sum_checked:ok"),
                (Err(_), true) if !total_fits => st.outcome("c12:aggregate:sum_checked:overflow-reported"),
                // a partial sum overflows although the total fits: the reduction order decides, both outcomes are a
                // correct "reduction with overflow detection"
                (Err(_), true) if prefix_over => st.outcome("c12:aggregate:sum_checked:partial-sum-overflow-reported"),
                _ => bad("sum_checked", format!("sum_checked = {g_sumc:?}, exact sum {acc} (fits: {total_fits})")),
            }
            let want_min = xs.iter().min().map(|v| <T::Native as IntN>::wrap(*v));
            let want_max = xs.iter().max().map(|v| <T::Native as IntN>::wrap(*v));
            if g_min != want_min {
                bad("min", format!("min = {g_min:?}, expected {want_min:?}"));
            }
            if g_max != want_max {
                bad("max", format!("max = {g_max:?}, expected {want_max:?}"));
            }
            // product
            let mut pacc = BigInt::from(1);
            let mut pprefix_over = false;
            for x in &xs {
                pacc *= BigInt::from(*x);
                pprefix_over |= !<T::Native as BigN>::fits_big(&pacc);
            }
            let want_prod = some.then(|| <T::Native as BigN>::wrap_big(&pacc));
            if g_prod != want_prod {
                bad("product", format!("product = {g_prod:?}, reduction (mod 2^w) = {want_prod:?}"));
            }
            let pfits = <T::Native as BigN>::fits_big(&pacc);
            match (&g_prodc, some) {
                (Ok(None), false) => {}
                (Ok(Some(v)), true) if pfits && Some(*v) == want_prod => st.outcome("c12:aggregate:product_checked:ok"),
                (Err(_), true) if !pfits => st.outcome("c12:aggregate:product_checked:overflow-reported"),
                (Err(_), true) if pprefix_over => st.outcome("c12:aggregate:product_checked:partial-product-overflow-reported"),
                _ => bad("product_checked", format!("product_checked = {g_prodc:?}, exact product {pacc} (fits: {pfits})")),
            }
            if let Some(f) = with_bits {
                let g = f(&arr);
                let and = xs.iter().fold(-1i128, |a, x| a & *x);
                let or = xs.iter().fold(0i128, |a, x| a | *x);
                let xor = xs.iter().fold(0i128, |a, x| a ^ *x);
                let w = [and, or, xor].map(|v| some.then(|| <T::Native as IntN>::wrap(v)));
                if g != w {
                    bad("bit_and/or/xor", format!("bit_and/or/xor = {g:?}, expected {w:?}"));
                }
            }
            for (f, m) in viol {
                st.violate(idx, f, m, cj);
            }
            st.outcome(if some { "c12:aggregate:int:some" } else { "c12:aggregate:int:none" });
        }
    })
}

macro_rules! bits_fn {
    ($T:ty) => {
        Some((|a: &PrimitiveArray<$T>| [ag::bit_and(a), ag::bit_or(a), ag::bit_xor(a)]) as fn(&PrimitiveArray<$T>) -> [Option<<$T as ArrowPrimitiveType>::Native>; 3])
    };
}

// ---------------------------------------------------------------------------------------------
// wide decimals through BigInt (fewer lengths)

fn agg_big<T>(ctx: &Ctx, sub: &'static str, dt: DataType) -> Stats
where
    T: ArrowNumericType,
    T::Native: BigN + ArrowNativeTypeOp,
{
    let ty = dt.to_string();
    let poisons: Vec<(&'static str, BigInt)> = vec![("MAX", T::Native::max_big()), ("MIN", T::Native::min_big()), ("none", BigInt::from(1))];
    let lens = [0usize, 1, 9, 65, 129];
    let units = (lens.len() * 2 * NVALID * poisons.len()) as u64;
    par_for(ctx, sub, units, 1, |idx, st| {
        let mut k = idx as usize;
        let (pn, pv) = &poisons[k % poisons.len()];
        k /= poisons.len();
        let fam = k % NVALID;
        k /= NVALID;
        let off = [0usize, 3][k % 2];
        let len = lens[k / 2];
        for p in positions(len) {
            if *pn == "none" && p != 0 {
                continue;
            }
            let vals: Vec<T::Native> = (0..len).map(|i| if i == p { T::Native::wrap_big(pv) } else { T::Native::wrap_big(&BigInt::from(base_int(i, true))) }).collect();
            let (arr, valid) = build::<T>(&vals, fam, p, off, &dt, T::Native::wrap_big(&T::Native::max_big()));
            let xs: Vec<BigInt> = (0..len).filter(|i| valid[*i]).map(|i| vals[i].to_big()).collect();
            let some = !xs.is_empty();
            st.add(sub, 1, (len > 1 && some) as u64);
            let cj = || case(sub, &ty, len, off, fam, pn, p);
            let mut viol: Vec<(String, String)> = vec![];
            let mut bad = |name: &str, msg: String| viol.push((format!("c12:aggregate:{name}"), format!("{ty} len {len} off {off} validity family {fam} poison {pn}@{p}: {msg}")));
            let mut acc = BigInt::from(0);
            let mut prefix_over = false;
            for x in &xs {
                acc += x;
                prefix_over |= !T::Native::fits_big(&acc);
            }
            let r = catch(|| (ag::sum(&arr), ag::sum_checked(&arr), ag::min(&arr), ag::max(&arr)));
            let (g_sum, g_sumc, g_min, g_max) = match r {
                Ok(v) => v,
                Err(pn_) => {
                    st.violate(idx, format!("c12:aggregate:{}", pn_.fingerprint()), format!("{ty} len {len} off {off} validity family {fam} poison {pn}@{p}: panic {pn_:?}"), cj);
                    continue;
                }
            };
            if g_sum != some.then(|| T::Native::wrap_big(&acc)) {
                bad("sum", format!("sum = {g_sum:?}, exact {acc}"));
            }
            let fits = T::Native::fits_big(&acc);
            match (&g_sumc, some) {
                (Ok(None), false) => {}
                (Ok(Some(v)), true) if fits && *v == T::Native::wrap_big(&acc) => st.outcome("c12:aggregate:sum_checked:ok"),
                (Err(_), true) if !fits => st.outcome("c12:aggregate:sum_checked:overflow-reported"),
                (Err(_), true) if prefix_over => st.outcome("c12:aggregate:sum_checked:partial-sum-overflow-reported"),
                _ => bad("sum_checked", format!("sum_checked = {g_sumc:?}, exact sum {acc}")),
            }
            let wmin = xs.iter().min().map(|v| T::Native::wrap_big(v));
            let wmax = xs.iter().max().map(|v| T::Native::wrap_big(v));
            if g_min != wmin || g_max != wmax {
                bad("min/max", format!("min/max = {g_min:?}/{g_max:?}, expected {wmin:?}/{wmax:?}"));
            }
            for (f, m) in viol {
                st.violate(idx, f, m, cj);
            }
        }
    })
}

// ---------------------------------------------------------------------------------------------
// floats

fn agg_float<T>(ctx: &Ctx, sub: &'static str, has_big_max: bool) -> Stats
where
    T: ArrowNumericType,
    T::Native: FloatN + ArrowNativeTypeOp,
{
    let ty = T::DATA_TYPE.to_string();
    let fr = <T::Native as FloatN>::round_from;
    let nan = fr(f64::NAN);
    let nnan = nan.neg_wrapping();
    let mut poisons: Vec<(&'static str, T::Native)> = vec![("NaN", nan), ("-NaN", nnan), ("+inf", fr(f64::INFINITY)), ("-inf", fr(f64::NEG_INFINITY)), ("-0.0", fr(-0.0)), ("zero", fr(0.0)), ("none", fr(1.0))];
    if has_big_max {
        poisons.push(("MAX", T::Native::MAX_TOTAL_ORDER)); // replaced below by the largest finite value
    }
    let units = (LENS.len() * OFFS.len() * NVALID * poisons.len()) as u64;
    par_for(ctx, sub, units, 4, |idx, st| {
        let mut k = idx as usize;
        let (pn, mut pv) = poisons[k % poisons.len()];
        if pn == "MAX" {
            pv = if std::mem::size_of::<T::Native>() == 4 { fr(f32::MAX as f64) } else { fr(f64::MAX) };
        }
        k /= poisons.len();
        let fam = k % NVALID;
        k /= NVALID;
        let off = OFFS[k % OFFS.len()];
        let len = LENS[k / OFFS.len()];
        for p in positions(len) {
            if pn == "none" && p != 0 {
                continue;
            }
            let vals: Vec<T::Native> = (0..len).map(|i| if i == p { pv } else { fr(base_int(i, true) as f64) }).collect();
            let (arr, valid) = build::<T>(&vals, fam, p, off, &T::DATA_TYPE, nan);
            let xs: Vec<T::Native> = (0..len).filter(|i| valid[*i]).map(|i| vals[i]).collect();
            let some = !xs.is_empty();
            st.add(sub, 1, (len > 1 && some) as u64);
            let cj = || case(sub, &ty, len, off, fam, pn, p);
            let mut viol: Vec<(String, String)> = vec![];
            let mut bad = |name: &str, msg: String| viol.push((format!("c12:aggregate:float:{name}"), format!("{ty} len {len} off {off} validity family {fam} poison {pn}@{p}: {msg}")));
            let r = catch(|| (ag::sum(&arr), ag::sum_checked(&arr), ag::min(&arr), ag::max(&arr), ag::product(&arr), ag::product_checked(&arr)));
            let (g_sum, g_sumc, g_min, g_max, g_prod, g_prodc) = match r {
                Ok(v) => v,
                Err(pn_) => {
                    st.violate(idx, format!("c12:aggregate:{}", pn_.fingerprint()), format!("{ty} len {len} off {off} validity family {fam} poison {pn}@{p}: panic {pn_:?}"), cj);
                    continue;
                }
            };
            // sum: all finite values are small integers, so the sum is exact in any association; with one infinity /
            // NaN / huge value the result is that value's class. Signed zero of a zero sum is not pinned.
            let exact: f64 = xs.iter().map(|x| x.to_f64_()).sum();
            let want_sum = some.then(|| fr(exact));
            let sum_ok = |g: Option<T::Native>| match (g, want_sum) {
                (None, None) => true,
                (Some(g), Some(w)) => same_float(g, w) || (g.to_f64_() == 0.0 && w.to_f64_() == 0.0),
                _ => false,
            };
            if !sum_ok(g_sum) {
                bad("sum", format!("sum = {g_sum:?}, expected {want_sum:?}"));
            }
            match &g_sumc {
                Ok(g) if sum_ok(*g) => {}
                other => bad("sum_checked", format!("sum_checked = {other:?}, expected {want_sum:?}")),
            }
            // product: values are +-1, +-2, +-3 powers -> may overflow to infinity for long arrays: order independent
            // only while exact; restrict the check to arrays whose exact product is representable without rounding
            let pexact: f64 = xs.iter().map(|x| x.to_f64_()).product();
            let n_big = xs.iter().filter(|x| x.to_f64_().abs() > 1.0 && x.to_f64_().is_finite()).count();
            if n_big <= 10 || !pexact.is_finite() && xs.iter().any(|x| !x.to_f64_().is_finite()) {
                let want = some.then(|| fr(pexact));
                let okp = |g: Option<T::Native>| match (g, want) {
                    (None, None) => true,
                    (Some(g), Some(w)) => same_float(g, w),
                    _ => false,
                };
                // 3^k * 2^k with k <= 10 is exact in f16 only up to 2048: skip inexact f16 cases
                let exact_in_t = want.map(|w| w.to_f64_() == pexact || pexact.is_nan()).unwrap_or(true);
                if exact_in_t {
                    if !okp(g_prod) {
                        bad("product", format!("product = {g_prod:?}, expected {want:?}"));
                    }
                    match &g_prodc {
                        Ok(g) if okp(*g) => {}
                        other => bad("product_checked", format!("product_checked = {other:?}, expected {want:?}")),
                    }
                }
            }
            // min / max under IEEE totalOrder (ArrowNativeTypeOp docs: "aggregation uses the total order predicate").
            // The docs of min/max say "any NaN values are considered to be greater than any other non-null value",
            // which differs from totalOrder for NaNs with the sign bit set: with such a value present both readings
            // are accepted.
            let key = |x: &T::Native| {
                let w = std::mem::size_of::<T::Native>() as u32 * 8;
                let bits = x.bits64();
                let sign = (bits >> (w - 1)) & 1;
                let mag = (bits & ((1u64 << (w - 1)) - 1)) as i64;
                if sign == 1 { -mag - 1 } else { mag }
            };
            let tmin = xs.iter().min_by_key(|x| key(x)).copied();
            let tmax = xs.iter().max_by_key(|x| key(x)).copied();
            let has_neg_nan = xs.iter().any(|x| x.is_nan_() && (x.bits64() >> (std::mem::size_of::<T::Native>() * 8 - 1)) & 1 == 1);
            let eqb = |a: Option<T::Native>, b: Option<T::Native>| match (a, b) {
                (None, None) => true,
                (Some(a), Some(b)) => a.bits64() == b.bits64(),
                _ => false,
            };
            if has_neg_nan {
                // alternative reading: NaN (any sign) greater than everything
                let key2 = |x: &T::Native| if x.is_nan_() { i64::MAX } else { key(x) };
                let amin = xs.iter().min_by_key(|x| key2(x)).copied();
                let ok_min = eqb(g_min, tmin) || eqb(g_min, amin);
                let ok_max = eqb(g_max, tmax) || g_max.map(|g| g.is_nan_()).unwrap_or(false);
                if !ok_min || !ok_max {
                    bad("min/max", format!("min/max = {g_min:?}/{g_max:?} with a negative NaN present; totalOrder gives {tmin:?}/{tmax:?}"));
                } else {
                    st.outcome("c12:aggregate:float:min/max:negative-nan-docs-ambiguous");
                }
            } else {
                if !eqb(g_min, tmin) {
                    bad("min", format!("min = {g_min:?}, totalOrder minimum {tmin:?}"));
                }
                if !eqb(g_max, tmax) {
                    bad("max", format!("max = {g_max:?}, totalOrder maximum {tmax:?}"));
                }
            }
            for (f, m) in viol {
                st.violate(idx, f, m, cj);
            }
            st.outcome(if some { "c12:aggregate:float:some" } else { "c12:aggregate:float:none" });
        }
    })
}

// ---------------------------------------------------------------------------------------------
// booleans

fn agg_bool(ctx: &Ctx, sub: &'static str) -> Stats {
    let lens = [0usize, 1, 7, 8, 9, 63, 64, 65, 127, 128, 129, 257];
    let units = (lens.len() * OFFS.len() * NVALID * 2 * 2) as u64;
    par_for(ctx, sub, units, 4, |idx, st| {
        let mut k = idx as usize;
        let base = k % 2 == 1;
        k /= 2;
        let garbage = k % 2 == 1; // value stored under null slots
        k /= 2;
        let fam = k % NVALID;
        k /= NVALID;
        let off = OFFS[k % OFFS.len()];
        let len = lens[k / OFFS.len()];
        for p in positions(len) {
            let vals: Vec<bool> = (0..len).map(|i| if i == p { !base } else { base }).collect();
            let valid: Vec<bool> = (0..len).map(|i| valid_at(fam, i, p, len)).collect();
            let stored: Vec<bool> = (0..len).map(|i| if valid[i] { vals[i] } else { garbage }).collect();
            // physical layout: `off` leading garbage bits sliced away
            let mut pv = vec![!base; off];
            pv.extend(&stored);
            let mut pn = vec![true; off];
            pn.extend(&valid);
            let nulls = if fam == 0 { None } else { Some(NullBuffer::new(BooleanBuffer::from(pn))) };
            let arr = BooleanArray::new(BooleanBuffer::from(pv), nulls).slice(off, len);
            let xs: Vec<bool> = (0..len).filter(|i| valid[*i]).map(|i| vals[i]).collect();
            let some = !xs.is_empty();
            st.add(sub, 1, (len > 1 && some) as u64);
            let want_min = some.then(|| xs.iter().all(|b| *b));
            let want_max = some.then(|| xs.iter().any(|b| *b));
            let r = catch(|| (ag::min_boolean(&arr), ag::max_boolean(&arr), ag::bool_and(&arr), ag::bool_or(&arr)));
            match r {
                Ok((mn, mx, and, or)) => {
                    if mn != want_min || and != want_min || mx != want_max || or != want_max {
                        st.violate(idx, "c12:aggregate:boolean", format!("Boolean len {len} off {off} validity family {fam} base {base} flipped@{p} garbage {garbage}: min/and = {mn:?}/{and:?} (expected {want_min:?}), max/or = {mx:?}/{or:?} (expected {want_max:?})"), || {
                            json!({"sub": sub, "len": len, "offset": off, "validity_family": fam, "base": base, "poison_position": p, "garbage": garbage})
                        });
                    } else {
                        st.outcome(&format!("c12:aggregate:boolean:min={want_min:?},max={want_max:?}"));
                    }
                }
                Err(pn_) => st.violate(idx, format!("c12:aggregate:boolean:{}", pn_.fingerprint()), format!("{pn_:?}"), || json!({"sub": sub, "len": len, "offset": off})),
            }
        }
    })
}

// ---------------------------------------------------------------------------------------------
// strings / binaries: every column of length <= 3 over the alphabet (+ null), and poison positions in long columns

fn agg_bytes(ctx: &Ctx, sub: &'static str) -> Stats {
    let alpha: Vec<&str> = vec!["", "a", "b", "ab", "b\u{80}", "bbbbbbbbbbbbb1", "bbbbbbbbbbbbb2", "bbbbbbbbbbbb", "zzzzzzzzzzzzzzzzzzzzzzzz"];
    let na = alpha.len() + 1; // last symbol = null
    let mut cols: Vec<Vec<Option<&str>>> = vec![vec![]];
    for n in 1..=3usize {
        for m in 0..na.pow(n as u32) {
            let mut c = vec![];
            let mut x = m;
            for _ in 0..n {
                let s = x % na;
                x /= na;
                c.push(if s == alpha.len() { None } else { Some(alpha[s]) });
            }
            cols.push(c);
        }
    }
    // long columns: base "m", poison = smallest / largest at each position, nulls alternating
    for len in [64usize, 65, 130] {
        for p in positions(len) {
            for poison in ["", "zz"] {
                for nullfam in [0usize, 2, 4] {
                    cols.push((0..len).map(|i| if !valid_at(nullfam, i, p, len) { None } else if i == p { Some(poison) } else { Some("m") }).collect());
                }
            }
        }
    }
    let n = cols.len() as u64;
    par_for(ctx, sub, n, 32, |idx, st| {
        let col = &cols[idx as usize];
        for off in [0usize, 2] {
            let mut padded: Vec<Option<&str>> = vec![Some("\u{10FFFF}"), None][..off].to_vec();
            padded.extend(col.iter().copied());
            let len = col.len();
            let xs: Vec<&[u8]> = col.iter().flatten().map(|s| s.as_bytes()).collect();
            let wmin = xs.iter().min().copied();
            let wmax = xs.iter().max().copied();
            st.add(sub, 1, (xs.len() > 1) as u64);
            let sa = StringArray::from(padded.clone()).slice(off, len);
            let lsa = LargeStringArray::from(padded.clone()).slice(off, len);
            let sva = StringViewArray::from(padded.clone()).slice(off, len);
            let ba = BinaryArray::from(padded.iter().map(|o| o.map(|s| s.as_bytes())).collect::<Vec<_>>()).slice(off, len);
            let lba = LargeBinaryArray::from(padded.iter().map(|o| o.map(|s| s.as_bytes())).collect::<Vec<_>>()).slice(off, len);
            let bva = BinaryViewArray::from(padded.iter().map(|o| o.map(|s| s.as_bytes())).collect::<Vec<_>>()).slice(off, len);
            let r = catch(|| {
                let mut out: Vec<(&'static str, Option<Vec<u8>>, Option<Vec<u8>>)> = vec![];
                out.push(("string", ag::min_string(&sa).map(|s| s.as_bytes().to_vec()), ag::max_string(&sa).map(|s| s.as_bytes().to_vec())));
                out.push(("large_string", ag::min_string(&lsa).map(|s| s.as_bytes().to_vec()), ag::max_string(&lsa).map(|s| s.as_bytes().to_vec())));
                out.push(("string_view", ag::min_string_view(&sva).map(|s| s.as_bytes().to_vec()), ag::max_string_view(&sva).map(|s| s.as_bytes().to_vec())));
                out.push(("binary", ag::min_binary(&ba).map(|s| s.to_vec()), ag::max_binary(&ba).map(|s| s.to_vec())));
                out.push(("large_binary", ag::min_binary(&lba).map(|s| s.to_vec()), ag::max_binary(&lba).map(|s| s.to_vec())));
                out.push(("binary_view", ag::min_binary_view(&bva).map(|s| s.to_vec()), ag::max_binary_view(&bva).map(|s| s.to_vec())));
                out
            });
            match r {
                Ok(out) => {
                    for (name, mn, mx) in out {
                        if mn.as_deref() != wmin || mx.as_deref() != wmax {
                            st.violate(idx, format!("c12:aggregate:min/max_{name}"), format!("{name} column {col:?} offset {off}: min/max = {:?}/{:?}, expected {:?}/{:?}", mn.map(|b| String::from_utf8_lossy(&b).to_string()), mx.map(|b| String::from_utf8_lossy(&b).to_string()), wmin.map(String::from_utf8_lossy), wmax.map(String::from_utf8_lossy)), || {
                                json!({"sub": sub, "column": col, "offset": off, "kind": name})
                            });
                        }
                    }
                    st.outcome(if wmin.is_none() { "c12:aggregate:bytes:none" } else if wmin == wmax { "c12:aggregate:bytes:single-distinct" } else { "c12:aggregate:bytes:min<max" });
                }
                Err(pn_) => st.violate(idx, format!("c12:aggregate:bytes:{}", pn_.fingerprint()), format!("{pn_:?}"), || json!({"sub": sub, "column": col, "offset": off})),
            }
            // fixed size binary (only when all values have the same width)
            let widths: Vec<usize> = col.iter().flatten().map(|s| s.len()).collect();
            if !widths.is_empty() && widths.iter().all(|w| *w == widths[0]) && widths[0] > 0 {
                let w = widths[0] as i32;
                let fsb = FixedSizeBinaryArray::try_from_sparse_iter_with_size(padded.iter().map(|o| o.filter(|s| s.len() == w as usize).map(|s| s.as_bytes())), w).unwrap().slice(off, len);
                let (mn, mx) = (ag::min_fixed_size_binary(&fsb), ag::max_fixed_size_binary(&fsb));
                st.add(sub, 1, 1);
                if mn != wmin || mx != wmax {
                    st.violate(idx, "c12:aggregate:min/max_fixed_size_binary", format!("fixed size binary column {col:?} offset {off}: min/max = {mn:?}/{mx:?}, expected {wmin:?}/{wmax:?}"), || json!({"sub": sub, "column": col, "offset": off, "kind": "fixed_size_binary"}));
                }
            }
        }
    })
}

// ---------------------------------------------------------------------------------------------
// sum_array / min_array / max_array over dictionary and run-end encoded arrays

fn agg_encoded(sub: &'static str, st: &mut Stats) {
    // dictionary: every key column of length <= 3 over {0,1,2,null} against values [5, MAX, -7]
    let values = Int32Array::from(vec![5, i32::MAX, -7]);
    for n in 0..=3usize {
        for m in 0..4usize.pow(n as u32) {
            let mut keys: Vec<Option<i8>> = vec![];
            let mut x = m;
            for _ in 0..n {
                keys.push(if x % 4 == 3 { None } else { Some((x % 4) as i8) });
                x /= 4;
            }
            for off in [0usize, 1] {
                let mut padded = vec![Some(1i8); off];
                padded.extend(keys.iter().copied());
                let dict = DictionaryArray::<Int8Type>::try_new(Int8Array::from(padded), Arc::new(values.clone())).unwrap().slice(off, n);
                let typed = dict.downcast_dict::<Int32Array>().unwrap();
                let xs: Vec<i128> = keys.iter().flatten().map(|k| values.value(*k as usize) as i128).collect();
                let some = !xs.is_empty();
                let total: i128 = xs.iter().sum();
                st.add(sub, 1, (xs.len() > 1) as u64);
                let g_sum = ag::sum_array::<Int32Type, _>(typed);
                let g_sumc = ag::sum_array_checked::<Int32Type, _>(typed);
                let g_min = ag::min_array::<Int32Type, _>(typed);
                let g_max = ag::max_array::<Int32Type, _>(typed);
                let mut prefix_over = false;
                let mut acc = 0i128;
                for x in &xs {
                    acc += x;
                    prefix_over |= !<i32 as IntN>::fits(acc);
                }
                let fits = <i32 as IntN>::fits(total);
                let okc = match (&g_sumc, some) {
                    (Ok(None), false) => true,
                    (Ok(Some(v)), true) => fits && *v as i128 == total,
                    (Err(_), true) => !fits || prefix_over,
                    _ => false,
                };
                if g_sum != some.then(|| total as i32) || !okc || g_min != xs.iter().min().map(|v| *v as i32) || g_max != xs.iter().max().map(|v| *v as i32) {
                    st.violate(0, "c12:aggregate:dictionary", format!("dictionary keys {keys:?} offset {off} over values [5, MAX, -7]: sum {g_sum:?} sum_checked {g_sumc:?} min {g_min:?} max {g_max:?}; non-null logical values {xs:?}"), || json!({"sub": sub, "keys": keys, "offset": off}));
                } else {
                    st.outcome("c12:aggregate:dictionary:ok");
                }
            }
        }
    }
    // run-end encoded: run lengths from {1,2,3}^k, k<=3, values over {5, MAX, -7, null}, all logical slices
    let menu: [Option<i32>; 4] = [Some(5), Some(i32::MAX), Some(-7), None];
    for k in 1..=3usize {
        for lm in 0..3usize.pow(k as u32) {
            for vm in 0..4usize.pow(k as u32) {
                let (mut l, mut v) = (lm, vm);
                let mut ends = vec![];
                let mut vals = vec![];
                let mut logical: Vec<Option<i32>> = vec![];
                let mut e = 0i32;
                for _ in 0..k {
                    let rl = (l % 3) as i32 + 1;
                    l /= 3;
                    e += rl;
                    ends.push(e);
                    let val = menu[v % 4];
                    v /= 4;
                    vals.push(val);
                    for _ in 0..rl {
                        logical.push(val);
                    }
                }
                let ree = RunArray::<Int32Type>::try_new(&Int32Array::from(ends.clone()), &Int32Array::from(vals.clone())).unwrap();
                let total_len = logical.len();
                for off in 0..total_len {
                    for len in [total_len - off, 1.min(total_len - off)] {
                        let sl = ree.slice(off, len);
                        let typed = sl.downcast::<Int32Array>().unwrap();
                        let xs: Vec<i128> = logical[off..off + len].iter().flatten().map(|x| *x as i128).collect();
                        let some = !xs.is_empty();
                        let total: i128 = xs.iter().sum();
                        let fits = <i32 as IntN>::fits(total);
                        st.add(sub, 1, (xs.len() > 1) as u64);
                        let g_sum = ag::sum_array::<Int32Type, _>(typed);
                        let g_sumc = ag::sum_array_checked::<Int32Type, _>(typed);
                        let g_min = ag::min_array::<Int32Type, _>(typed);
                        let g_max = ag::max_array::<Int32Type, _>(typed);
                        // checked: per-run products and partial sums may overflow although the total fits
                        let okc = match (&g_sumc, some) {
                            (Ok(None), false) => true,
                            (Ok(Some(v)), true) => fits && *v as i128 == total,
                            (Err(_), true) => !fits || xs.iter().any(|x| *x == i32::MAX as i128),
                            _ => false,
                        };
                        let sum_bad = g_sum != some.then(|| total as i32) || !okc;
                        let mm_bad = g_min != xs.iter().min().map(|v| *v as i32) || g_max != xs.iter().max().map(|v| *v as i32);
                        if sum_bad || mm_bad {
                            let cls = if sum_bad { if off > 0 { "sum:sliced-with-offset" } else { "sum" } } else { "min-max" };
                            st.violate(0, format!("c12:aggregate:run-end-encoded:{cls}"), format!("REE run_ends {ends:?} values {vals:?} slice({off},{len}): sum {g_sum:?} sum_checked {g_sumc:?} min {g_min:?} max {g_max:?}; non-null logical values {xs:?}"), || {
                                json!({"sub": sub, "run_ends": ends, "values": vals, "offset": off, "len": len})
                            });
                        } else {
                            st.outcome("c12:aggregate:run-end-encoded:ok");
                        }
                    }
                }
            }
        }
    }
}

pub fn run(ctx: &Ctx, st: &mut Stats, tick: &mut dyn FnMut(&str)) {
    let sub = "aggregates-numeric";
    st.merge(agg_int::<Int8Type>(ctx, sub, bits_fn!(Int8Type)));
    st.merge(agg_int::<UInt8Type>(ctx, sub, bits_fn!(UInt8Type)));
    st.merge(agg_int::<Int16Type>(ctx, sub, bits_fn!(Int16Type)));
    st.merge(agg_int::<Int32Type>(ctx, sub, bits_fn!(Int32Type)));
    st.merge(agg_int::<UInt32Type>(ctx, sub, bits_fn!(UInt32Type)));
    st.merge(agg_int::<Int64Type>(ctx, sub, bits_fn!(Int64Type)));
    st.merge(agg_int::<UInt64Type>(ctx, sub, bits_fn!(UInt64Type)));
    st.merge(agg_int::<DurationMillisecondType>(ctx, sub, None));
    tick("aggregates int");
    st.merge(agg_big::<Decimal128Type>(ctx, sub, DataType::Decimal128(38, 3)));
    st.merge(agg_big::<Decimal256Type>(ctx, sub, DataType::Decimal256(76, 0)));
    let _ = i256::ZERO;
    tick("aggregates decimal");
    st.merge(agg_float::<Float64Type>(ctx, "aggregates-float", true));
    st.merge(agg_float::<Float32Type>(ctx, "aggregates-float", true));
    st.merge(agg_float::<Float16Type>(ctx, "aggregates-float", false));
    let _ = f16::ZERO;
    tick("aggregates float");
    st.merge(agg_bool(ctx, "aggregates-boolean"));
    st.merge(agg_bytes(ctx, "aggregates-bytes"));
    let mut s = Stats::new();
    agg_encoded("aggregates-encoded", &mut s);
    st.merge(s);
    tick("aggregates bool/bytes/encoded");
}
