//! C12 - arithmetic, aggregation and boolean kernels are exact or report overflow.
use vcore::{Ctx, Level, Stats};

/// evidence sub-engine name prefix -> module group (for `--only=` and replays)
const SUB_MODULES: [(&str, &str); 16] = [
    ("int", "ints"),
    ("uint", "ints"),
    ("duration", "ints"),
    ("float", "ints"),
    ("decimal", "dec"),
    ("native", "native"),
    ("i256", "native"),
    ("interval-structs", "native"),
    ("timestamp", "temporal"),
    ("date", "temporal"),
    ("interval-kernels", "temporal"),
    ("null-patterns", "nulls"),
    ("aggregates", "agg"),
    ("kleene", "kleene"),
    ("bitwise", "kleene"),
    ("fixed-point", "fixed"),
];

pub fn run(ctx: &Ctx) -> ! {
    let mut st = Stats::new();
    let mut only: Option<String> = ctx.extra_args.iter().find_map(|a| a.strip_prefix("--only=").map(|s| s.to_string()));
    let mut replay_fp: Option<String> = None;
    if let Some(case) = vcore::load_replay(ctx) {
        println!("replay case: {case}");
        if let Some(code) = crate::replay::replay(&case) {
            std::process::exit(code);
        }
        // other sub-engines: re-run the sub-engine that produced the case and report whether its class shows up again
        let sub = case["sub"].as_str().unwrap_or("");
        let module = SUB_MODULES.iter().find(|(p, _)| sub.starts_with(p)).map(|x| x.1);
        let Some(module) = module else {
            eprintln!("MACHINERY: replay file names unknown sub-engine {sub:?}");
            std::process::exit(2)
        };
        println!("replay: re-running sub-engine group `{module}` (case descriptor above identifies the input)");
        only = Some(module.to_string());
        replay_fp = Some(std::fs::read_to_string(ctx.replay.as_ref().unwrap()).ok().and_then(|t| vcore::serde_json::from_str::<vcore::serde_json::Value>(&t).ok()).and_then(|v| v["fingerprint"].as_str().map(|s| s.to_string())).unwrap_or_default());
    }
    let want = |name: &str| only.as_deref().map(|o| o.split(',').any(|x| x == name)).unwrap_or(true);
    let timing = ctx.has_flag("--timing");
    let mut lap = std::time::Instant::now();
    let mut tick = |name: &str| {
        if timing {
            eprintln!("[timing] {name}: {:.2}s", lap.elapsed().as_secs_f64());
        }
        lap = std::time::Instant::now();
    };
    if want("ints") {
        crate::ints::run(ctx, &mut st, &mut tick);
    }
    if want("dec") {
        crate::dec::run(ctx, &mut st, &mut tick);
    }
    if want("fixed") {
        crate::fixed::run(ctx, &mut st, &mut tick);
    }
    if want("native") {
        crate::native::run(ctx, &mut st, &mut tick);
    }
    if want("temporal") {
        crate::temporal::run(ctx, &mut st, &mut tick);
    }
    if want("nulls") {
        crate::nulls::run(ctx, &mut st, &mut tick);
    }
    if want("agg") {
        crate::agg::run(ctx, &mut st, &mut tick);
    }
    if want("kleene") {
        crate::kleene::run(ctx, &mut st, &mut tick);
    }
    if let Some(fp) = replay_fp {
        let hit: Vec<_> = st.violations.iter().filter(|v| v.fingerprint == fp).collect();
        match hit.first() {
            Some(v) => {
                println!("replay outcome: violation class {fp} reproduced ({} occurrences)", st.viol_counts.get(&fp).copied().unwrap_or(0));
                println!("  first: {}", v.message);
                println!("  case: {}", v.case);
                std::process::exit(1)
            }
            None => {
                println!("replay outcome: class {fp} did not occur");
                std::process::exit(0)
            }
        }
    }
    vcore::finish(
        ctx,
        Level {
            category: "exploration",
            rule: "cases are enumerated, never sampled. One evaluation = one (kernel, types, physical form, slice offset, operand pair) element result compared with the exact reference (element-wise engines), one (aggregate bundle, type, length, offset, validity family, poison kind, poison position) array (aggregate engines), or one (operator bundle, left column, right column, bit offsets, buffer presence) pair (boolean engines); all enumerated cases are distinct by construction (mixed-radix decoding of the case index). A case is non-trivial when no operand is zero (element-wise), when the array has more than one slot and at least one non-null value (aggregates), or when at least one null is involved (boolean / null engines). Checked kernels abort an array on the first error, therefore Ok-expected pairs are packed into one call and every other pair is executed in a call of its own, so every pair's outcome is determined individually.".into(),
            assumptions: vec![
                "integer reference: exact arithmetic in i128 for widths <= 64 bit and num-bigint beyond (Decimal128/256, i128, i256); wrapping = reference mod 2^w; MIN % -1 == 0 for the rem kernel as documented".into(),
                "decimals: result (precision, scale) per the rules stated in decimal_op (Hive rules; div: scale min(s1+4, max), truncation toward zero; rem: scale max(s1,s2)); Ok is demanded when both operands are within their declared precision and the exact result is within the result precision; an exact result that only fits the physical type may be Ok(exact) or Err; an unrepresentable result must be Err".into(),
                "temporal: independent proleptic Gregorian model; Ok is demanded while all inputs/intermediates/results stay within the years -262000..=262000 (chrono spans -262143..=262142); Err is demanded when the exact result does not fit the physical type; otherwise a successful call must return the exact value. Only fixed-offset time zones (None, +00:00, +05:30, -08:00)".into(),
                "floats: same IEEE-754 operation on the host (f16: computed in f64 and rounded once), compared by bits, NaN by class; float sums/products only on contents whose result is independent of association".into(),
                "sum_checked/product_checked: Err is accepted when a partial reduction (in index order) overflows although the total fits; min/max on floats follow IEEE totalOrder, with a negative-sign NaN present the reading of the min/max docs (NaN greatest) is accepted as well".into(),
                "Interval(MonthDayNano) * / Float64 with non-integral factors (floating point recipe without exact reference) is not covered; shifts by amounts outside 0..bits are not pinned".into(),
            ],
            exhaustive_space: "8-bit: all 65,536 operand pairs x {add,sub,mul,div,rem,add_wrapping,sub_wrapping,mul_wrapping} x {array-array, array-scalar, scalar-array} x 2 offsets for Int8/UInt8, all 256 values for neg; 16-bit: all 65,536 values x a 45-value boundary set in both orders and all forms (thorough: the full 16x16 square for add/sub/mul and wrapping forms); Float16: all 65,536 bit patterns x 40 boundary values; wider types: boundary lattice B x B; nulls: all {valid,null}^n, n<=3, on both operands; boolean: all {T,F,N0,N1}^n x same, n<=3, all value bit offsets 0..=9 on both sides; aggregates: all listed lengths x offsets x validity families x every poison position in the first/last 64 slots".into(),
        },
        st,
    )
}
