//! C12 - arithmetic, aggregation and boolean kernels are exact or report overflow.
use vcore::{Ctx, Level, Stats};

pub fn run(ctx: &Ctx) -> ! {
    let mut st = Stats::new();
    let only: Option<String> = ctx.extra_args.iter().find_map(|a| a.strip_prefix("--only=").map(|s| s.to_string()));
    let want = |name: &str| only.as_deref().map(|o| o.split(',').any(|x| x == name)).unwrap_or(true);
    let timing = ctx.has_flag("--timing");
    let mut lap = std::time::Instant::now();
    let mut tick = |name: &str| {
        if timing {
            eprintln!("[timing] {name}: {:.2}s", lap.elapsed().as_secs_f64());
        }
        lap = std::time::Instant::now();
    };
    if want("ints") {
        crate::ints::run(ctx, &mut st, &mut tick);
    }
    if want("dec") {
        crate::dec::run(ctx, &mut st, &mut tick);
    }
    vcore::finish(
        ctx,
        Level {
            category: "exploration",
            rule: "cases are enumerated, never sampled".into(),
            assumptions: vec![],
            exhaustive_space: "".into(),
        },
        st,
    )
}
