//! Generic evaluation of element-wise binary / unary kernels against a per-element oracle such that
//! every enumerated operand pair's outcome is determined individually although checked kernels abort
//! a whole array on the first error: Ok-expected pairs are packed into one big call, every other pair
//! gets its own one-row call.
use crate::refm::Exp;
use arrow_array::{Array, ArrayRef, ArrowPrimitiveType, Datum, PrimitiveArray, Scalar};
use arrow_buffer::{NullBuffer, ScalarBuffer};
use arrow_schema::{ArrowError, DataType};
use vcore::serde_json::{Value, json};
use vcore::{Stats, catch};

pub type Kernel = fn(&dyn Datum, &dyn Datum) -> Result<ArrayRef, ArrowError>;
pub type UKernel = fn(&dyn Array) -> Result<ArrayRef, ArrowError>;

#[derive(Clone, Copy, Debug, PartialEq, Eq)]
pub enum Form {
    /// array op array
    AA,
    /// array op scalar (all right operands of the batch are equal)
    AS,
    /// scalar op array (all left operands of the batch are equal)
    SA,
}
impl Form {
    pub const ALL: [Form; 3] = [Form::AA, Form::AS, Form::SA];
    pub fn name(self) -> &'static str {
        match self {
            Form::AA => "array-array",
            Form::AS => "array-scalar",
            Form::SA => "scalar-array",
        }
    }
}

/// physical layout of the array operands: `off` leading garbage elements are sliced away
#[derive(Clone, Copy, Debug)]
pub struct Layout {
    pub form: Form,
    pub off: usize,
}

pub struct BinSpec<'a, L: ArrowPrimitiveType, R: ArrowPrimitiveType, O: ArrowPrimitiveType> {
    /// evidence sub-engine name
    pub sub: &'a str,
    /// fingerprint stem, e.g. `c12:int:add`
    pub fp: String,
    /// human label, e.g. `Int8 add`
    pub label: String,
    pub kernel: Kernel,
    pub ldt: DataType,
    pub rdt: DataType,
    /// expected output type (None: the call is expected to be rejected for every input; not used by eval_pairs)
    pub odt: DataType,
    pub expect: &'a (dyn Fn(L::Native, R::Native) -> Exp<O::Native> + Sync),
    pub same: fn(O::Native, O::Native) -> bool,
    /// garbage value used for sliced-away prefix elements
    pub lgarbage: L::Native,
    pub rgarbage: R::Native,
    /// when set, every violation of this spec is reported under the bare stem `fp` (one defect class
    /// - e.g. an input class outside the implementation's arithmetic range - with many symptoms)
    pub collapse: bool,
}

pub fn mk<T: ArrowPrimitiveType>(vals: &[T::Native], dt: &DataType, off: usize, garbage: T::Native) -> PrimitiveArray<T> {
    let mut v: Vec<T::Native> = Vec::with_capacity(vals.len() + off);
    for _ in 0..off {
        v.push(garbage);
    }
    v.extend_from_slice(vals);
    let a = PrimitiveArray::<T>::new(ScalarBuffer::from(v), None).with_data_type(dt.clone());
    if off > 0 { a.slice(off, vals.len()) } else { a }
}
pub fn mk_nulls<T: ArrowPrimitiveType>(vals: &[T::Native], valid: &[bool], dt: &DataType, off: usize, garbage: T::Native) -> PrimitiveArray<T> {
    let mut v: Vec<T::Native> = Vec::with_capacity(vals.len() + off);
    let mut n: Vec<bool> = Vec::with_capacity(vals.len() + off);
    for i in 0..off {
        v.push(garbage);
        n.push(i % 2 == 0);
    }
    v.extend_from_slice(vals);
    n.extend_from_slice(valid);
    let a = PrimitiveArray::<T>::new(ScalarBuffer::from(v), Some(NullBuffer::from(n))).with_data_type(dt.clone());
    if off > 0 { a.slice(off, vals.len()) } else { a }
}

pub fn kernel_name(k: Kernel) -> &'static str {
    use arrow_arith::numeric as n;
    let names: [(Kernel, &'static str); 8] = [(n::add, "add"), (n::sub, "sub"), (n::mul, "mul"), (n::div, "div"), (n::rem, "rem"), (n::add_wrapping, "add_wrapping"), (n::sub_wrapping, "sub_wrapping"), (n::mul_wrapping, "mul_wrapping")];
    names.iter().find(|(f, _)| *f as *const () as usize == k as *const () as usize).map(|x| x.1).unwrap_or("?")
}
pub fn kernel_by_name(name: &str) -> Option<Kernel> {
    use arrow_arith::numeric as n;
    Some(match name {
        "add" => n::add,
        "sub" => n::sub,
        "mul" => n::mul,
        "div" => n::div,
        "rem" => n::rem,
        "add_wrapping" => n::add_wrapping,
        "sub_wrapping" => n::sub_wrapping,
        "mul_wrapping" => n::mul_wrapping,
        _ => return None,
    })
}

pub fn err_kind(e: &ArrowError) -> &'static str {
    match e {
        ArrowError::DivideByZero => "DivideByZero",
        ArrowError::ArithmeticOverflow(_) => "ArithmeticOverflow",
        ArrowError::ComputeError(_) => "ComputeError",
        ArrowError::InvalidArgumentError(_) => "InvalidArgumentError",
        ArrowError::CastError(_) => "CastError",
        _ => "other",
    }
}

pub enum CallOut<N> {
    Vals(Vec<Option<N>>),
    Err(String, &'static str),
    /// violation found while inspecting the output (fingerprint suffix, message)
    Bad(String, String),
}

/// Calls the kernel in the given layout, checks type / length / well-formedness of an Ok output.
pub fn call<L: ArrowPrimitiveType, R: ArrowPrimitiveType, O: ArrowPrimitiveType>(
    spec: &BinSpec<L, R, O>,
    lay: Layout,
    ls: &[L::Native],
    rs: &[R::Native],
) -> CallOut<O::Native> {
    let n = match lay.form {
        Form::AA => ls.len(),
        Form::AS => ls.len(),
        Form::SA => rs.len(),
    };
    let r = catch(|| match lay.form {
        Form::AA => {
            let l = mk::<L>(ls, &spec.ldt, lay.off, spec.lgarbage);
            let r = mk::<R>(rs, &spec.rdt, lay.off, spec.rgarbage);
            (spec.kernel)(&l, &r)
        }
        Form::AS => {
            let l = mk::<L>(ls, &spec.ldt, lay.off, spec.lgarbage);
            let r = Scalar::new(mk::<R>(&rs[..1], &spec.rdt, lay.off, spec.rgarbage));
            (spec.kernel)(&l, &r)
        }
        Form::SA => {
            let l = Scalar::new(mk::<L>(&ls[..1], &spec.ldt, lay.off, spec.lgarbage));
            let r = mk::<R>(rs, &spec.rdt, lay.off, spec.rgarbage);
            (spec.kernel)(&l, &r)
        }
    });
    match r {
        Err(p) => CallOut::Bad(p.fingerprint(), format!("panic {p:?}")),
        Ok(Err(e)) => CallOut::Err(e.to_string(), err_kind(&e)),
        Ok(Ok(arr)) => inspect::<O>(&arr, &spec.odt, n),
    }
}

pub fn inspect<O: ArrowPrimitiveType>(arr: &ArrayRef, odt: &DataType, n: usize) -> CallOut<O::Native> {
    if arr.data_type() != odt {
        return CallOut::Bad("result-type".into(), format!("result type {} but documented {}", arr.data_type(), odt));
    }
    if arr.len() != n {
        return CallOut::Bad("result-len".into(), format!("result length {} for input length {}", arr.len(), n));
    }
    if let Err(e) = arr.to_data().validate_full() {
        return CallOut::Bad("wf".into(), format!("validate_full failed on kernel output: {e}"));
    }
    let Some(p) = arr.as_any().downcast_ref::<PrimitiveArray<O>>() else {
        return CallOut::Bad("result-type".into(), "result is not the expected primitive array".into());
    };
    CallOut::Vals((0..n).map(|i| if p.is_null(i) { None } else { Some(p.value(i)) }).collect())
}

fn case_json<L: ArrowPrimitiveType, R: ArrowPrimitiveType, O: ArrowPrimitiveType>(spec: &BinSpec<L, R, O>, lay: Layout, a: L::Native, b: R::Native) -> Value {
    json!({"sub": spec.sub, "replay": "binary-kernel", "kernel": spec.label, "function": kernel_name(spec.kernel), "left_type": spec.ldt.to_string(), "right_type": spec.rdt.to_string(),
        "documented_result_type": spec.odt.to_string(), "form": lay.form.name(), "offset": lay.off, "left": format!("{a:?}"), "right": format!("{b:?}"),
        "expected": format!("{:?}", (spec.expect)(a, b))})
}

/// Evaluate a batch of operand pairs. For AS all `rs` must be equal, for SA all `ls`.
/// `nz` tells whether a pair is non-trivial.
pub fn eval_pairs<L: ArrowPrimitiveType, R: ArrowPrimitiveType, O: ArrowPrimitiveType>(
    spec: &BinSpec<L, R, O>,
    lay: Layout,
    ls: &[L::Native],
    rs: &[R::Native],
    nontrivial: u64,
    order: u64,
    st: &mut Stats,
) {
    assert_eq!(ls.len(), rs.len());
    let n = ls.len();
    let exps: Vec<Exp<O::Native>> = (0..n).map(|i| (spec.expect)(ls[i], rs[i])).collect();
    let mut okl = Vec::with_capacity(n);
    let mut okr = Vec::with_capacity(n);
    let mut okv = Vec::with_capacity(n);
    let mut singles = vec![];
    for i in 0..n {
        match &exps[i] {
            Exp::Val(v) => {
                okl.push(ls[i]);
                okr.push(rs[i]);
                okv.push(*v);
            }
            _ => singles.push(i),
        }
    }
    st.add(spec.sub, n as u64, nontrivial);
    if n > 0 {
        st.sample(spec.sub, || case_json(spec, lay, ls[n / 2], rs[n / 2]));
    }
    let oc = |k: &str| format!("{}:{}", spec.fp, k);
    // violation fingerprint
    let vf = |k: &str| if spec.collapse { spec.fp.clone() } else { format!("{}:{}", spec.fp, k) };
    // ---- packed call over all Ok-expected pairs (also executed for an empty batch: empty-array case)
    {
        let (cl, cr): (&[L::Native], &[R::Native]) = (&okl, &okr);
        let need_operand = match lay.form {
            Form::AS => !rs.is_empty(),
            Form::SA => !ls.is_empty(),
            Form::AA => true,
        };
        if need_operand {
            // scalar operand: take it from the batch even when no pair is Ok-expected
            let (sl, sr);
            let (cl, cr) = match lay.form {
                Form::AS if cr.is_empty() => {
                    sr = vec![rs[0]];
                    (cl, &sr[..])
                }
                Form::SA if cl.is_empty() => {
                    sl = vec![ls[0]];
                    (&sl[..], cr)
                }
                _ => (cl, cr),
            };
            match call(spec, lay, cl, cr) {
                CallOut::Vals(vs) => {
                    if !okv.is_empty() {
                        st.outcome_n(&oc("ok"), okv.len() as u64);
                    } else {
                        st.outcome(&oc("empty-array-ok"));
                    }
                    for (i, got) in vs.iter().enumerate() {
                        match got {
                            Some(g) if (spec.same)(*g, okv[i]) => {}
                            Some(g) => st.violate(order, vf("wrong-value"), format!("{} ({}, offset {}): {:?} op {:?} = {:?}, exact result {:?}", spec.label, lay.form.name(), lay.off, okl[i], okr[i], g, okv[i]), || {
                                case_json(spec, lay, okl[i], okr[i])
                            }),
                            None => st.violate(order, vf("null-from-valid"), format!("{} ({}): result null for non-null operands {:?}, {:?}", spec.label, lay.form.name(), okl[i], okr[i]), || {
                                case_json(spec, lay, okl[i], okr[i])
                            }),
                        }
                    }
                }
                CallOut::Err(msg, _) => {
                    // locate the first culprit with one-row calls
                    let mut found = false;
                    for i in 0..okv.len() {
                        if let CallOut::Err(m1, _) = call(spec, lay, &okl[i..i + 1], &okr[i..i + 1]) {
                            st.violate(order, vf("error-though-representable"), format!("{} ({}): {:?} op {:?} returned Err({m1}) but the exact result {:?} is representable", spec.label, lay.form.name(), okl[i], okr[i], okv[i]), || {
                                case_json(spec, lay, okl[i], okr[i])
                            });
                            found = true;
                            break;
                        }
                    }
                    if !found {
                        let (a, b) = if okv.is_empty() { (ls[0], rs[0]) } else { (okl[0], okr[0]) };
                        let k = if okv.is_empty() { "error-though-representable" } else { "batch-error" };
                        st.violate(order, vf(k), format!("{} ({}): call over {} rows (all Ok-expected; 0 rows = empty array operand) returned Err({msg}), no single row reproduces it", spec.label, lay.form.name(), okv.len()), || {
                            case_json(spec, lay, a, b)
                        });
                    }
                }
                CallOut::Bad(k, msg) => {
                    let (a, b) = if okv.is_empty() { (ls.first().copied().unwrap_or(spec.lgarbage), rs.first().copied().unwrap_or(spec.rgarbage)) } else { (okl[0], okr[0]) };
                    st.violate(order, vf(&k), format!("{} ({}, {} rows): {msg}", spec.label, lay.form.name(), okv.len()), || case_json(spec, lay, a, b))
                }
            }
        }
    }
    // ---- one-row calls
    for i in singles {
        let (a, b) = (ls[i], rs[i]);
        let out = call(spec, lay, &ls[i..i + 1], &rs[i..i + 1]);
        match (&exps[i], out) {
            (_, CallOut::Bad(k, msg)) => st.violate(order, vf(&k), format!("{} ({}): {:?} op {:?}: {msg}", spec.label, lay.form.name(), a, b), || case_json(spec, lay, a, b)),
            (Exp::Err, CallOut::Err(_, kind)) => st.outcome(&oc(&format!("err:{kind}"))),
            (Exp::Err, CallOut::Vals(v)) => st.violate(order, vf("missing-error"), format!("{} ({}): {:?} op {:?} returned {:?} but the exact result is not representable / undefined: an error is required", spec.label, lay.form.name(), a, b, v[0]), || {
                case_json(spec, lay, a, b)
            }),
            (Exp::Any(_) | Exp::Free, CallOut::Err(_, _)) => st.outcome(&oc("undocumented-domain:err")),
            (Exp::Any(w), CallOut::Vals(v)) => match v[0] {
                Some(g) if (spec.same)(g, *w) => st.outcome(&oc("undocumented-domain:ok")),
                got => st.violate(order, vf("wrong-value"), format!("{} ({}): {:?} op {:?} = {:?}, exact result {:?}", spec.label, lay.form.name(), a, b, got, w), || case_json(spec, lay, a, b)),
            },
            (Exp::Free, CallOut::Vals(_)) => st.outcome(&oc("undocumented-domain:ok")),
            (Exp::Val(_), _) => unreachable!(),
        }
    }
}

/// Unary kernels (neg, neg_wrapping).
pub struct UnSpec<'a, T: ArrowPrimitiveType> {
    pub sub: &'a str,
    pub fp: String,
    pub label: String,
    pub kernel: UKernel,
    pub dt: DataType,
    pub expect: &'a (dyn Fn(T::Native) -> Exp<T::Native> + Sync),
    pub same: fn(T::Native, T::Native) -> bool,
    pub garbage: T::Native,
}
pub fn eval_unary<T: ArrowPrimitiveType>(spec: &UnSpec<T>, off: usize, xs: &[T::Native], nontrivial: u64, order: u64, st: &mut Stats) {
    let oc = |k: &str| format!("{}:{}", spec.fp, k);
    let cj = |a: T::Native| json!({"sub": spec.sub, "replay": "unary-kernel", "kernel": spec.label, "function": if spec.kernel as *const () as usize == arrow_arith::numeric::neg as *const () as usize { "neg" } else { "neg_wrapping" },
        "type": spec.dt.to_string(), "offset": off, "operand": format!("{a:?}"), "expected": format!("{:?}", (spec.expect)(a))});
    let run = |vals: &[T::Native]| -> CallOut<T::Native> {
        let r = catch(|| {
            let a = mk::<T>(vals, &spec.dt, off, spec.garbage);
            (spec.kernel)(&a)
        });
        match r {
            Err(p) => CallOut::Bad(p.fingerprint(), format!("panic {p:?}")),
            Ok(Err(e)) => CallOut::Err(e.to_string(), err_kind(&e)),
            Ok(Ok(arr)) => inspect::<T>(&arr, &spec.dt, vals.len()),
        }
    };
    st.add(spec.sub, xs.len() as u64, nontrivial);
    let exps: Vec<Exp<T::Native>> = xs.iter().map(|x| (spec.expect)(*x)).collect();
    let mut okx = vec![];
    let mut okv = vec![];
    for (i, e) in exps.iter().enumerate() {
        if let Exp::Val(v) = e {
            okx.push(xs[i]);
            okv.push(*v);
        }
    }
    match run(&okx) {
        CallOut::Vals(vs) => {
            st.outcome_n(&oc("ok"), okv.len() as u64);
            for (i, g) in vs.iter().enumerate() {
                match g {
                    Some(g) if (spec.same)(*g, okv[i]) => {}
                    g => st.violate(order, oc("wrong-value"), format!("{}: op {:?} = {:?}, exact {:?}", spec.label, okx[i], g, okv[i]), || cj(okx[i])),
                }
            }
        }
        CallOut::Err(m, _) => st.violate(order, oc("error-though-representable"), format!("{}: Err({m}) on an array of operands whose results are all representable", spec.label), || cj(okx[0])),
        CallOut::Bad(k, m) => st.violate(order, oc(&k), format!("{}: {m}", spec.label), || cj(okx.first().copied().unwrap_or(spec.garbage))),
    }
    for (i, e) in exps.iter().enumerate() {
        if matches!(e, Exp::Val(_)) {
            continue;
        }
        match (e, run(&xs[i..i + 1])) {
            (_, CallOut::Bad(k, m)) => st.violate(order, oc(&k), format!("{}: op {:?}: {m}", spec.label, xs[i]), || cj(xs[i])),
            (Exp::Err, CallOut::Err(_, kind)) => st.outcome(&oc(&format!("err:{kind}"))),
            (Exp::Err, CallOut::Vals(v)) => st.violate(order, oc("missing-error"), format!("{}: op {:?} returned {:?}, an error is required", spec.label, xs[i], v[0]), || cj(xs[i])),
            (_, CallOut::Err(_, _)) => st.outcome(&oc("undocumented-domain:err")),
            (Exp::Any(w), CallOut::Vals(v)) => match v[0] {
                Some(g) if (spec.same)(g, *w) => st.outcome(&oc("undocumented-domain:ok")),
                g => st.violate(order, oc("wrong-value"), format!("{}: op {:?} = {:?}, exact {:?}", spec.label, xs[i], g, w), || cj(xs[i])),
            },
            _ => st.outcome(&oc("undocumented-domain:ok")),
        }
    }
}

