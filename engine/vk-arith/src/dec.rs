//! Decimal32/64/128/256 arithmetic of arrow_arith::numeric over a grid of (precision, scale) pairs and a
//! per-type value lattice, against exact BigInt arithmetic and the result-type rules stated in
//! arrow-arith/src/numeric.rs (`decimal_op`, "Follow the Hive decimal arithmetic rules").
use crate::core::*;
use crate::ints::{int_kernel, pairs_by_form, same_eq};
use crate::refm::*;
use arrow_arith::numeric;
use arrow_array::types::*;
use arrow_array::ArrowNativeTypeOp;
use arrow_schema::DataType;
use num_bigint::BigInt;
use vcore::{Ctx, Stats, par_for};

#[derive(Clone, Copy, Debug, PartialEq)]
pub struct PS(pub u8, pub i8);

/// Result type documented in decimal_op's comments, computed in exact integers.
/// `Err(())`: the operation is documented to be rejected (mul: scale beyond the maximum) or the result scale is
/// not representable at all. `Ok(None)`: the documented formula does not yield a valid decimal type
/// (precision < 1 or scale > precision) - behaviour undocumented. `Ok(Some((p, s)))` otherwise.
pub fn result_type(op: IOp, a: PS, b: PS, maxp: u8, maxs: i8) -> Result<Option<PS>, ()> {
    let (p1, s1, p2, s2) = (a.0 as i32, a.1 as i32, b.0 as i32, b.1 as i32);
    let (maxp, maxs) = (maxp as i32, maxs as i32);
    let (p, s) = match op {
        IOp::Add | IOp::AddW | IOp::Sub | IOp::SubW => {
            let s = s1.max(s2);
            (s + (p1 - s1).max(p2 - s2) + 1, s)
        }
        IOp::Mul | IOp::MulW => {
            let s = s1 + s2;
            if s > maxs || s < i8::MIN as i32 {
                return Err(());
            }
            (p1 + p2 + 1, s)
        }
        IOp::Div => {
            let s = (s1 + 4).min(maxs);
            (p1 - s1 + s2 + s, s)
        }
        IOp::Rem => {
            let s = s1.max(s2);
            ((p1 - s1).min(p2 - s2) + s, s)
        }
    };
    let p = p.min(maxp);
    if p < 1 || (s > 0 && s > p) || s > maxs {
        return Ok(None);
    }
    Ok(Some(PS(p as u8, s as i8)))
}

/// true when a quantity the implementation computes in i8 leaves the i8 range for this type pair
pub fn i8_range_exceeded(op: IOp, a: PS, b: PS, maxs: i8) -> bool {
    let (p1, s1, p2, s2) = (a.0 as i32, a.1 as i32, b.0 as i32, b.1 as i32);
    let out = |v: i32| v < -128 || v > 127;
    match op {
        IOp::Add | IOp::AddW | IOp::Sub | IOp::SubW | IOp::Rem => {
            let s = s1.max(s2);
            out(p1 - s1) || out(p2 - s2) || out(s - s1) || out(s - s2) || out(s + (p1 - s1).max(p2 - s2)) || out(s + (p1 - s1).min(p2 - s2))
        }
        IOp::Mul | IOp::MulW => out(s1 + s2),
        IOp::Div => {
            let s = (s1 + 4).min(maxs as i32);
            out(s - s1) || out(s - s1 + s2) || out(s - s1 + s2 + p1)
        }
    }
}

fn scale_up(v: &BigInt, k: i32) -> BigInt {
    debug_assert!(k >= 0);
    v * pow10(k as u32)
}

/// exact value at the documented result scale; None = division by zero
pub fn exact_value(op: IOp, a: PS, b: PS, rs: i32, l: &BigInt, r: &BigInt) -> Option<BigInt> {
    let (s1, s2) = (a.1 as i32, b.1 as i32);
    match op {
        IOp::Add | IOp::AddW => Some(scale_up(l, rs - s1) + scale_up(r, rs - s2)),
        IOp::Sub | IOp::SubW => Some(scale_up(l, rs - s1) - scale_up(r, rs - s2)),
        IOp::Mul | IOp::MulW => Some(l * r),
        IOp::Div => {
            if r.sign() == num_bigint::Sign::NoSign {
                return None;
            }
            let e = rs - s1 + s2;
            Some(if e >= 0 { scale_up(l, e) / r } else { l / scale_up(r, -e) })
        }
        IOp::Rem => {
            if r.sign() == num_bigint::Sign::NoSign {
                return None;
            }
            Some(scale_up(l, rs - s1) % scale_up(r, rs - s2))
        }
    }
}

pub fn in_precision(v: &BigInt, p: u8) -> bool {
    v.magnitude() < pow10(p as u32).magnitude()
}

/// per-type value lattice; the flag says whether the value is within the declared precision
fn dec_values<N: BigN>(p: u8, dense: bool) -> Vec<N> {
    let mut v: Vec<BigInt> = vec![];
    let pp = pow10(p as u32);
    let mut push = |x: BigInt| {
        v.push(-x.clone());
        v.push(x);
    };
    for s in [0, 1, 2, 3, 7] {
        push(BigInt::from(s));
    }
    push(&pp - 1);
    push(&pp - 2);
    push(pow10(p as u32 - 1));
    push(pow10(p as u32 - 1) + 1);
    push(pow10(p as u32 - 1) * 5);
    push(pow10(p as u32 / 2));
    push(pp.sqrt() + 1);
    push(&pp / 3);
    if dense {
        let p32 = p as u32;
        let mut ks: Vec<u32> = if p32 <= 9 { (1..p32).collect() } else { vec![1, 2, 3, p32 / 4, p32 / 3, p32 / 2 + 1, 2 * p32 / 3, 3 * p32 / 4, p32 - 3, p32 - 2] };
        ks.retain(|k| *k >= 1 && *k < p32);
        ks.sort();
        ks.dedup();
        for k in ks {
            push(pow10(k));
            push(pow10(k) - 1);
            push(pow10(k) * 2 + 1);
        }
    }
    // physically representable but beyond the declared precision
    push(pp.clone());
    push(N::max_big());
    push(N::max_big() / 10);
    v.push(N::min_big());
    v.retain(|x| N::fits_big(x));
    v.sort();
    v.dedup();
    v.iter().map(|x| N::from_big(x).unwrap()).collect()
}

fn type_grid(maxp: u8, quick: bool) -> Vec<PS> {
    let m = maxp as i8;
    let mut g = vec![PS(maxp, 0), PS(maxp, m), PS(maxp, m / 2), PS(1, 0), PS(5.min(maxp), 2), PS(maxp, -1), PS(maxp - 2, 1), PS(3, -128)];
    if !quick {
        g.extend([PS(1, 1), PS(maxp, -3), PS(2, -100), PS(maxp, -128), PS(maxp / 2, 3), PS(maxp, m - 1), PS(maxp - 1, m - 1), PS(maxp, 10.min(m))]);
    }
    let mut u: Vec<PS> = vec![];
    for x in g {
        if !u.contains(&x) {
            u.push(x);
        }
    }
    u
}

fn base_name(op: IOp) -> &'static str {
    match op {
        IOp::Add | IOp::AddW | IOp::Sub | IOp::SubW => "add_sub",
        IOp::Mul | IOp::MulW => "mul",
        IOp::Div => "div",
        IOp::Rem => "rem",
    }
}

fn dec_units<T>(ctx: &Ctx, sub: &str) -> Stats
where
    T: DecimalType,
    T::Native: BigN + ArrowNativeTypeOp,
{
    let grid = type_grid(T::MAX_PRECISION, ctx.quick());
    let ng = grid.len() as u64;
    let ops: Vec<IOp> = IOp::ALL.to_vec();
    let units = ng * ng * ops.len() as u64;
    par_for(ctx, sub, units, 1, |idx, st| {
        let op = ops[(idx % ops.len() as u64) as usize];
        let ta = grid[((idx / ops.len() as u64) % ng) as usize];
        let tb = grid[((idx / ops.len() as u64) / ng) as usize];
        let (ldt, rdt) = ((T::TYPE_CONSTRUCTOR)(ta.0, ta.1), (T::TYPE_CONSTRUCTOR)(tb.0, tb.1));
        let ext = i8_range_exceeded(op, ta, tb, T::MAX_SCALE);
        // one defect class for every symptom on type pairs whose scale arithmetic leaves the i8 range
        let fp = if ext { "c12:decimal:scale-arithmetic-beyond-i8".to_string() } else { format!("c12:decimal:{}", base_name(op)) };
        let la = dec_values::<T::Native>(ta.0, !ctx.quick());
        let lb = dec_values::<T::Native>(tb.0, !ctx.quick());
        let rt = result_type(op, ta, tb, T::MAX_PRECISION, T::MAX_SCALE);
        st.add(sub, 0, 0);
        let vfp = |k: &str| if ext { fp.clone() } else { format!("{fp}:{k}") };
        match rt {
            Err(()) => {
                // documented rejection (mul: "if the resulting scale ... goes beyond the maximum ... an error occurs")
                let l = mk::<T>(&la[..2.min(la.len())], &ldt, 0, la[0]);
                let r = mk::<T>(&lb[..2.min(la.len()).min(lb.len())], &rdt, 0, lb[0]);
                let n = l.len().min(r.len());
                let (l, r) = (l.slice(0, n), r.slice(0, n));
                st.add(sub, 1, 1);
                match vcore::catch(|| int_kernel(op)(&l, &r)) {
                    Ok(Err(_)) => st.outcome(&format!("{fp}:scale-beyond-max-rejected")),
                    Ok(Ok(a)) => st.violate(idx, vfp("result-scale-unrepresentable-accepted"), format!("{ldt} {} {rdt} returned type {} although the exact result scale {} is not representable", op.name(), a.data_type(), ta.1 as i32 + tb.1 as i32), || {
                        vcore::serde_json::json!({"sub": sub, "left_type": ldt.to_string(), "right_type": rdt.to_string(), "kernel": op.name()})
                    }),
                    Err(p) => st.violate(idx, vfp(&p.fingerprint()), format!("{p:?}"), || vcore::serde_json::json!({"sub": sub, "left_type": ldt.to_string(), "right_type": rdt.to_string(), "kernel": op.name()})),
                }
            }
            Ok(None) => {
                // documented formula yields no valid type: only demand that a successful call is well-formed
                let ex = |_: T::Native, _: T::Native| Exp::<T::Native>::Free;
                // result type unknown: use kernel directly on a few values
                let l = mk::<T>(&la, &ldt, 0, la[0]);
                let r = mk::<T>(&vec![lb[lb.len() / 2]; la.len()], &rdt, 0, lb[0]);
                let _ = ex;
                st.add(sub, 1, 1);
                match vcore::catch(|| int_kernel(op)(&l, &r)) {
                    Ok(Err(_)) => st.outcome(&format!("{fp}:undocumented-result-type:err")),
                    Ok(Ok(a)) => match a.to_data().validate_full() {
                        Ok(()) => st.outcome(&format!("{fp}:undocumented-result-type:ok")),
                        Err(e) => st.violate(idx, vfp("wf"), format!("{ldt} {} {rdt}: validate_full failed: {e}", op.name()), || vcore::serde_json::json!({"sub": sub, "left_type": ldt.to_string(), "right_type": rdt.to_string(), "kernel": op.name()})),
                    },
                    Err(p) => st.violate(idx, vfp(&p.fingerprint()), format!("{ldt} {} {rdt}: {p:?}", op.name()), || vcore::serde_json::json!({"sub": sub, "left_type": ldt.to_string(), "right_type": rdt.to_string(), "kernel": op.name()})),
                }
            }
            Ok(Some(res)) => {
                let odt = (T::TYPE_CONSTRUCTOR)(res.0, res.1);
                let rs = res.1 as i32;
                let resp = res.0;
                let ex = move |l: T::Native, r: T::Native| -> Exp<T::Native> {
                    let (lb_, rb_) = (l.to_big(), r.to_big());
                    let Some(v) = exact_value(op, ta, tb, rs, &lb_, &rb_) else {
                        return Exp::Err;
                    };
                    match T::Native::from_big(&v) {
                        None => Exp::Err,
                        Some(n) => {
                            // Ok is demanded only for operands within their declared precision and a result within
                            // the result type's precision; beyond that only "exact if Ok"
                            if in_precision(&lb_, ta.0) && in_precision(&rb_, tb.0) && in_precision(&v, resp) { Exp::Val(n) } else { Exp::Any(n) }
                        }
                    }
                };
                let spec = BinSpec::<T, T, T> {
                    sub,
                    fp: fp.clone(),
                    label: format!("{} {}", T::PREFIX, op.name()),
                    kernel: int_kernel(op),
                    ldt: ldt.clone(),
                    rdt: rdt.clone(),
                    odt,
                    expect: &ex,
                    same: same_eq::<T::Native>,
                    lgarbage: T::Native::wrap_big(&T::Native::min_big()),
                    rgarbage: T::Native::wrap_big(&BigInt::from(0)),
                    collapse: ext,
                };
                for form in Form::ALL {
                    pairs_by_form(&spec, form, (idx % 2) as usize, &la, &lb, idx, st);
                }
            }
        }
    })
}

/// neg on decimals: exact negation, Err for the physical MIN, type preserved
fn dec_neg<T>(sub: &str, st: &mut Stats)
where
    T: DecimalType,
    T::Native: BigN + ArrowNativeTypeOp,
{
    for ps in type_grid(T::MAX_PRECISION, false) {
        let dt = (T::TYPE_CONSTRUCTOR)(ps.0, ps.1);
        let xs = dec_values::<T::Native>(ps.0, true);
        let ex = |a: T::Native| match T::Native::from_big(&-a.to_big()) {
            Some(v) => Exp::Val(v),
            None => Exp::Err,
        };
        for k in [numeric::neg as UKernel, numeric::neg_wrapping as UKernel] {
            let us = UnSpec::<T> { sub, fp: "c12:decimal:neg".into(), label: format!("{dt} neg"), kernel: k, dt: dt.clone(), expect: &ex, same: same_eq::<T::Native>, garbage: T::Native::wrap_big(&T::Native::min_big()) };
            eval_unary(&us, 1, &xs, xs.len() as u64 - 1, 0, st);
        }
    }
}

/// Decimal operands of different widths, or decimal with integer, are not supported: must be rejected.
fn dec_mixed(sub: &str, st: &mut Stats) {
    let a = mk::<Decimal128Type>(&[1, 2], &DataType::Decimal128(10, 2), 0, 0);
    let b = mk::<Decimal64Type>(&[1, 2], &DataType::Decimal64(10, 2), 0, 0);
    let c = mk::<Int64Type>(&[1, 2], &DataType::Int64, 0, 0);
    for op in IOp::ALL {
        for (l, r) in [(&a as &dyn arrow_array::Array, &b as &dyn arrow_array::Array), (&b, &a), (&a, &c), (&c, &a)] {
            st.add(sub, 1, 1);
            match vcore::catch(|| int_kernel(op)(&l, &r)) {
                Ok(Err(_)) => st.outcome("c12:decimal:mixed-types-rejected"),
                Ok(Ok(x)) => st.violate(0, "c12:decimal:mixed-types-accepted", format!("{} {} {} returned {:?}", l.data_type(), op.name(), r.data_type(), x), || vcore::serde_json::json!({"sub": sub})),
                Err(p) => st.violate(0, format!("c12:decimal:{}", p.fingerprint()), format!("{p:?}"), || vcore::serde_json::json!({"sub": sub})),
            }
        }
    }
}

pub fn run(ctx: &Ctx, st: &mut Stats, tick: &mut dyn FnMut(&str)) {
    st.merge(dec_units::<Decimal32Type>(ctx, "decimal32-grid"));
    st.merge(dec_units::<Decimal64Type>(ctx, "decimal64-grid"));
    tick("decimal32/64");
    st.merge(dec_units::<Decimal128Type>(ctx, "decimal128-grid"));
    tick("decimal128");
    st.merge(dec_units::<Decimal256Type>(ctx, "decimal256-grid"));
    tick("decimal256");
    let mut s = Stats::new();
    dec_neg::<Decimal32Type>("decimal32-grid", &mut s);
    dec_neg::<Decimal64Type>("decimal64-grid", &mut s);
    dec_neg::<Decimal128Type>("decimal128-grid", &mut s);
    dec_neg::<Decimal256Type>("decimal256-grid", &mut s);
    dec_mixed("decimal128-grid", &mut s);
    st.merge(s);
    tick("decimal neg/mixed");
}
