//! arrow_arith::arithmetic::{multiply_fixed_point, multiply_fixed_point_checked, multiply_fixed_point_dyn}:
//! documented: result = left * right rounded to `required_scale`; error if `required_scale` exceeds the product
//! scale; precision min(p1 + p2 + 1, 38); the checked form errors on overflow, the unchecked one wraps.
//! Oracle on BigInt: the result must be a nearest multiple (|result * 10^d - a*b| <= 10^d / 2; the tie direction
//! is not documented, both neighbours are accepted), reduced modulo 2^128 for the unchecked form.
use crate::core::mk;
use crate::refm::*;
use arrow_arith::arithmetic as ar;
use arrow_array::types::Decimal128Type;
use arrow_array::{Array, Decimal128Array};
use arrow_schema::DataType;
use num_bigint::BigInt;
use vcore::serde_json::json;
use vcore::{Ctx, Stats, catch, par_for};

fn values(p: u8) -> Vec<i128> {
    let pp = pow10(p as u32);
    let mut v: Vec<BigInt> = vec![];
    for x in [BigInt::from(0), BigInt::from(1), BigInt::from(2), BigInt::from(5), BigInt::from(15), BigInt::from(25), BigInt::from(149), BigInt::from(150), BigInt::from(151), &pp - 1, pow10(p as u32 / 2), pow10(p as u32 / 2) * 5, pow10(p as u32 - 1) * 5, pp.sqrt() + 1, i128::max_big(), i128::max_big() / 3] {
        v.push(-x.clone());
        v.push(x);
    }
    v.push(i128::min_big());
    v.retain(|x| i128::fits_big(x));
    v.sort();
    v.dedup();
    v.iter().map(|x| i128::from_big(x).unwrap()).collect()
}

pub fn run(ctx: &Ctx, st: &mut Stats, tick: &mut dyn FnMut(&str)) {
    let sub = "fixed-point-multiply";
    let types: Vec<(u8, i8)> = vec![(38, 18), (10, 2), (38, 0), (4, 2), (38, 38), (20, -2)];
    let nt = types.len() as u64;
    st.merge(par_for(ctx, sub, nt * nt, 1, |idx, st| {
        let (ta, tb) = (types[(idx % nt) as usize], types[(idx / nt) as usize]);
        let ps = ta.1 as i32 + tb.1 as i32;
        let (va, vb) = (values(ta.0), values(tb.0));
        let (ldt, rdt) = (DataType::Decimal128(ta.0, ta.1), DataType::Decimal128(tb.0, tb.1));
        let mut rs: Vec<i32> = vec![ps, ps - 1, ps - 2, ps - 5, ps - 19, ps - 38, 0, ps + 1, -3];
        rs.sort();
        rs.dedup();
        for r in rs {
            if r < -20 || r > 38 {
                continue;
            }
            let d = ps - r;
            let want_prec = (ta.0 + tb.0 + 1).min(38);
            // 10^d must be representable in the 256-bit intermediate for the documented rounding to be meaningful
            for &a in &va {
                for &b in &vb {
                    st.add(sub, 1, (a != 0 && b != 0) as u64);
                    let l = mk::<Decimal128Type>(&[a], &ldt, 0, 0);
                    let rr = mk::<Decimal128Type>(&[b], &rdt, 0, 0);
                    let case = || json!({"sub": sub, "left_type": ldt.to_string(), "right_type": rdt.to_string(), "required_scale": r, "left": a.to_string(), "right": b.to_string()});
                    let res = catch(|| (ar::multiply_fixed_point_checked(&l, &rr, r as i8), ar::multiply_fixed_point(&l, &rr, r as i8), ar::multiply_fixed_point_dyn(&l, &rr, r as i8)));
                    let (gc, gu, gd) = match res {
                        Ok(x) => x,
                        Err(p) => {
                            st.violate(idx, format!("c12:fixed-point:{}", p.fingerprint()), format!("{p:?}"), case);
                            continue;
                        }
                    };
                    if d < 0 {
                        if gc.is_ok() || gu.is_ok() || gd.is_ok() {
                            st.violate(idx, "c12:fixed-point:required-scale-above-product-scale-accepted", format!("required scale {r} > product scale {ps} was not rejected"), case);
                        } else {
                            st.outcome("c12:fixed-point:required-scale-rejected");
                        }
                        continue;
                    }
                    let p = BigInt::from(a) * BigInt::from(b);
                    let cands: Vec<BigInt> = if d == 0 {
                        vec![p.clone()]
                    } else {
                        let m = pow10(d as u32);
                        // floor division
                        let mut q = &p / &m;
                        let mut rem = &p - &q * &m;
                        if rem.sign() == num_bigint::Sign::Minus {
                            q -= 1;
                            rem += &m;
                        }
                        let twice = &rem * 2;
                        if twice < m {
                            vec![q]
                        } else if twice > m {
                            vec![q + 1]
                        } else {
                            vec![q.clone(), q + 1]
                        }
                    };
                    let fits: Vec<i128> = cands.iter().filter_map(i128::from_big).collect();
                    let val = |x: &Result<Decimal128Array, arrow_schema::ArrowError>| x.as_ref().ok().map(|arr| (arr.value(0), arr.precision(), arr.scale(), arr.len(), arr.null_count()));
                    // checked
                    let okc = match val(&gc) {
                        Some((v, pr, sc, 1, 0)) => fits.contains(&v) && pr == want_prec && sc as i32 == r,
                        Some(_) => false,
                        None => fits.len() < cands.len(),
                    };
                    if !okc {
                        st.violate(idx, if d > 76 { "c12:fixed-point:divisor-power-of-ten-wraps-i256".to_string() } else { "c12:fixed-point:multiply_fixed_point_checked".to_string() }, format!("multiply_fixed_point_checked({ldt} {a}, {rdt} {b}, required scale {r}) = {:?}; exact product {p}, nearest multiples at scale {r}: {cands:?}, documented type Decimal128({want_prec}, {r})", gc.as_ref().map(|x| (x.value(0), x.data_type().clone())).map_err(|e| e.to_string())), case);
                    }
                    // unchecked: wraps
                    let wraps: Vec<i128> = cands.iter().map(i128::wrap_big).collect();
                    let oku = match val(&gu) {
                        Some((v, pr, sc, 1, 0)) => wraps.contains(&v) && pr == want_prec && sc as i32 == r,
                        _ => false,
                    };
                    if !oku {
                        st.violate(idx, if d > 76 { "c12:fixed-point:divisor-power-of-ten-wraps-i256".to_string() } else { "c12:fixed-point:multiply_fixed_point".to_string() }, format!("multiply_fixed_point({ldt} {a}, {rdt} {b}, required scale {r}) = {:?}; exact product {p}, nearest multiples {cands:?} (mod 2^128: {wraps:?})", gu.as_ref().map(|x| (x.value(0), x.data_type().clone())).map_err(|e| e.to_string())), case);
                    }
                    // dyn form = unchecked form
                    let same_dyn = match (&gd, &gu) {
                        (Ok(x), Ok(y)) => x.as_any().downcast_ref::<Decimal128Array>().map(|x| x == y).unwrap_or(false),
                        (Err(_), Err(_)) => true,
                        _ => false,
                    };
                    if !same_dyn {
                        st.violate(idx, "c12:fixed-point:multiply_fixed_point_dyn", "multiply_fixed_point_dyn differs from multiply_fixed_point", case);
                    }
                    st.outcome(if fits.len() < cands.len() { "c12:fixed-point:overflow" } else if cands.len() == 2 { "c12:fixed-point:tie" } else if d == 0 { "c12:fixed-point:exact" } else { "c12:fixed-point:rounded" });
                }
            }
        }
    }));
    tick("fixed point");
}
