//! Integer, duration and float kernels of arrow_arith::numeric against exact references.
use crate::core::*;
use crate::refm::*;
use arrow_arith::numeric;
use arrow_array::types::*;
use arrow_array::{ArrowNativeTypeOp, ArrowPrimitiveType};
use arrow_schema::{DataType, TimeUnit};
use half::f16;
use vcore::{Ctx, Stats, par_for};

pub fn int_kernel(op: IOp) -> Kernel {
    match op {
        IOp::Add => numeric::add,
        IOp::Sub => numeric::sub,
        IOp::Mul => numeric::mul,
        IOp::Div => numeric::div,
        IOp::Rem => numeric::rem,
        IOp::AddW => numeric::add_wrapping,
        IOp::SubW => numeric::sub_wrapping,
        IOp::MulW => numeric::mul_wrapping,
    }
}

pub fn same_eq<N: PartialEq>(a: N, b: N) -> bool {
    a == b
}

pub trait AllVals: Sized {
    fn all() -> Vec<Self>;
}
macro_rules! allvals {
    ($($t:ty),*) => {$(impl AllVals for $t { fn all() -> Vec<$t> { (<$t>::MIN..=<$t>::MAX).collect() } })*};
}
allvals!(i8, u8, i16, u16);

fn count_nz<N: ArrowNativeTypeOp>(ls: &[N], rs: &[N]) -> u64 {
    ls.iter().zip(rs).filter(|(a, b)| !a.is_zero() && !b.is_zero()).count() as u64
}

fn spec_int<'a, T>(sub: &'a str, op: IOp, expect: &'a (dyn Fn(T::Native, T::Native) -> Exp<T::Native> + Sync)) -> BinSpec<'a, T, T, T>
where
    T: ArrowPrimitiveType,
    T::Native: IntN,
{
    BinSpec {
        sub,
        fp: format!("c12:int:{}", op.name()),
        label: format!("{} {}", T::DATA_TYPE, op.name()),
        kernel: int_kernel(op),
        ldt: T::DATA_TYPE,
        rdt: T::DATA_TYPE,
        odt: T::DATA_TYPE,
        expect,
        same: same_eq::<T::Native>,
        // garbage in sliced-away slots: chosen to provoke overflow / division by zero if it were read
        lgarbage: T::Native::wrap(T::Native::min_i()),
        rgarbage: T::Native::wrap(if op == IOp::Div || op == IOp::Rem { 0 } else { T::Native::max_i() }),
        collapse: false,
    }
}

/// 8-bit: all 65,536 pairs x 8 ops x 3 forms x 2 offsets
fn int8_units<T>(ctx: &Ctx, sub: &str) -> Stats
where
    T: ArrowPrimitiveType,
    T::Native: IntN + AllVals + ArrowNativeTypeOp,
{
    let all = T::Native::all();
    let units = 8 * 3 * 2;
    par_for(ctx, sub, units, 1, |idx, st| {
        let op = IOp::ALL[(idx % 8) as usize];
        let form = Form::ALL[((idx / 8) % 3) as usize];
        let off = if idx / 24 == 0 { 0 } else { 3 };
        let ex = move |a, b| int_expect(op, a, b);
        let spec = spec_int::<T>(sub, op, &ex);
        let lay = Layout { form, off };
        match form {
            Form::AA => {
                let mut ls = Vec::with_capacity(65536);
                let mut rs = Vec::with_capacity(65536);
                for a in &all {
                    for b in &all {
                        ls.push(*a);
                        rs.push(*b);
                    }
                }
                eval_pairs(&spec, lay, &ls, &rs, count_nz(&ls, &rs), idx, st);
            }
            Form::AS => {
                for b in &all {
                    let rs = vec![*b; all.len()];
                    eval_pairs(&spec, lay, &all, &rs, count_nz(&all, &rs), idx, st);
                }
            }
            Form::SA => {
                for a in &all {
                    let ls = vec![*a; all.len()];
                    eval_pairs(&spec, lay, &ls, &all, count_nz(&ls, &all), idx, st);
                }
            }
        }
    })
}

/// 16-bit: all 65,536 values x boundary set (both orders; array-array, array-scalar, scalar-array)
fn int16_units<T>(ctx: &Ctx, sub: &str) -> Stats
where
    T: ArrowPrimitiveType,
    T::Native: IntN + BigN + AllVals + ArrowNativeTypeOp,
{
    let all = T::Native::all();
    let bs: Vec<T::Native> = boundary16::<T::Native>();
    let nb = bs.len() as u64;
    let units = 8 * 4 * nb;
    par_for(ctx, sub, units, 1, |idx, st| {
        let op = IOp::ALL[(idx % 8) as usize];
        let arr = (idx / 8) % 4;
        let b = bs[(idx / 32) as usize];
        let ex = move |a, b| int_expect(op, a, b);
        let spec = spec_int::<T>(sub, op, &ex);
        let bv = vec![b; all.len()];
        let off = if (idx / 32) % 2 == 1 { 5 } else { 0 };
        let nt = count_nz(&all, &bv);
        match arr {
            0 => eval_pairs(&spec, Layout { form: Form::AS, off }, &all, &bv, nt, idx, st),
            1 => eval_pairs(&spec, Layout { form: Form::SA, off }, &bv, &all, nt, idx, st),
            2 => eval_pairs(&spec, Layout { form: Form::AA, off }, &all, &bv, nt, idx, st),
            _ => eval_pairs(&spec, Layout { form: Form::AA, off }, &bv, &all, nt, idx, st),
        }
    })
}

/// thorough: full 16-bit x 16-bit for add / sub / mul and their wrapping forms (array op scalar, one unit per right
/// operand). Individually determined: every pair of the wrapping forms, every Ok-expected pair of the checked forms
/// (packed call), and of the Err-expected pairs those adjacent (in value order of the left operand) to an Ok-expected
/// pair plus the first and last one (one-row calls). The remaining Err-expected pairs of a unit are submitted in one
/// packed call that must fail (their per-element function `*_checked` is covered for ALL pairs by the
/// native-16bit-full-square sub-engine).
fn int16_full<T>(ctx: &Ctx, sub: &str) -> Stats
where
    T: ArrowPrimitiveType,
    T::Native: IntN + AllVals + ArrowNativeTypeOp,
{
    let all = T::Native::all();
    const OPS: [IOp; 6] = [IOp::Add, IOp::Sub, IOp::Mul, IOp::AddW, IOp::SubW, IOp::MulW];
    let units = 6 * 65536u64;
    par_for(ctx, sub, units, 16, |idx, st| {
        let op = OPS[(idx % 6) as usize];
        let b = all[(idx / 6) as usize];
        let ex = move |a, b| int_expect(op, a, b);
        let spec = spec_int::<T>(sub, op, &ex);
        let n = all.len();
        let is_err: Vec<bool> = all.iter().map(|a| matches!(int_expect(op, *a, b), Exp::Err)).collect();
        let mut sel = Vec::with_capacity(n);
        let mut packed_err = vec![];
        let (first_err, last_err) = (is_err.iter().position(|e| *e), is_err.iter().rposition(|e| *e));
        for i in 0..n {
            if !is_err[i] || (i > 0 && !is_err[i - 1]) || (i + 1 < n && !is_err[i + 1]) || Some(i) == first_err || Some(i) == last_err {
                sel.push(all[i]);
            } else {
                packed_err.push(all[i]);
            }
        }
        let bv = vec![b; sel.len()];
        let nt = if b.is_zero() { 0 } else { sel.len() as u64 };
        let lay = Layout { form: Form::AS, off: 0 };
        eval_pairs(&spec, lay, &sel, &bv, nt, idx, st);
        if !packed_err.is_empty() {
            st.add(sub, 1, 1);
            match call(&spec, lay, &packed_err, &[b]) {
                CallOut::Err(_, kind) => st.outcome(&format!("c12:int:{}:all-overflowing-array:err:{kind}", op.name())),
                CallOut::Vals(_) => st.violate(idx, format!("c12:int:{}:missing-error", op.name()), format!("{} {}: an array of {} left operands that all overflow with scalar {:?} returned Ok", T::DATA_TYPE, op.name(), packed_err.len(), b), || {
                    vcore::serde_json::json!({"sub": sub, "kernel": op.name(), "type": T::DATA_TYPE.to_string(), "right": format!("{b:?}"), "left_first": format!("{:?}", packed_err[0])})
                }),
                CallOut::Bad(k, m) => st.violate(idx, format!("c12:int:{}:{k}", op.name()), m, || vcore::serde_json::json!({"sub": sub, "kernel": op.name(), "right": format!("{b:?}")})),
            }
        }
    })
}

/// wide integers: lattice B x B, all ops, all forms
fn int_wide<T>(ctx: &Ctx, sub: &str) -> Stats
where
    T: ArrowPrimitiveType,
    T::Native: IntN + BigN + ArrowNativeTypeOp,
{
    let b: Vec<T::Native> = lattice::<T::Native>(!ctx.quick());
    let units = 8 * 3 * 2;
    par_for(ctx, sub, units, 1, |idx, st| {
        let op = IOp::ALL[(idx % 8) as usize];
        let form = Form::ALL[((idx / 8) % 3) as usize];
        let off = if idx / 24 == 0 { 0 } else { 1 };
        let ex = move |a, b| int_expect(op, a, b);
        let spec = spec_int::<T>(sub, op, &ex);
        pairs_by_form(&spec, form, off, &b, &b, idx, st);
    })
}

/// Runs B_l x B_r in the given form: AA as one batch, AS one batch per right value, SA one per left value.
pub fn pairs_by_form<L, R, O>(spec: &BinSpec<L, R, O>, form: Form, off: usize, bl: &[L::Native], br: &[R::Native], order: u64, st: &mut Stats)
where
    L: ArrowPrimitiveType,
    R: ArrowPrimitiveType,
    O: ArrowPrimitiveType,
    L::Native: ArrowNativeTypeOp,
    R::Native: ArrowNativeTypeOp,
{
    let nz = |ls: &[L::Native], rs: &[R::Native]| ls.iter().zip(rs).filter(|(a, b)| !a.is_zero() && !b.is_zero()).count() as u64;
    let lay = Layout { form, off };
    match form {
        Form::AA => {
            let mut ls = vec![];
            let mut rs = vec![];
            for a in bl {
                for b in br {
                    ls.push(*a);
                    rs.push(*b);
                }
            }
            eval_pairs(spec, lay, &ls, &rs, nz(&ls, &rs), order, st);
        }
        Form::AS => {
            for b in br {
                let rs = vec![*b; bl.len()];
                eval_pairs(spec, lay, bl, &rs, nz(bl, &rs), order, st);
            }
        }
        Form::SA => {
            for a in bl {
                let ls = vec![*a; br.len()];
                eval_pairs(spec, lay, &ls, br, nz(&ls, br), order, st);
            }
        }
    }
}

/// neg / neg_wrapping over `xs`
fn neg_ints<T>(sub: &str, xs: &[T::Native], st: &mut Stats)
where
    T: ArrowPrimitiveType,
    T::Native: IntN + ArrowNativeTypeOp,
{
    let signed = T::Native::SIGNED;
    for (wrapping, off) in [(false, 0), (true, 0), (false, 2), (true, 2)] {
        let ex = move |a: T::Native| -> Exp<T::Native> {
            let v = -a.to_i128();
            if wrapping {
                Exp::Val(T::Native::wrap(v))
            } else if T::Native::fits(v) {
                Exp::Val(T::Native::wrap(v))
            } else {
                Exp::Err
            }
        };
        let name = if wrapping { "neg_wrapping" } else { "neg" };
        let spec = UnSpec::<T> {
            sub,
            fp: format!("c12:int:{name}"),
            label: format!("{} {name}", T::DATA_TYPE),
            kernel: if wrapping { numeric::neg_wrapping } else { numeric::neg },
            dt: T::DATA_TYPE,
            expect: &ex,
            same: same_eq::<T::Native>,
            garbage: T::Native::wrap(T::Native::min_i()),
        };
        if !signed && !wrapping {
            // documented: "negation of unsigned arrays is not supported and will return in an error"
            let r = vcore::catch(|| numeric::neg(&mk::<T>(xs, &T::DATA_TYPE, off, spec.garbage)));
            st.add(sub, 1, 1);
            match r {
                Ok(Err(_)) => st.outcome("c12:int:neg:unsigned-rejected"),
                Ok(Ok(_)) => st.violate(0, "c12:int:neg:unsigned-accepted", format!("neg on {} succeeded although documented as unsupported", T::DATA_TYPE), || vcore::serde_json::json!({"sub": sub, "type": T::DATA_TYPE.to_string()})),
                Err(p) => st.violate(0, format!("c12:int:neg:{}", p.fingerprint()), format!("{p:?}"), || vcore::serde_json::json!({"sub": sub, "type": T::DATA_TYPE.to_string()})),
            }
            continue;
        }
        let nt = xs.iter().filter(|x| !x.is_zero()).count() as u64;
        eval_unary(&spec, off, xs, nt, 0, st);
    }
}

// ---------------------------------------------------------------------------------------------
// Durations: add / sub are checked i64 ops; the *_wrapping entry points behave like the checked ones
// ("wrapping on overflow for DataType::is_integer" - durations are not integers); mul/div/rem are rejected.

fn duration_units<T>(ctx: &Ctx, sub: &str) -> Stats
where
    T: ArrowPrimitiveType<Native = i64>,
{
    let b: Vec<i64> = lattice::<i64>(!ctx.quick());
    par_for(ctx, sub, 8 * 3, 1, |idx, st| {
        let op = IOp::ALL[(idx % 8) as usize];
        let form = Form::ALL[(idx / 8) as usize];
        let base = match op {
            IOp::Add | IOp::AddW => Some(IOp::Add),
            IOp::Sub | IOp::SubW => Some(IOp::Sub),
            _ => None,
        };
        match base {
            Some(bop) => {
                let ex = move |a, b| int_expect(bop, a, b);
                let spec = BinSpec::<T, T, T> {
                    sub,
                    fp: format!("c12:duration:{}", op.name()),
                    label: format!("{} {}", T::DATA_TYPE, op.name()),
                    kernel: int_kernel(op),
                    ldt: T::DATA_TYPE,
                    rdt: T::DATA_TYPE,
                    odt: T::DATA_TYPE,
                    expect: &ex,
                    same: same_eq::<i64>,
                    lgarbage: i64::MIN,
                    rgarbage: i64::MAX,
                    collapse: false,
                };
                pairs_by_form(&spec, form, (idx % 2) as usize, &b, &b, idx, st);
            }
            None => {
                // unsupported operator on durations must be rejected as a whole, never compute something
                let l = mk::<T>(&[6, 7], &T::DATA_TYPE, 0, 0);
                let r = mk::<T>(&[2, 3], &T::DATA_TYPE, 0, 0);
                st.add(sub, 1, 1);
                match vcore::catch(|| int_kernel(op)(&l, &r)) {
                    Ok(Err(_)) => st.outcome("c12:duration:unsupported-op-rejected"),
                    Ok(Ok(a)) => st.violate(idx, format!("c12:duration:{}:unsupported-op-accepted", op.name()), format!("{} {} returned {:?}", T::DATA_TYPE, op.name(), a), || {
                        vcore::serde_json::json!({"sub": sub, "op": op.name()})
                    }),
                    Err(p) => st.violate(idx, format!("c12:duration:{}", p.fingerprint()), format!("{p:?}"), || vcore::serde_json::json!({"sub": sub, "op": op.name()})),
                }
            }
        }
    })
}

// ---------------------------------------------------------------------------------------------
// Floats

pub trait FloatN: Copy + std::fmt::Debug + Send + Sync + 'static {
    fn bits64(self) -> u64;
    fn is_nan_(self) -> bool;
    fn to_f64_(self) -> f64;
    /// correctly rounded conversion of an f64 (for f64: identity)
    fn round_from(v: f64) -> Self;
}
impl FloatN for f64 {
    fn bits64(self) -> u64 {
        self.to_bits()
    }
    fn is_nan_(self) -> bool {
        self.is_nan()
    }
    fn to_f64_(self) -> f64 {
        self
    }
    fn round_from(v: f64) -> f64 {
        v
    }
}
impl FloatN for f32 {
    fn bits64(self) -> u64 {
        self.to_bits() as u64
    }
    fn is_nan_(self) -> bool {
        self.is_nan()
    }
    fn to_f64_(self) -> f64 {
        self as f64
    }
    fn round_from(v: f64) -> f32 {
        v as f32
    }
}
impl FloatN for f16 {
    fn bits64(self) -> u64 {
        self.to_bits() as u64
    }
    fn is_nan_(self) -> bool {
        self.is_nan()
    }
    fn to_f64_(self) -> f64 {
        self.to_f64()
    }
    fn round_from(v: f64) -> f16 {
        f16::from_f64(v)
    }
}
/// IEEE comparison: identical bits, or both NaN (payload and sign of NaN results are not pinned by IEEE-754)
pub fn same_float<N: FloatN>(a: N, b: N) -> bool {
    (a.is_nan_() && b.is_nan_()) || a.bits64() == b.bits64()
}

/// Reference: the IEEE-754 operation. For f64 and f32 the host operation on the same type; for f16 the
/// operation carried out in f64 and rounded once to f16 (exact for + - * / because 53 >= 2*11+2; fmod is exact).
fn float_ref<N: FloatN>(op: IOp, a: N, b: N, native: fn(IOp, N, N) -> N) -> N {
    native(op, a, b)
}
fn f64_native(op: IOp, a: f64, b: f64) -> f64 {
    match op {
        IOp::Add | IOp::AddW => a + b,
        IOp::Sub | IOp::SubW => a - b,
        IOp::Mul | IOp::MulW => a * b,
        IOp::Div => a / b,
        IOp::Rem => a % b,
    }
}
fn f32_native(op: IOp, a: f32, b: f32) -> f32 {
    match op {
        IOp::Add | IOp::AddW => a + b,
        IOp::Sub | IOp::SubW => a - b,
        IOp::Mul | IOp::MulW => a * b,
        IOp::Div => a / b,
        IOp::Rem => a % b,
    }
}
fn f16_native(op: IOp, a: f16, b: f16) -> f16 {
    f16::from_f64(f64_native(op, a.to_f64(), b.to_f64()))
}

fn f64_lattice() -> Vec<f64> {
    let mut v = vec![];
    for x in [
        0.0f64,
        f64::from_bits(1),
        f64::MIN_POSITIVE,
        f64::MIN_POSITIVE / 2.0,
        f64::EPSILON,
        0.1,
        0.5,
        1.0,
        1.5,
        2.0,
        3.0,
        10.0,
        1e15,
        9007199254740992.0,
        9007199254740993.0,
        1e300,
        f64::MAX,
        f64::MAX / 2.0,
        f64::INFINITY,
        f64::NAN,
        std::f64::consts::PI,
        1.0 + f64::EPSILON,
    ] {
        v.push(x);
        v.push(-x);
    }
    v
}
fn f32_lattice() -> Vec<f32> {
    let mut v = vec![];
    for x in [
        0.0f32,
        f32::from_bits(1),
        f32::MIN_POSITIVE,
        f32::MIN_POSITIVE / 2.0,
        f32::EPSILON,
        0.1,
        0.5,
        1.0,
        1.5,
        2.0,
        3.0,
        10.0,
        16777216.0,
        16777217.0,
        1e30,
        f32::MAX,
        f32::MAX / 2.0,
        f32::INFINITY,
        f32::NAN,
        std::f32::consts::PI,
        1.0 + f32::EPSILON,
    ] {
        v.push(x);
        v.push(-x);
    }
    v
}
fn f16_lattice() -> Vec<f16> {
    let mut v = vec![];
    for x in [
        f16::ZERO,
        f16::from_bits(1),
        f16::MIN_POSITIVE,
        f16::from_bits(0x0200),
        f16::EPSILON,
        f16::from_f32(0.1),
        f16::from_f32(0.5),
        f16::ONE,
        f16::from_f32(1.5),
        f16::from_f32(2.0),
        f16::from_f32(3.0),
        f16::from_f32(10.0),
        f16::from_f32(2048.0),
        f16::from_f32(2049.0),
        f16::MAX,
        f16::from_f32(32768.0),
        f16::INFINITY,
        f16::NAN,
        f16::from_f32(3.14),
        f16::from_bits(0x3C01),
    ] {
        v.push(x);
        v.push(-x);
    }
    v
}

fn float_units<T>(ctx: &Ctx, sub: &str, lat: Vec<T::Native>, native: fn(IOp, T::Native, T::Native) -> T::Native, all_left: Option<Vec<T::Native>>) -> Stats
where
    T: ArrowPrimitiveType,
    T::Native: FloatN + ArrowNativeTypeOp,
{
    let left = all_left.unwrap_or_else(|| lat.clone());
    let nb = lat.len() as u64;
    par_for(ctx, sub, 8 * 4 * nb, 1, |idx, st| {
        let op = IOp::ALL[(idx % 8) as usize];
        let arr = (idx / 8) % 4;
        let b = lat[(idx / 32) as usize];
        let ex = move |a, b| Exp::Val(float_ref(op, a, b, native));
        let spec = BinSpec::<T, T, T> {
            sub,
            fp: format!("c12:float:{}", op.name()),
            label: format!("{} {}", T::DATA_TYPE, op.name()),
            kernel: int_kernel(op),
            ldt: T::DATA_TYPE,
            rdt: T::DATA_TYPE,
            odt: T::DATA_TYPE,
            expect: &ex,
            same: same_float::<T::Native>,
            lgarbage: lat[0],
            rgarbage: lat[0],
            collapse: false,
        };
        let bv = vec![b; left.len()];
        let off = ((idx / 32) % 3) as usize;
        let nt = left.len() as u64;
        match arr {
            0 => eval_pairs(&spec, Layout { form: Form::AS, off }, &left, &bv, nt, idx, st),
            1 => eval_pairs(&spec, Layout { form: Form::SA, off }, &bv, &left, nt, idx, st),
            2 => eval_pairs(&spec, Layout { form: Form::AA, off }, &left, &bv, nt, idx, st),
            _ => eval_pairs(&spec, Layout { form: Form::AA, off }, &bv, &left, nt, idx, st),
        }
        if idx == 0 {
            // neg / neg_wrapping on floats: sign flip, also of NaN and zero
            for k in [numeric::neg as UKernel, numeric::neg_wrapping as UKernel] {
                let ex = |a: T::Native| Exp::Val(a.neg_wrapping());
                let us = UnSpec::<T> { sub, fp: "c12:float:neg".into(), label: format!("{} neg", T::DATA_TYPE), kernel: k, dt: T::DATA_TYPE, expect: &ex, same: same_float::<T::Native>, garbage: lat[0] };
                eval_unary(&us, 0, &left, left.len() as u64, 0, st);
            }
        }
    })
}

pub fn run(ctx: &Ctx, st: &mut Stats, tick: &mut dyn FnMut(&str)) {
    st.merge(int8_units::<Int8Type>(ctx, "int8-exhaustive"));
    st.merge(int8_units::<UInt8Type>(ctx, "uint8-exhaustive"));
    {
        let mut s = Stats::new();
        neg_ints::<Int8Type>("int8-exhaustive", &i8::all(), &mut s);
        neg_ints::<UInt8Type>("uint8-exhaustive", &u8::all(), &mut s);
        neg_ints::<Int16Type>("int16-x-boundary", &i16::all(), &mut s);
        neg_ints::<UInt16Type>("uint16-x-boundary", &u16::all(), &mut s);
        neg_ints::<Int32Type>("int32-lattice", &lattice::<i32>(true), &mut s);
        neg_ints::<Int64Type>("int64-lattice", &lattice::<i64>(true), &mut s);
        neg_ints::<UInt32Type>("uint32-lattice", &lattice::<u32>(true), &mut s);
        neg_ints::<UInt64Type>("uint64-lattice", &lattice::<u64>(true), &mut s);
        st.merge(s);
    }
    tick("int8+neg");
    st.merge(int16_units::<Int16Type>(ctx, "int16-x-boundary"));
    st.merge(int16_units::<UInt16Type>(ctx, "uint16-x-boundary"));
    tick("int16");
    st.merge(int_wide::<Int32Type>(ctx, "int32-lattice"));
    st.merge(int_wide::<Int64Type>(ctx, "int64-lattice"));
    st.merge(int_wide::<UInt32Type>(ctx, "uint32-lattice"));
    st.merge(int_wide::<UInt64Type>(ctx, "uint64-lattice"));
    st.merge(duration_units::<DurationSecondType>(ctx, "duration-lattice"));
    st.merge(duration_units::<DurationMillisecondType>(ctx, "duration-lattice"));
    st.merge(duration_units::<DurationMicrosecondType>(ctx, "duration-lattice"));
    st.merge(duration_units::<DurationNanosecondType>(ctx, "duration-lattice"));
    {
        // duration neg
        let mut s = Stats::new();
        let xs = lattice::<i64>(true);
        let ex = |a: i64| if a == i64::MIN { Exp::Err } else { Exp::Val(-a) };
        for k in [numeric::neg as UKernel, numeric::neg_wrapping as UKernel] {
            // neg_wrapping only wraps for DataType::is_integer; durations stay checked
            let us = UnSpec::<DurationMicrosecondType> {
                sub: "duration-lattice",
                fp: "c12:duration:neg".into(),
                label: "Duration(us) neg".into(),
                kernel: k,
                dt: DataType::Duration(TimeUnit::Microsecond),
                expect: &ex,
                same: same_eq::<i64>,
                garbage: i64::MIN,
            };
            eval_unary(&us, 1, &xs, xs.len() as u64 - 1, 0, &mut s);
        }
        st.merge(s);
    }
    tick("wide+duration");
    st.merge(float_units::<Float64Type>(ctx, "float-lattice", f64_lattice(), f64_native, None));
    st.merge(float_units::<Float32Type>(ctx, "float-lattice", f32_lattice(), f32_native, None));
    let all16: Vec<f16> = (0..=u16::MAX).map(f16::from_bits).collect();
    st.merge(float_units::<Float16Type>(ctx, "float16-exhaustive-x-boundary", f16_lattice(), f16_native, Some(all16)));
    tick("floats");
    if !ctx.quick() {
        st.merge(int16_full::<Int16Type>(ctx, "int16-full-square"));
        st.merge(int16_full::<UInt16Type>(ctx, "uint16-full-square"));
        tick("int16 full square");
    }
}
