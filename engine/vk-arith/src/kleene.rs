//! arrow_arith::boolean (and, or, and_not, and_kleene, or_kleene, not, is_null, is_not_null) against
//! three-valued logic, and arrow_arith::bitwise against the integer bit operations.
//!
//! Alphabet per slot: T, F, N0, N1 (null with the value bit physically 0 / 1: the Kleene kernels combine value
//! and validity bits with bitwise formulas, so garbage under a null slot must not leak).
use crate::ints::AllVals;
use crate::refm::IntN;
use arrow_arith::{bitwise as bw, boolean as bo};
use arrow_array::types::*;
use arrow_array::*;
use arrow_buffer::{BooleanBuffer, NullBuffer, ScalarBuffer};
use arrow_schema::ArrowError;
use std::sync::Arc;
use vcore::serde_json::json;
use vcore::{Ctx, Stats, catch, par_for};

#[derive(Clone, Copy, PartialEq, Debug)]
enum S {
    T,
    F,
    N0,
    N1,
}
const SYMS: [S; 4] = [S::T, S::F, S::N0, S::N1];
impl S {
    fn logical(self) -> Option<bool> {
        match self {
            S::T => Some(true),
            S::F => Some(false),
            _ => None,
        }
    }
    fn bit(self) -> bool {
        matches!(self, S::T | S::N1)
    }
    fn ch(self) -> char {
        match self {
            S::T => 'T',
            S::F => 'F',
            S::N0 => 'n',
            S::N1 => 'N',
        }
    }
}
fn show(c: &[S]) -> String {
    c.iter().map(|s| s.ch()).collect()
}

/// physical construction: values at bit offset `vo`, validity at bit offset `no` (independent buffers);
/// `buffer`: attach a validity buffer even when no slot is null
fn build(col: &[S], vo: usize, no: usize, buffer: bool) -> BooleanArray {
    let n = col.len();
    let mut vb: Vec<bool> = (0..vo).map(|i| i % 2 == 0).collect();
    vb.extend(col.iter().map(|s| s.bit()));
    vb.extend([true, false, true]); // trailing garbage
    let values = BooleanBuffer::from(vb).slice(vo, n);
    let has_null = col.iter().any(|s| s.logical().is_none());
    let nulls = if has_null || buffer {
        let mut nb: Vec<bool> = (0..no).map(|i| i % 3 == 0).collect();
        nb.extend(col.iter().map(|s| s.logical().is_some()));
        nb.extend([false, true]);
        Some(NullBuffer::new(BooleanBuffer::from(nb).slice(no, n)))
    } else {
        None
    };
    BooleanArray::new(values, nulls)
}

type BinK = fn(&BooleanArray, &BooleanArray) -> Result<BooleanArray, ArrowError>;
const BIN: [(&str, BinK, fn(Option<bool>, Option<bool>) -> Option<bool>); 5] = [
    ("and", bo::and, |a, b| Some(a? & b?)),
    ("or", bo::or, |a, b| Some(a? | b?)),
    ("and_not", bo::and_not, |a, b| Some(a? & !b?)),
    ("and_kleene", bo::and_kleene, |a, b| match (a, b) {
        (Some(false), _) | (_, Some(false)) => Some(false),
        (Some(true), Some(true)) => Some(true),
        _ => None,
    }),
    ("or_kleene", bo::or_kleene, |a, b| match (a, b) {
        (Some(true), _) | (_, Some(true)) => Some(true),
        (Some(false), Some(false)) => Some(false),
        _ => None,
    }),
];

fn logical(a: &BooleanArray) -> Vec<Option<bool>> {
    (0..a.len()).map(|i| if a.is_null(i) { None } else { Some(a.value(i)) }).collect()
}

fn check_pair(l: &[S], r: &[S], lo: (usize, usize), ro: (usize, usize), lbuf: bool, rbuf: bool, order: u64, sub: &str, st: &mut Stats) {
    let la = build(l, lo.0, lo.1, lbuf);
    let ra = build(r, ro.0, ro.1, rbuf);
    let n = l.len();
    // ArrayData has a single offset: for a BooleanArray whose validity bitmap sits at another bit offset than its
    // values, `to_data().validate_full()` can reject the (legal) array itself because of its buffer-size estimate.
    // Output well-formedness is therefore only demanded when both inputs pass the same check.
    let inputs_wf = la.to_data().validate_full().is_ok() && ra.to_data().validate_full().is_ok();
    for (name, k, model) in BIN {
        let want: Vec<Option<bool>> = (0..n).map(|i| model(l[i].logical(), r[i].logical())).collect();
        let case = || json!({"sub": sub, "op": name, "left": show(l), "right": show(r), "left_offsets": [lo.0, lo.1], "right_offsets": [ro.0, ro.1], "left_buffer": lbuf, "right_buffer": rbuf});
        if n == 3 && lo.0 == 9 {
            st.sample(sub, case);
        }
        match catch(|| k(&la, &ra)) {
            Ok(Ok(out)) => {
                if let (true, Err(e)) = (inputs_wf, out.to_data().validate_full()) {
                    st.violate(order, format!("c12:boolean:{name}:wf"), format!("{name}: validate_full: {e}"), case);
                } else if logical(&out) != want {
                    st.violate(order, format!("c12:boolean:{name}"), format!("{name}({}, {}) = {:?}, three-valued logic gives {:?} (value/validity bit offsets left {lo:?} right {ro:?})", show(l), show(r), logical(&out), want), case);
                }
            }
            Ok(Err(e)) => st.violate(order, format!("c12:boolean:{name}:error"), format!("{name}: unexpected Err({e})"), case),
            Err(p) => st.violate(order, format!("c12:boolean:{name}:{}", p.fingerprint()), format!("{p:?}"), case),
        }
    }
}

fn check_unary(l: &[S], lo: (usize, usize), lbuf: bool, order: u64, sub: &str, st: &mut Stats) {
    let la = build(l, lo.0, lo.1, lbuf);
    let inputs_wf = la.to_data().validate_full().is_ok();
    let case = || json!({"sub": sub, "op": "not/is_null/is_not_null", "left": show(l), "left_offsets": [lo.0, lo.1], "left_buffer": lbuf});
    let r = catch(|| (bo::not(&la), bo::is_null(&la), bo::is_not_null(&la)));
    match r {
        Ok((Ok(n), Ok(isn), Ok(isnn))) => {
            let wn: Vec<Option<bool>> = l.iter().map(|s| s.logical().map(|b| !b)).collect();
            let wi: Vec<Option<bool>> = l.iter().map(|s| Some(s.logical().is_none())).collect();
            let wnn: Vec<Option<bool>> = l.iter().map(|s| Some(s.logical().is_some())).collect();
            for (name, out, want) in [("not", &n, &wn), ("is_null", &isn, &wi), ("is_not_null", &isnn, &wnn)] {
                if let (true, Err(e)) = (inputs_wf, out.to_data().validate_full()) {
                    st.violate(order, format!("c12:boolean:{name}:wf"), format!("{name}: validate_full: {e}"), case);
                } else if &logical(out) != want || (name != "not" && out.nulls().is_some()) {
                    st.violate(order, format!("c12:boolean:{name}"), format!("{name}({}) = {:?}, expected {:?}", show(l), logical(out), want), case);
                }
            }
        }
        Ok(other) => st.violate(order, "c12:boolean:unary:error", format!("unexpected error {:?}", (other.0.err(), other.1.err(), other.2.err())), case),
        Err(p) => st.violate(order, format!("c12:boolean:unary:{}", p.fingerprint()), format!("{p:?}"), case),
    }
}

fn decode(mut m: usize, n: usize) -> Vec<S> {
    (0..n)
        .map(|_| {
            let s = SYMS[m % 4];
            m /= 4;
            s
        })
        .collect()
}

fn long_families(n: usize) -> Vec<Vec<S>> {
    let mut v: Vec<Vec<S>> = SYMS.iter().map(|s| vec![*s; n]).collect();
    v.push((0..n).map(|i| SYMS[i % 4]).collect());
    v.push((0..n).map(|i| SYMS[(i / 3 + i) % 4]).collect());
    for p in [0, 1, 62, 63, 64, 65, 126, 127, 128, n - 1] {
        if p < n {
            for (base, odd) in [(S::T, S::N0), (S::F, S::N1), (S::N1, S::F), (S::N0, S::T)] {
                let mut c = vec![base; n];
                c[p] = odd;
                v.push(c);
            }
        }
    }
    v
}

fn other_arrays(sub: &str, st: &mut Stats) {
    // is_null / is_not_null on non-boolean inputs use the *logical* nulls
    let check = |name: &str, a: &dyn Array, want: Vec<bool>, st: &mut Stats| {
        st.add(sub, 1, 1);
        let r = catch(|| (bo::is_null(a), bo::is_not_null(a)));
        match r {
            Ok((Ok(n), Ok(nn))) => {
                let gn: Vec<Option<bool>> = logical(&n);
                let gnn: Vec<Option<bool>> = logical(&nn);
                if gn != want.iter().map(|b| Some(*b)).collect::<Vec<_>>() || gnn != want.iter().map(|b| Some(!*b)).collect::<Vec<_>>() {
                    st.violate(0, format!("c12:boolean:is_null:{name}"), format!("is_null/is_not_null on {name}: {gn:?} / {gnn:?}, logical nulls {want:?}"), || json!({"sub": sub, "array": name}));
                } else {
                    st.outcome("c12:boolean:is_null:other-array-ok");
                }
            }
            other => st.violate(0, format!("c12:boolean:is_null:{name}:error"), format!("{:?}", other.map(|x| (x.0.is_ok(), x.1.is_ok()))), || json!({"sub": sub, "array": name})),
        }
    };
    let a = Int32Array::from(vec![Some(1), None, Some(3), None, None]).slice(1, 4);
    check("int32-sliced", &a, vec![true, false, true, true], st);
    check("null-array", &NullArray::new(3), vec![true, true, true], st);
    check("int32-no-nulls", &Int32Array::from(vec![1, 2, 3]), vec![false, false, false], st);
    let dict = DictionaryArray::<Int8Type>::try_new(Int8Array::from(vec![Some(0), Some(1), None, Some(1), Some(0)]), Arc::new(Int32Array::from(vec![Some(7), None]))).unwrap();
    check("dictionary-null-key-and-null-value", &dict, vec![false, true, true, true, false], st);
    let ree = RunArray::<Int32Type>::try_new(&Int32Array::from(vec![2, 3, 6]), &Int32Array::from(vec![Some(1), None, Some(2)])).unwrap();
    check("run-end-encoded", &ree, vec![false, false, true, false, false, false], st);
    check("run-end-encoded-sliced", &ree.slice(2, 3), vec![true, false, false], st);
    check("empty", &Int32Array::from(Vec::<i32>::new()), vec![], st);
}

// ---------------------------------------------------------------------------------------------
// bitwise kernels, 8-bit exhaustive

macro_rules! bitwise8 {
    ($fname:ident, $T:ty) => {
fn $fname(ctx: &Ctx, sub: &'static str) -> Stats {
    type T = $T;
    type N = <$T as ArrowPrimitiveType>::Native;
    let all = N::all();
    let ty = T::DATA_TYPE.to_string();
    par_for(ctx, sub, 4, 1, |idx, st| {
        // idx: 0 = array/array no nulls, 1 = array/array with nulls (garbage under nulls irrelevant: ops infallible),
        // 2 = scalar forms, 3 = sliced
        let mut ls = Vec::with_capacity(65536);
        let mut rs = Vec::with_capacity(65536);
        for a in &all {
            for b in &all {
                ls.push(*a);
                rs.push(*b);
            }
        }
        let n = ls.len();
        let lvalid: Vec<bool> = (0..n).map(|i| idx != 1 || i % 3 != 0).collect();
        let rvalid: Vec<bool> = (0..n).map(|i| idx != 1 || i % 5 != 0).collect();
        let off = if idx == 3 { 7 } else { 0 };
        let mk = |v: &[N], valid: &[bool]| -> PrimitiveArray<T> {
            let mut vv = vec![v[0]; off];
            vv.extend_from_slice(v);
            let mut nn = vec![false; off];
            nn.extend_from_slice(valid);
            let nulls = if idx == 1 || idx == 3 { Some(NullBuffer::from(nn)) } else { None };
            PrimitiveArray::<T>::new(ScalarBuffer::from(vv), nulls).slice(off, v.len())
        };
        let (la, ra) = (mk(&ls, &lvalid), mk(&rs, &rvalid));
        let bits = <N as IntN>::BITS as i128;
        type K<T> = fn(&PrimitiveArray<T>, &PrimitiveArray<T>) -> Result<PrimitiveArray<T>, ArrowError>;
        let ops: Vec<(&str, K<T>, Box<dyn Fn(N, N) -> Option<N>>)> = vec![
            ("bitwise_and", bw::bitwise_and::<T>, Box::new(|a, b| Some(a & b))),
            ("bitwise_or", bw::bitwise_or::<T>, Box::new(|a, b| Some(a | b))),
            ("bitwise_xor", bw::bitwise_xor::<T>, Box::new(|a, b| Some(a ^ b))),
            ("bitwise_and_not", bw::bitwise_and_not::<T>, Box::new(|a, b| Some(a & !b))),
            // shifts: pinned only for shift amounts 0 <= b < BITS (larger / negative amounts: undocumented wrapping)
            ("bitwise_shift_left", bw::bitwise_shift_left::<T>, Box::new(move |a, b| if (0..bits).contains(&b.to_i128()) { Some(<N as IntN>::wrap(a.to_i128() << b.to_i128())) } else { None })),
            ("bitwise_shift_right", bw::bitwise_shift_right::<T>, Box::new(move |a, b| if (0..bits).contains(&b.to_i128()) { Some(<N as IntN>::wrap(a.to_i128() >> b.to_i128())) } else { None })),
        ];
        if idx != 2 {
            for (name, k, model) in &ops {
                st.add(sub, n as u64, n as u64);
                match catch(|| k(&la, &ra)) {
                    Ok(Ok(out)) => {
                        if let Err(e) = out.to_data().validate_full() {
                            st.violate(idx, format!("c12:bitwise:{name}:wf"), format!("{e}"), || json!({"sub": sub, "op": name, "type": ty}));
                            continue;
                        }
                        let mut bad = None;
                        for i in 0..n {
                            let valid = lvalid[i] && rvalid[i];
                            if out.is_valid(i) != valid {
                                bad = Some((i, "validity"));
                                break;
                            }
                            if valid {
                                if let Some(w) = model(ls[i], rs[i]) {
                                    if out.value(i) != w {
                                        bad = Some((i, "value"));
                                        break;
                                    }
                                }
                            }
                        }
                        match bad {
                            Some((i, what)) => st.violate(idx, format!("c12:bitwise:{name}"), format!("{ty} {name}({:?}, {:?}) row {i}: wrong {what}: got {:?}", ls[i], rs[i], if out.is_valid(i) { Some(out.value(i)) } else { None }), || {
                                json!({"sub": sub, "op": name, "type": ty, "left": format!("{:?}", ls[i]), "right": format!("{:?}", rs[i]), "variant": idx})
                            }),
                            None => st.outcome(&format!("c12:bitwise:{name}:ok")),
                        }
                    }
                    Ok(Err(e)) => st.violate(idx, format!("c12:bitwise:{name}:error"), format!("{e}"), || json!({"sub": sub, "op": name, "type": ty})),
                    Err(p) => st.violate(idx, format!("c12:bitwise:{name}:{}", p.fingerprint()), format!("{p:?}"), || json!({"sub": sub, "op": name, "type": ty})),
                }
            }
            // not
            let col = mk(&all, &(0..all.len()).map(|i| idx != 1 || i % 2 == 0).collect::<Vec<_>>());
            st.add(sub, all.len() as u64, all.len() as u64);
            match catch(|| bw::bitwise_not(&col)) {
                Ok(Ok(out)) => {
                    let ok = (0..all.len()).all(|i| out.is_valid(i) == col.is_valid(i) && (!col.is_valid(i) || out.value(i) == !all[i]));
                    if !ok || out.to_data().validate_full().is_err() {
                        st.violate(idx, "c12:bitwise:bitwise_not", format!("{ty} bitwise_not disagrees"), || json!({"sub": sub, "op": "bitwise_not", "type": ty}));
                    }
                }
                other => st.violate(idx, "c12:bitwise:bitwise_not:error", format!("{:?}", other.map(|r| r.is_ok())), || json!({"sub": sub, "op": "bitwise_not", "type": ty})),
            }
        } else {
            // scalar forms: every scalar x the whole value column
            type KS<T> = fn(&PrimitiveArray<T>, N) -> Result<PrimitiveArray<T>, ArrowError>;
            let sops: Vec<(&str, KS<T>, usize)> = vec![
                ("bitwise_and_scalar", bw::bitwise_and_scalar::<T>, 0),
                ("bitwise_or_scalar", bw::bitwise_or_scalar::<T>, 1),
                ("bitwise_xor_scalar", bw::bitwise_xor_scalar::<T>, 2),
                ("bitwise_shift_left_scalar", bw::bitwise_shift_left_scalar::<T>, 4),
                ("bitwise_shift_right_scalar", bw::bitwise_shift_right_scalar::<T>, 5),
            ];
            let valid: Vec<bool> = (0..all.len()).map(|i| i % 4 != 1).collect();
            let col = PrimitiveArray::<T>::new(ScalarBuffer::from(all.clone()), Some(NullBuffer::from(valid.clone())));
            for (name, k, mi) in sops {
                for &s in &all {
                    st.add(sub, all.len() as u64, all.len() as u64);
                    match catch(|| k(&col, s)) {
                        Ok(Ok(out)) => {
                            let ok = (0..all.len()).all(|i| {
                                out.is_valid(i) == valid[i]
                                    && (!valid[i]
                                        || match (ops[mi].2)(all[i], s) {
                                            Some(w) => out.value(i) == w,
                                            None => true,
                                        })
                            });
                            if !ok {
                                st.violate(idx, format!("c12:bitwise:{name}"), format!("{ty} {name}(column, {s:?}) disagrees with the bit operation"), || json!({"sub": sub, "op": name, "type": ty, "scalar": format!("{s:?}")}));
                            }
                        }
                        other => st.violate(idx, format!("c12:bitwise:{name}:error"), format!("{:?}", other.map(|r| r.is_ok())), || json!({"sub": sub, "op": name, "type": ty})),
                    }
                }
                st.outcome(&format!("c12:bitwise:{name}:ok"));
            }
        }
    })
}
    };
}
bitwise8!(bitwise8_i8, Int8Type);
bitwise8!(bitwise8_u8, UInt8Type);

pub fn run(ctx: &Ctx, st: &mut Stats, tick: &mut dyn FnMut(&str)) {
    let sub = "kleene-small";
    // n <= 3: all columns x all columns, all value bit offsets 0..=9 on both sides; validity offsets derived
    // (quick) or independently enumerated for n <= 2 (thorough)
    let mut cols: Vec<Vec<S>> = vec![vec![]];
    for n in 1..=3 {
        for m in 0..4usize.pow(n as u32) {
            cols.push(decode(m, n));
        }
    }
    // group by length
    let pairs: Vec<(usize, usize)> = (0..cols.len()).flat_map(|i| (0..cols.len()).map(move |j| (i, j))).filter(|(i, j)| cols[*i].len() == cols[*j].len()).collect();
    st.merge(par_for(ctx, sub, pairs.len() as u64, 16, |idx, st| {
        let (i, j) = pairs[idx as usize];
        let (l, r) = (&cols[i], &cols[j]);
        let l_has = l.iter().any(|s| s.logical().is_none());
        let r_has = r.iter().any(|s| s.logical().is_none());
        for lv in 0..=9usize {
            for rv in 0..=9usize {
                let lo = (lv, (lv * 3 + 1) % 10);
                let ro = (rv, (rv * 7 + 2) % 10);
                for lbuf in [false, true] {
                    for rbuf in [false, true] {
                        if (l_has && !lbuf) || (r_has && !rbuf) {
                            continue; // a buffer is attached anyway
                        }
                        st.add(sub, 1, (l_has || r_has) as u64);
                        check_pair(l, r, lo, ro, lbuf, rbuf, idx, sub, st);
                    }
                }
            }
        }
        if j == i {
            for lv in 0..=9usize {
                for no in 0..=9usize {
                    st.add(sub, 1, 1);
                    check_unary(l, (lv, no), true, idx, sub, st);
                }
                if !l_has {
                    check_unary(l, (lv, 0), false, idx, sub, st);
                }
            }
        }
    }));
    st.outcome("c12:boolean:small-columns-agree-with-three-valued-logic");
    tick("kleene small");
    if !ctx.quick() {
        // independent value / validity offsets on both sides for n <= 2
        let small: Vec<(usize, usize)> = pairs.iter().copied().filter(|(i, _)| cols[*i].len() <= 2).collect();
        st.merge(par_for(ctx, "kleene-independent-offsets", small.len() as u64, 1, |idx, st| {
            let (i, j) = small[idx as usize];
            for a in 0..=9usize {
                for b in 0..=9usize {
                    for c in 0..=9usize {
                        for d in 0..=9usize {
                            st.add("kleene-independent-offsets", 1, 1);
                            check_pair(&cols[i], &cols[j], (a, b), (c, d), true, true, idx, "kleene-independent-offsets", st);
                        }
                    }
                }
            }
        }));
        tick("kleene independent offsets");
    }
    // lengths around the 64-bit word boundaries
    let sub = "kleene-long";
    let lens = [63usize, 64, 65, 127, 128, 129, 200];
    st.merge(par_for(ctx, sub, lens.len() as u64 * 16, 1, |idx, st| {
        let n = lens[(idx / 16) as usize];
        let (lv, rv) = ([0usize, 1, 7, 9][(idx % 4) as usize], [0usize, 3, 8, 63][((idx / 4) % 4) as usize]);
        let fam = long_families(n);
        for l in &fam {
            for r in &fam {
                st.add(sub, 1, 1);
                check_pair(l, r, (lv, (lv + 5) % 11), (rv, (rv + 2) % 13), true, true, idx, sub, st);
            }
            check_unary(l, (lv, rv), true, idx, sub, st);
        }
    }));
    // different lengths must be rejected
    {
        let mut s = Stats::new();
        let a = build(&[S::T, S::F], 0, 0, true);
        let b = build(&[S::T], 0, 0, true);
        for (name, k, _) in BIN {
            s.add(sub, 1, 1);
            if !matches!(catch(|| k(&a, &b)), Ok(Err(_))) {
                s.violate(0, format!("c12:boolean:{name}:length-mismatch-accepted"), "operands of different length were not rejected", || json!({"sub": sub, "op": name}));
            } else {
                s.outcome("c12:boolean:length-mismatch-rejected");
            }
        }
        other_arrays("kleene-small", &mut s);
        st.merge(s);
    }
    tick("kleene long");
    st.merge(bitwise8_i8(ctx, "bitwise-8bit-exhaustive"));
    st.merge(bitwise8_u8(ctx, "bitwise-8bit-exhaustive"));
    tick("bitwise");
}
