mod agg;
mod c12;
mod core;
mod dec;
mod fixed;
mod ints;
mod kleene;
mod native;
mod nulls;
mod refm;
mod replay;
mod temporal;
unsafe extern "C" {
    fn mallopt(param: i32, value: i32) -> i32;
}
fn main() {
    // keep large operand vectors on the heap free lists instead of mmap/munmap per batch (16 workers
    // otherwise serialise on the address-space lock); purely a performance setting
    unsafe {
        mallopt(-3, 32 << 20); // M_MMAP_THRESHOLD (glibc maximum)
        mallopt(-1, i32::MAX); // M_TRIM_THRESHOLD
    }
    let ctx = vcore::Ctx::from_args();
    match ctx.prop.as_str() {
        "C12" => c12::run(&ctx),
        other => {
            eprintln!("MACHINERY: vk-arith does not serve property {other:?}");
            std::process::exit(2)
        }
    }
}
