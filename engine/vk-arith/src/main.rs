fn main() {}
