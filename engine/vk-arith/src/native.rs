//! Direct checks of the scalar building blocks: `ArrowNativeTypeOp` on every integer native type,
//! `arrow_buffer::i256` (arithmetic, conversions, parsing, ordering, byte representations) and the
//! interval structs' field-wise arithmetic, against i128 / BigInt references.
use crate::ints::AllVals;
use crate::refm::*;
use arrow_array::ArrowNativeTypeOp;
use arrow_buffer::{IntervalDayTime, IntervalMonthDayNano, i256};
use half::f16;
use num_bigint::{BigInt, Sign};
use std::cmp::Ordering;
use vcore::serde_json::json;
use vcore::{Ctx, Stats, catch, par_for};

const POW_EXPS: [u32; 12] = [0, 1, 2, 3, 7, 8, 15, 16, 31, 63, 64, 255];

fn chk<N: IntN>(got: Result<N, arrow_schema::ArrowError>, exact: Option<i128>) -> bool {
    match (got, exact) {
        (Ok(g), Some(e)) => N::fits(e) && g == N::wrap(e),
        (Err(_), Some(e)) => !N::fits(e),
        (Err(_), None) => true,
        (Ok(_), None) => false,
    }
}

/// all ArrowNativeTypeOp operations of one pair, i128 reference; returns the name of the first disagreeing operation
fn native_fast<N: IntN + ArrowNativeTypeOp>(a: N, b: N) -> Result<(), &'static str> {
    let (x, y) = (a.to_i128(), b.to_i128());
    let prod = x.checked_mul(y);
    if !chk(a.add_checked(b), Some(x + y)) {
        return Err("add_checked");
    }
    if a.add_wrapping(b) != N::wrap(x + y) {
        return Err("add_wrapping");
    }
    if !chk(a.sub_checked(b), Some(x - y)) {
        return Err("sub_checked");
    }
    if a.sub_wrapping(b) != N::wrap(x - y) {
        return Err("sub_wrapping");
    }
    // an i128 overflow of x*y can only happen for 64-bit operands, where the product is then certainly out of range
    if !chk(a.mul_checked(b), Some(prod.unwrap_or(i128::MAX))) {
        return Err("mul_checked");
    }
    if a.mul_wrapping(b) != N::wrap(x.wrapping_mul(y)) {
        return Err("mul_wrapping");
    }
    if y == 0 {
        if a.div_checked(b).is_ok() {
            return Err("div_checked(zero)");
        }
        if a.mod_checked(b).is_ok() {
            return Err("mod_checked(zero)");
        }
    } else {
        if !chk(a.div_checked(b), Some(x / y)) {
            return Err("div_checked");
        }
        if a.div_wrapping(b) != N::wrap(x / y) {
            return Err("div_wrapping");
        }
        // MIN % -1: mathematically 0; the checked form may report it as overflow like the std checked_rem (not pinned by docs)
        let min_m1 = N::SIGNED && x == N::min_i() && y == -1;
        match a.mod_checked(b) {
            Ok(g) if g == N::wrap(x % y) => {}
            Err(_) if min_m1 => {}
            _ => return Err("mod_checked"),
        }
        if a.mod_wrapping(b) != N::wrap(x % y) {
            return Err("mod_wrapping");
        }
    }
    if a.is_zero() != (x == 0) {
        return Err("is_zero");
    }
    let ord = x.cmp(&y);
    if a.compare(b) != ord {
        return Err("compare");
    }
    if a.is_eq(b) != (ord == Ordering::Equal) || a.is_ne(b) != (ord != Ordering::Equal) || a.is_lt(b) != ord.is_lt() || a.is_le(b) != ord.is_le() || a.is_gt(b) != ord.is_gt() || a.is_ge(b) != ord.is_ge() {
        return Err("is_eq/ne/lt/le/gt/ge");
    }
    Ok(())
}
fn native_fast_unary<N: IntN + ArrowNativeTypeOp + BigN>(a: N) -> Result<(), &'static str> {
    let x = IntN::to_i128(a);
    if !chk(a.neg_checked(), Some(-x)) {
        return Err("neg_checked");
    }
    if a.neg_wrapping() != <N as IntN>::wrap(-x) {
        return Err("neg_wrapping");
    }
    let xb = a.to_big();
    for e in POW_EXPS {
        let p = xb.pow(e);
        match (a.pow_checked(e), N::from_big(&p)) {
            (Ok(g), Some(w)) if g == w => {}
            (Err(_), None) => {}
            _ => return Err("pow_checked"),
        }
        if a.pow_wrapping(e) != N::wrap_big(&p) {
            return Err("pow_wrapping");
        }
    }
    Ok(())
}

fn report(st: &mut Stats, sub: &str, ty: &str, r: Result<(), impl AsRef<str>>, a: String, b: String, order: u64) {
    if let Err(op) = r {
        let op = op.as_ref();
        st.violate(order, format!("c12:native:{ty}:{op}"), format!("{ty}::{op} disagrees with the exact integer reference for operands {a}, {b}"), || json!({"sub": sub, "type": ty, "op": op, "left": a, "right": b}));
    }
}

fn small_native<N: IntN + BigN + ArrowNativeTypeOp + AllVals>(ctx: &Ctx, sub: &str, ty: &'static str, full: bool) -> Stats {
    let all = N::all();
    let others: Vec<N> = if full { all.clone() } else { boundary16::<N>() };
    let n = all.len() as u64;
    let mut st = par_for(ctx, sub, n, 64, |i, st| {
        let a = all[i as usize];
        let mut bad: Option<(&'static str, N, N)> = None;
        for &b in &others {
            if let Err(op) = native_fast(a, b) {
                bad.get_or_insert((op, a, b));
            }
            if !full {
                if let Err(op) = native_fast(b, a) {
                    bad.get_or_insert((op, b, a));
                }
            }
        }
        let k = others.len() as u64 * if full { 1 } else { 2 };
        st.add(sub, k, k);
        if let Some((op, x, y)) = bad {
            report(st, sub, ty, Err::<(), _>(op), format!("{x:?}"), format!("{y:?}"), i);
        }
        let r = native_fast_unary(a);
        st.add(sub, 1, 1);
        report(st, sub, ty, r, format!("{a:?}"), "-".into(), i);
    });
    st.outcome(&format!("c12:native:{ty}:checked-and-wrapping-agree-with-reference"));
    st
}

fn lattice_native_fast<N: IntN + BigN + ArrowNativeTypeOp>(sub: &str, ty: &'static str, st: &mut Stats) {
    let l = lattice::<N>(true);
    for (i, &a) in l.iter().enumerate() {
        for &b in &l {
            st.add(sub, 1, 1);
            report(st, sub, ty, native_fast(a, b), format!("{a:?}"), format!("{b:?}"), i as u64);
        }
        st.add(sub, 1, 1);
        report(st, sub, ty, native_fast_unary(a), format!("{a:?}"), "-".into(), i as u64);
    }
    // documented panic of the wrapping division by zero
    for a in [l[0], l[l.len() / 2], l[l.len() - 1]] {
        st.add(sub, 2, 2);
        let z = <N as IntN>::wrap(0);
        if catch(|| a.div_wrapping(z)).is_ok() {
            report(st, sub, ty, Err::<(), _>("div_wrapping(zero)-does-not-panic"), format!("{a:?}"), "0".into(), 0);
        }
        if catch(|| a.mod_wrapping(z)).is_ok() {
            report(st, sub, ty, Err::<(), _>("mod_wrapping(zero)-does-not-panic"), format!("{a:?}"), "0".into(), 0);
        }
        st.outcome("c12:native:wrapping-division-by-zero-panics-as-documented");
    }
}

// ---------------------------------------------------------------------------------------------
// BigInt path: i128 and i256 through ArrowNativeTypeOp

fn chkb<N: BigN>(got: Result<N, arrow_schema::ArrowError>, exact: &BigInt) -> bool {
    match (got, N::from_big(exact)) {
        (Ok(g), Some(w)) => g == w,
        (Err(_), None) => true,
        _ => false,
    }
}
fn native_big<N: BigN + ArrowNativeTypeOp>(a: N, b: N) -> Result<(), &'static str> {
    let (x, y) = (a.to_big(), b.to_big());
    if !chkb(a.add_checked(b), &(&x + &y)) {
        return Err("add_checked");
    }
    if a.add_wrapping(b) != N::wrap_big(&(&x + &y)) {
        return Err("add_wrapping");
    }
    if !chkb(a.sub_checked(b), &(&x - &y)) {
        return Err("sub_checked");
    }
    if a.sub_wrapping(b) != N::wrap_big(&(&x - &y)) {
        return Err("sub_wrapping");
    }
    if !chkb(a.mul_checked(b), &(&x * &y)) {
        return Err("mul_checked");
    }
    if a.mul_wrapping(b) != N::wrap_big(&(&x * &y)) {
        return Err("mul_wrapping");
    }
    if y.sign() == Sign::NoSign {
        if a.div_checked(b).is_ok() {
            return Err("div_checked(zero)");
        }
        if a.mod_checked(b).is_ok() {
            return Err("mod_checked(zero)");
        }
    } else {
        let (q, r) = (&x / &y, &x % &y);
        if !chkb(a.div_checked(b), &q) {
            return Err("div_checked");
        }
        if a.div_wrapping(b) != N::wrap_big(&q) {
            return Err("div_wrapping");
        }
        let min_m1 = x == N::min_big() && y == BigInt::from(-1);
        match a.mod_checked(b) {
            Ok(g) if g == N::wrap_big(&r) => {}
            Err(_) if min_m1 => {}
            _ => return Err("mod_checked"),
        }
        if a.mod_wrapping(b) != N::wrap_big(&r) {
            return Err("mod_wrapping");
        }
    }
    let ord = x.cmp(&y);
    if a.compare(b) != ord {
        return Err("compare");
    }
    if a.is_eq(b) != (ord == Ordering::Equal) || a.is_ne(b) != (ord != Ordering::Equal) || a.is_lt(b) != ord.is_lt() || a.is_le(b) != ord.is_le() || a.is_gt(b) != ord.is_gt() || a.is_ge(b) != ord.is_ge() {
        return Err("is_eq/ne/lt/le/gt/ge");
    }
    Ok(())
}
fn native_big_unary<N: BigN + ArrowNativeTypeOp>(a: N) -> Result<(), &'static str> {
    let x = a.to_big();
    if !chkb(a.neg_checked(), &-&x) {
        return Err("neg_checked");
    }
    if a.neg_wrapping() != N::wrap_big(&-&x) {
        return Err("neg_wrapping");
    }
    if a.is_zero() != (x.sign() == Sign::NoSign) {
        return Err("is_zero");
    }
    for e in POW_EXPS {
        let p = x.pow(e);
        if !chkb(a.pow_checked(e), &p) {
            return Err("pow_checked");
        }
        if a.pow_wrapping(e) != N::wrap_big(&p) {
            return Err("pow_wrapping");
        }
    }
    Ok(())
}

/// i256 inherent API of one pair
fn i256_pair(a: i256, b: i256) -> Result<(), &'static str> {
    let (x, y) = (a.to_big(), b.to_big());
    let opt = |g: Option<i256>, e: &BigInt| match (g, i256::from_big(e)) {
        (Some(g), Some(w)) => g == w,
        (None, None) => true,
        _ => false,
    };
    if !opt(a.checked_add(b), &(&x + &y)) {
        return Err("checked_add");
    }
    if a.wrapping_add(b) != i256::wrap_big(&(&x + &y)) {
        return Err("wrapping_add");
    }
    if !opt(a.checked_sub(b), &(&x - &y)) {
        return Err("checked_sub");
    }
    if a.wrapping_sub(b) != i256::wrap_big(&(&x - &y)) {
        return Err("wrapping_sub");
    }
    if !opt(a.checked_mul(b), &(&x * &y)) {
        return Err("checked_mul");
    }
    if a.wrapping_mul(b) != i256::wrap_big(&(&x * &y)) {
        return Err("wrapping_mul");
    }
    if y.sign() == Sign::NoSign {
        if a.checked_div(b).is_some() || a.checked_rem(b).is_some() {
            return Err("checked_div/rem(zero)");
        }
    } else {
        let (q, r) = (&x / &y, &x % &y);
        if !opt(a.checked_div(b), &q) {
            return Err("checked_div");
        }
        if a.wrapping_div(b) != i256::wrap_big(&q) {
            return Err("wrapping_div");
        }
        let min_m1 = a == i256::MIN && b == i256::MINUS_ONE;
        match a.checked_rem(b) {
            Some(g) if g == i256::wrap_big(&r) => {}
            None if min_m1 => {}
            _ => return Err("checked_rem"),
        }
        if a.wrapping_rem(b) != i256::wrap_big(&r) {
            return Err("wrapping_rem");
        }
    }
    if a.cmp(&b) != x.cmp(&y) || (a == b) != (x == y) || a.partial_cmp(&b) != Some(x.cmp(&y)) {
        return Err("Ord/Eq");
    }
    let (ov, of) = a.overflowing_add(b);
    if ov != i256::wrap_big(&(&x + &y)) || of != !i256::fits_big(&(&x + &y)) {
        return Err("overflowing_add");
    }
    let (ov, of) = a.overflowing_sub(b);
    if ov != i256::wrap_big(&(&x - &y)) || of != !i256::fits_big(&(&x - &y)) {
        return Err("overflowing_sub");
    }
    if (a & b) != i256::wrap_big(&(&x & &y)) || (a | b) != i256::wrap_big(&(&x | &y)) || (a ^ b) != i256::wrap_big(&(&x ^ &y)) {
        return Err("bitand/bitor/bitxor");
    }
    Ok(())
}

fn i256_unary(a: i256) -> Result<(), &'static str> {
    let x = a.to_big();
    let (lo, hi) = a.to_parts();
    if i256::from_parts(lo, hi) != a {
        return Err("from_parts/to_parts");
    }
    if (BigInt::from(hi) << 128) + BigInt::from(lo) != x {
        return Err("to_parts");
    }
    // to_i128 / as_i128 / from_i128
    let fits128 = x >= BigInt::from(i128::MIN) && x <= BigInt::from(i128::MAX);
    match a.to_i128() {
        Some(v) if fits128 && BigInt::from(v) == x => {}
        None if !fits128 => {}
        _ => return Err("to_i128"),
    }
    if a.as_i128() != <i128 as BigN>::wrap_big(&x) {
        return Err("as_i128");
    }
    if fits128 && i256::from_i128(a.as_i128()) != a {
        return Err("from_i128");
    }
    // bytes
    let le = a.to_le_bytes();
    let be = a.to_be_bytes();
    if BigInt::from_signed_bytes_le(&le) != x || BigInt::from_signed_bytes_be(&be) != x {
        return Err("to_le_bytes/to_be_bytes");
    }
    if i256::from_le_bytes(le) != a || i256::from_be_bytes(be) != a {
        return Err("from_le_bytes/from_be_bytes");
    }
    // Display / from_string / FromStr
    let s = x.to_string();
    if a.to_string() != s || format!("{a:?}") != s {
        return Err("Display");
    }
    if i256::from_string(&s) != Some(a) || s.parse::<i256>().ok() != Some(a) {
        return Err("from_string");
    }
    if x.sign() != Sign::Minus {
        if i256::from_string(&format!("+{s}")) != Some(a) {
            return Err("from_string(+)");
        }
        if i256::from_string(&format!("000{s}")) != Some(a) {
            return Err("from_string(leading zeros)");
        }
        if i256::from_string(&format!("{:0>80}", s)) != Some(a) {
            return Err("from_string(80 digits with leading zeros)");
        }
    } else if i256::from_string(&format!("-000{}", &s[1..])) != Some(a) {
        return Err("from_string(-leading zeros)");
    }
    // neg / abs / signum / sign predicates
    let negx = -&x;
    match (a.checked_neg(), i256::from_big(&negx)) {
        (Some(g), Some(w)) if g == w => {}
        (None, None) => {}
        _ => return Err("checked_neg"),
    }
    if a.wrapping_neg() != i256::wrap_big(&negx) {
        return Err("wrapping_neg");
    }
    let absx = if x.sign() == Sign::Minus { negx.clone() } else { x.clone() };
    match (a.checked_abs(), i256::from_big(&absx)) {
        (Some(g), Some(w)) if g == w => {}
        (None, None) => {}
        _ => return Err("checked_abs"),
    }
    if a.wrapping_abs() != i256::wrap_big(&absx) {
        return Err("wrapping_abs");
    }
    let sg = match x.sign() {
        Sign::Minus => i256::MINUS_ONE,
        Sign::NoSign => i256::ZERO,
        Sign::Plus => i256::ONE,
    };
    if a.signum() != sg || a.is_negative() != (x.sign() == Sign::Minus) || a.is_positive() != (x.sign() == Sign::Plus) {
        return Err("signum/is_negative/is_positive");
    }
    // leading / trailing zeros on the 256-bit two's complement pattern
    let mut bits = [0u8; 32];
    bits.copy_from_slice(&le);
    let mut lz = 0;
    for i in (0..256).rev() {
        if (bits[i / 8] >> (i % 8)) & 1 == 1 {
            break;
        }
        lz += 1;
    }
    let mut tz = 0;
    for i in 0..256 {
        if (bits[i / 8] >> (i % 8)) & 1 == 1 {
            break;
        }
        tz += 1;
    }
    if a.leading_zeros() != lz {
        return Err("leading_zeros");
    }
    if a.trailing_zeros() != tz {
        return Err("trailing_zeros");
    }
    if !a != i256::wrap_big(&(-&x - 1)) {
        return Err("not");
    }
    // pow
    for e in POW_EXPS {
        let p = x.pow(e);
        match (a.checked_pow(e), i256::from_big(&p)) {
            (Some(g), Some(w)) if g == w => {}
            (None, None) => {}
            _ => return Err("checked_pow"),
        }
        if a.wrapping_pow(e) != i256::wrap_big(&p) {
            return Err("wrapping_pow");
        }
    }
    Ok(())
}

fn i256_limb_values() -> Vec<i256> {
    let l = [0u64, 1, 1 << 63, u64::MAX];
    let mut v = vec![];
    for a in l {
        for b in l {
            for c in l {
                for d in l {
                    let lo = (a as u128) | ((b as u128) << 64);
                    let hi = ((c as u128) | ((d as u128) << 64)) as i128;
                    v.push(i256::from_parts(lo, hi));
                }
            }
        }
    }
    v
}

fn i256_units(ctx: &Ctx) -> Stats {
    let sub = "i256-direct";
    let lat: Vec<i256> = lattice::<i256>(!ctx.quick());
    let limbs = i256_limb_values();
    // the enumerated pair space: lattice x lattice, limb-set x limb-set, lattice x limb-set (both orders)
    let mut st = Stats::new();
    for (name, ls, rs) in [("lattice2", &lat, &lat), ("limbs2", &limbs, &limbs), ("lattice-x-limbs", &lat, &limbs), ("limbs-x-lattice", &limbs, &lat)] {
        st.merge(par_for(ctx, sub, ls.len() as u64, 1, |i, st| {
            let a = ls[i as usize];
            st.sample(sub, || json!({"sub": sub, "space": name, "left": a.to_string(), "right": rs[rs.len() / 2].to_string()}));
            for &b in rs.iter() {
                st.add(sub, 1, 1);
                if let Err(op) = i256_pair(a, b) {
                    st.violate(i, format!("c12:i256:{op}"), format!("i256::{op} disagrees with BigInt for {a} , {b} ({name})"), || json!({"sub": sub, "op": op, "left": a.to_string(), "right": b.to_string()}));
                }
                if let Err(op) = native_big(a, b) {
                    st.violate(i, format!("c12:native:i256:{op}"), format!("ArrowNativeTypeOp for i256 {op} disagrees with BigInt for {a} , {b}"), || json!({"sub": sub, "op": op, "left": a.to_string(), "right": b.to_string()}));
                }
            }
        }));
    }
    let mut all = lat.clone();
    all.extend(limbs.iter().copied());
    for (i, &a) in all.iter().enumerate() {
        st.add(sub, 1, 1);
        if let Err(op) = i256_unary(a) {
            st.violate(i as u64, format!("c12:i256:{op}"), format!("i256::{op} disagrees with BigInt for {a}"), || json!({"sub": sub, "op": op, "operand": a.to_string()}));
        }
        if let Err(op) = native_big_unary(a) {
            st.violate(i as u64, format!("c12:native:i256:{op}"), format!("ArrowNativeTypeOp for i256 {op} disagrees with BigInt for {a}"), || json!({"sub": sub, "op": op, "operand": a.to_string()}));
        }
    }
    // strings that must be rejected: out of range, malformed
    let max = i256::max_big();
    let min = i256::min_big();
    let bad: Vec<String> = vec![
        BigInt::to_string(&(&max + 1)),
        BigInt::to_string(&(&min - 1)),
        BigInt::to_string(&(&max * 10)),
        format!("1{}", "0".repeat(77)),
        format!("-1{}", "0".repeat(77)),
        "".into(),
        "-".into(),
        "+".into(),
        "--1".into(),
        "+-1".into(),
        "1a".into(),
        format!("{}a", "1".repeat(40)),
        format!("a{}", "1".repeat(40)),
        format!("{}-{}", "1".repeat(20), "1".repeat(30)),
        format!("{}+{}", "1".repeat(10), "1".repeat(38)),
        format!("++{}", "1".repeat(40)),
        format!("-+{}", "1".repeat(40)),
        format!("{} ", "1".repeat(40)),
        "1 ".into(),
    ];
    for s in bad {
        st.add(sub, 1, 1);
        match catch(|| i256::from_string(&s)) {
            Ok(None) => st.outcome("c12:i256:from_string:rejects-invalid"),
            Ok(Some(v)) => st.violate(0, "c12:i256:from_string:accepts-invalid", format!("i256::from_string({s:?}) = {v}"), || json!({"sub": sub, "op": "from_string", "operand": s})),
            Err(p) => st.violate(0, format!("c12:i256:from_string:{}", p.fingerprint()), format!("i256::from_string({s:?}) panicked: {p:?}"), || json!({"sub": sub, "op": "from_string", "operand": s})),
        }
    }
    // documented panics
    for a in [i256::MIN, i256::ONE, i256::MAX] {
        st.add(sub, 2, 2);
        if catch(|| a.wrapping_div(i256::ZERO)).is_ok() || catch(|| a.wrapping_rem(i256::ZERO)).is_ok() {
            st.violate(0, "c12:i256:wrapping_div(zero)-does-not-panic", "documented panic missing", || json!({"sub": sub}));
        }
    }
    st.outcome("c12:i256:agrees-with-bigint");
    st
}

// ---------------------------------------------------------------------------------------------
// Interval structs: field-wise arithmetic

fn f32ops(a: i32, b: i32) -> [(Option<i32>, i32); 3] {
    [(a.checked_add(b), a.wrapping_add(b)), (a.checked_sub(b), a.wrapping_sub(b)), (a.checked_mul(b), a.wrapping_mul(b))]
}
fn f64ops(a: i64, b: i64) -> [(Option<i64>, i64); 3] {
    [(a.checked_add(b), a.wrapping_add(b)), (a.checked_sub(b), a.wrapping_sub(b)), (a.checked_mul(b), a.wrapping_mul(b))]
}
// the std integer ops above are the *reference* here (field-wise i32/i64 semantics are what the docs of the
// interval structs promise: "Each field is independent"); cross-checked against i128 below
fn ref32(a: i32, b: i32, k: usize) -> (Option<i32>, i32) {
    let e = match k {
        0 => a as i128 + b as i128,
        1 => a as i128 - b as i128,
        _ => a as i128 * b as i128,
    };
    (if e >= i32::MIN as i128 && e <= i32::MAX as i128 { Some(e as i32) } else { None }, e as i32)
}
fn ref64(a: i64, b: i64, k: usize) -> (Option<i64>, i64) {
    let e = match k {
        0 => a as i128 + b as i128,
        1 => a as i128 - b as i128,
        _ => a as i128 * b as i128,
    };
    (if e >= i64::MIN as i128 && e <= i64::MAX as i128 { Some(e as i64) } else { None }, e as i64)
}

fn interval_units(st: &mut Stats) {
    let sub = "interval-structs";
    let b32: Vec<i32> = vec![0, 1, -1, 2, -2, 7, 46340, 46341, -46341, 65536, i32::MAX, i32::MAX - 1, i32::MIN, i32::MIN + 1, 1 << 30, -(1 << 30)];
    let b64: Vec<i64> = vec![0, 1, -1, 2, -2, 86_400_000_000_000, 3037000499, 3037000500, -3037000500, i64::MAX, i64::MAX - 1, i64::MIN, i64::MIN + 1, 1 << 62, -(1 << 62)];
    let _ = (f32ops, f64ops);
    // IntervalDayTime: (days, ms) over b32 x b32 (diagonal-reduced: all field pairs appear in each position)
    let mut dts = vec![];
    for (i, &d) in b32.iter().enumerate() {
        for (j, &m) in b32.iter().enumerate() {
            if i == j || i == 0 || j == 0 || (i + j) % 3 == 0 {
                dts.push(IntervalDayTime::new(d, m));
            }
        }
    }
    for &a in &dts {
        for &b in &dts {
            st.add(sub, 1, 1);
            let fields = [(a.days, b.days), (a.milliseconds, b.milliseconds)];
            for k in 0..3 {
                let r: Vec<(Option<i32>, i32)> = fields.iter().map(|(x, y)| ref32(*x, *y, k)).collect();
                let (chk, wr) = match k {
                    0 => (a.checked_add(b), a.wrapping_add(b)),
                    1 => (a.checked_sub(b), a.wrapping_sub(b)),
                    _ => (a.checked_mul(b), a.wrapping_mul(b)),
                };
                let (nchk, nwr) = match k {
                    0 => (a.add_checked(b).ok(), a.add_wrapping(b)),
                    1 => (a.sub_checked(b).ok(), a.sub_wrapping(b)),
                    _ => (a.mul_checked(b).ok(), a.mul_wrapping(b)),
                };
                let want_chk = if r.iter().all(|x| x.0.is_some()) { Some(IntervalDayTime::new(r[0].0.unwrap(), r[1].0.unwrap())) } else { None };
                let want_wr = IntervalDayTime::new(r[0].1, r[1].1);
                if chk != want_chk || wr != want_wr || nchk != want_chk || nwr != want_wr {
                    let opn = ["add", "sub", "mul"][k];
                    st.violate(0, format!("c12:interval:IntervalDayTime:{opn}"), format!("IntervalDayTime {opn}: {a:?} , {b:?}: checked {chk:?} / wrapping {wr:?}, field-wise reference {want_chk:?} / {want_wr:?}"), || {
                        json!({"sub": sub, "op": opn, "left": format!("{a:?}"), "right": format!("{b:?}")})
                    });
                }
            }
            // division / remainder: field-wise, None when any divisor field is zero or MIN / -1
            let dz = b.days == 0 || b.milliseconds == 0;
            let want_div = if dz { None } else { a.days.checked_div(b.days).zip(a.milliseconds.checked_div(b.milliseconds)).map(|(d, m)| IntervalDayTime::new(d, m)) };
            if a.checked_div(b) != want_div {
                st.violate(0, "c12:interval:IntervalDayTime:div", format!("IntervalDayTime checked_div {a:?} / {b:?} = {:?}, reference {want_div:?}", a.checked_div(b)), || json!({"sub": sub, "op": "div", "left": format!("{a:?}"), "right": format!("{b:?}")}));
            }
            let want_rem = if dz { None } else { a.days.checked_rem(b.days).zip(a.milliseconds.checked_rem(b.milliseconds)).map(|(d, m)| IntervalDayTime::new(d, m)) };
            if a.checked_rem(b) != want_rem {
                st.violate(0, "c12:interval:IntervalDayTime:rem", format!("IntervalDayTime checked_rem {a:?} % {b:?} = {:?}, reference {want_rem:?}", a.checked_rem(b)), || json!({"sub": sub, "op": "rem", "left": format!("{a:?}"), "right": format!("{b:?}")}));
            }
        }
        st.add(sub, 1, 1);
        let want = a.days.checked_neg().zip(a.milliseconds.checked_neg()).map(|(d, m)| IntervalDayTime::new(d, m));
        if a.checked_neg() != want || a.wrapping_neg() != IntervalDayTime::new(a.days.wrapping_neg(), a.milliseconds.wrapping_neg()) || a.neg_checked().ok() != want {
            st.violate(0, "c12:interval:IntervalDayTime:neg", format!("IntervalDayTime neg {a:?}"), || json!({"sub": sub, "op": "neg", "operand": format!("{a:?}")}));
        }
    }
    // IntervalMonthDayNano
    let mut mdn = vec![];
    for (i, &m) in b32.iter().enumerate() {
        for (j, &n) in b64.iter().enumerate() {
            if i == 0 || j == 0 || (i + j) % 4 == 0 {
                mdn.push(IntervalMonthDayNano::new(m, b32[(i + j) % b32.len()], n));
            }
        }
    }
    for &a in &mdn {
        for &b in &mdn {
            st.add(sub, 1, 1);
            for k in 0..3 {
                let rm = ref32(a.months, b.months, k);
                let rd = ref32(a.days, b.days, k);
                let rn = ref64(a.nanoseconds, b.nanoseconds, k);
                let (chk, wr) = match k {
                    0 => (a.checked_add(b), a.wrapping_add(b)),
                    1 => (a.checked_sub(b), a.wrapping_sub(b)),
                    _ => (a.checked_mul(b), a.wrapping_mul(b)),
                };
                let (nchk, nwr) = match k {
                    0 => (a.add_checked(b).ok(), a.add_wrapping(b)),
                    1 => (a.sub_checked(b).ok(), a.sub_wrapping(b)),
                    _ => (a.mul_checked(b).ok(), a.mul_wrapping(b)),
                };
                let want_chk = match (rm.0, rd.0, rn.0) {
                    (Some(m), Some(d), Some(n)) => Some(IntervalMonthDayNano::new(m, d, n)),
                    _ => None,
                };
                let want_wr = IntervalMonthDayNano::new(rm.1, rd.1, rn.1);
                if chk != want_chk || wr != want_wr || nchk != want_chk || nwr != want_wr {
                    let opn = ["add", "sub", "mul"][k];
                    st.violate(0, format!("c12:interval:IntervalMonthDayNano:{opn}"), format!("IntervalMonthDayNano {opn}: {a:?} , {b:?}: checked {chk:?} / wrapping {wr:?}, field-wise reference {want_chk:?} / {want_wr:?}"), || {
                        json!({"sub": sub, "op": opn, "left": format!("{a:?}"), "right": format!("{b:?}")})
                    });
                }
            }
        }
        st.add(sub, 1, 1);
        let want = match (a.months.checked_neg(), a.days.checked_neg(), a.nanoseconds.checked_neg()) {
            (Some(m), Some(d), Some(n)) => Some(IntervalMonthDayNano::new(m, d, n)),
            _ => None,
        };
        if a.checked_neg() != want || a.neg_checked().ok() != want || a.wrapping_neg() != IntervalMonthDayNano::new(a.months.wrapping_neg(), a.days.wrapping_neg(), a.nanoseconds.wrapping_neg()) {
            st.violate(0, "c12:interval:IntervalMonthDayNano:neg", format!("IntervalMonthDayNano neg {a:?}"), || json!({"sub": sub, "op": "neg", "operand": format!("{a:?}")}));
        }
    }
    st.outcome("c12:interval:field-wise-agree");
}

// ---------------------------------------------------------------------------------------------
// float natives: total order comparison + IEEE ops

fn float_native<F: ArrowNativeTypeOp + Copy + std::fmt::Debug>(sub: &str, ty: &'static str, vals: &[F], key: fn(F) -> i64, st: &mut Stats) {
    for &a in vals {
        for &b in vals {
            st.add(sub, 1, 1);
            // IEEE-754 totalOrder == integer order of the sign-magnitude-to-two's-complement key
            let ord = key(a).cmp(&key(b));
            let ok = a.compare(b) == ord && a.is_eq(b) == (ord == Ordering::Equal) && a.is_ne(b) == (ord != Ordering::Equal) && a.is_lt(b) == ord.is_lt() && a.is_le(b) == ord.is_le() && a.is_gt(b) == ord.is_gt() && a.is_ge(b) == ord.is_ge();
            if !ok {
                st.violate(0, format!("c12:native:{ty}:total-order"), format!("{ty} compare/is_* disagree with IEEE totalOrder for {a:?}, {b:?}"), || json!({"sub": sub, "type": ty, "left": format!("{a:?}"), "right": format!("{b:?}")}));
            }
        }
        // documented identities of the min/max aggregation
        st.add(sub, 1, 1);
        if a.compare(F::MIN_TOTAL_ORDER).is_lt() || a.compare(F::MAX_TOTAL_ORDER).is_gt() {
            st.violate(0, format!("c12:native:{ty}:MIN/MAX_TOTAL_ORDER"), format!("{a:?} is outside [MIN_TOTAL_ORDER, MAX_TOTAL_ORDER]"), || json!({"sub": sub, "type": ty, "operand": format!("{a:?}")}));
        }
    }
    st.outcome(&format!("c12:native:{ty}:total-order-agrees"));
}
fn key_bits(bits: u64, width: u32) -> i64 {
    let sign = (bits >> (width - 1)) & 1;
    let mag = (bits & ((1u64 << (width - 1)) - 1)) as i64;
    if sign == 1 { -mag - 1 } else { mag }
}

pub fn run(ctx: &Ctx, st: &mut Stats, tick: &mut dyn FnMut(&str)) {
    st.merge(small_native::<i8>(ctx, "native-8bit-exhaustive", "i8", true));
    st.merge(small_native::<u8>(ctx, "native-8bit-exhaustive", "u8", true));
    let full16 = !ctx.quick();
    let s16 = if full16 { "native-16bit-full-square" } else { "native-16bit-x-boundary" };
    st.merge(small_native::<i16>(ctx, s16, "i16", full16));
    st.merge(small_native::<u16>(ctx, s16, "u16", full16));
    tick("native small");
    let mut s = Stats::new();
    lattice_native_fast::<i32>("native-lattice", "i32", &mut s);
    lattice_native_fast::<i64>("native-lattice", "i64", &mut s);
    lattice_native_fast::<u32>("native-lattice", "u32", &mut s);
    lattice_native_fast::<u64>("native-lattice", "u64", &mut s);
    {
        let l = lattice::<i128>(!ctx.quick());
        for (i, &a) in l.iter().enumerate() {
            for &b in &l {
                s.add("native-lattice", 1, 1);
                report(&mut s, "native-lattice", "i128", native_big(a, b), format!("{a:?}"), format!("{b:?}"), i as u64);
            }
            s.add("native-lattice", 1, 1);
            report(&mut s, "native-lattice", "i128", native_big_unary(a), format!("{a:?}"), "-".into(), i as u64);
        }
    }
    interval_units(&mut s);
    {
        let v64: Vec<f64> = [0.0f64, 1.0, f64::MIN_POSITIVE, f64::from_bits(1), f64::MAX, f64::INFINITY, f64::NAN, f64::from_bits(0x7FF0_0000_0000_0001), f64::from_bits(u64::MAX >> 1)].iter().flat_map(|x| [*x, -*x]).collect();
        float_native::<f64>("native-lattice", "f64", &v64, |x| key_bits(x.to_bits(), 64), &mut s);
        let v32: Vec<f32> = [0.0f32, 1.0, f32::MIN_POSITIVE, f32::from_bits(1), f32::MAX, f32::INFINITY, f32::NAN, f32::from_bits(0x7F80_0001), f32::from_bits(u32::MAX >> 1)].iter().flat_map(|x| [*x, -*x]).collect();
        float_native::<f32>("native-lattice", "f32", &v32, |x| key_bits(x.to_bits() as u64, 32), &mut s);
        let v16: Vec<f16> = [0u16, 0x3C00, 0x0400, 1, 0x7BFF, 0x7C00, 0x7E00, 0x7C01, 0x7FFF].iter().flat_map(|x| [f16::from_bits(*x), f16::from_bits(*x | 0x8000)]).collect();
        float_native::<f16>("native-lattice", "f16", &v16, |x| key_bits(x.to_bits() as u64, 16), &mut s);
    }
    st.merge(s);
    tick("native lattice/interval");
    st.merge(i256_units(ctx));
    tick("i256");
}
