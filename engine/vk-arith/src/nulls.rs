//! Null handling of the element-wise kernels: every validity pattern {valid,null}^n (n<=3, plus word-boundary
//! families at n = 64, 65, 130) on both operands, in array/array, array/scalar and scalar/array form, at slice
//! offsets 0, 1 and 3 (different on the two sides), with overflow- / division-by-zero-provoking garbage stored
//! under every null slot. Oracle: the call succeeds, the result is null exactly where an operand is null (for a
//! null scalar: everywhere) and carries the exact value elsewhere.
use crate::core::*;
use crate::dec::{PS, exact_value, result_type};
use crate::ints::{int_kernel, same_eq, same_float};
use crate::refm::*;
use crate::temporal::{Iv, day_interval, ts_interval};
use arrow_arith::numeric;
use arrow_array::types::*;
use arrow_array::{ArrowPrimitiveType, PrimitiveArray, Scalar};
use arrow_buffer::{IntervalDayTime, IntervalMonthDayNano};
use arrow_schema::{DataType, IntervalUnit, TimeUnit};
use std::sync::Arc;
use vcore::serde_json::json;
use vcore::{Ctx, Stats, catch, par_for};

/// validity patterns: all of {0,1}^n for n<=3, boundary families for long n
fn patterns(n: usize) -> Vec<Vec<bool>> {
    if n <= 3 {
        (0..(1u32 << n)).map(|m| (0..n).map(|i| (m >> i) & 1 == 1).collect()).collect()
    } else {
        let mut v = vec![vec![true; n], vec![false; n], (0..n).map(|i| i % 2 == 0).collect(), (0..n).map(|i| i % 2 == 1).collect()];
        for p in [0, 1, 62, 63, 64, 65, n - 2, n - 1] {
            if p < n {
                let mut x = vec![true; n];
                x[p] = false;
                v.push(x.clone());
                let mut y = vec![false; n];
                y[p] = true;
                v.push(y);
            }
        }
        v.dedup();
        v
    }
}

struct NullFam<'a, L: ArrowPrimitiveType, R: ArrowPrimitiveType, O: ArrowPrimitiveType> {
    spec: BinSpec<'a, L, R, O>,
    /// benign operands (cycled), all combinations must be Ok-expected
    lgood: Vec<L::Native>,
    rgood: Vec<R::Native>,
    /// garbage stored under null slots: any pairing of a garbage value with anything would error
    lbad: L::Native,
    rbad: R::Native,
}

fn build<T: ArrowPrimitiveType>(good: &[T::Native], bad: T::Native, valid: &[bool], dt: &DataType, off: usize, with_buffer: bool) -> PrimitiveArray<T> {
    let vals: Vec<T::Native> = valid.iter().enumerate().map(|(i, v)| if *v { good[i % good.len()] } else { bad }).collect();
    if with_buffer { mk_nulls::<T>(&vals, valid, dt, off, bad) } else { mk::<T>(&vals, dt, off, bad) }
}

fn null_family<L: ArrowPrimitiveType, R: ArrowPrimitiveType, O: ArrowPrimitiveType>(fam: &NullFam<L, R, O>, ns: &[usize], order: u64, st: &mut Stats) {
    let spec = &fam.spec;
    let sub = spec.sub;
    let fp = |k: &str| format!("{}:nulls:{}", spec.fp, k);
    for &n in ns {
        let pats = patterns(n);
        for lp in &pats {
            for rp in &pats {
                for form in Form::ALL {
                    // scalar operand validity: the first bit of its pattern; skip duplicates
                    if form == Form::AS && rp[1..].iter().any(|b| *b != rp[0]) {
                        continue;
                    }
                    if form == Form::SA && lp[1..].iter().any(|b| *b != lp[0]) {
                        continue;
                    }
                    for (lo, ro) in [(0usize, 0usize), (1, 3), (3, 0)] {
                        // a side without any null is also exercised without a validity buffer at all
                        let l_all = lp.iter().all(|b| *b);
                        let r_all = rp.iter().all(|b| *b);
                        let lbuf = !(l_all && lo == 0);
                        let rbuf = !(r_all && ro == 0);
                        let case = || json!({"sub": sub, "kernel": spec.label, "form": form.name(), "n": n, "left_valid": lp, "right_valid": rp, "left_offset": lo, "right_offset": ro});
                        let r = catch(|| match form {
                            Form::AA => {
                                let l = build::<L>(&fam.lgood, fam.lbad, lp, &spec.ldt, lo, lbuf);
                                let r = build::<R>(&fam.rgood, fam.rbad, rp, &spec.rdt, ro, rbuf);
                                (spec.kernel)(&l, &r)
                            }
                            Form::AS => {
                                let l = build::<L>(&fam.lgood, fam.lbad, lp, &spec.ldt, lo, lbuf);
                                let r = Scalar::new(build::<R>(&fam.rgood, fam.rbad, &rp[..1], &spec.rdt, ro, true));
                                (spec.kernel)(&l, &r)
                            }
                            Form::SA => {
                                let l = Scalar::new(build::<L>(&fam.lgood, fam.lbad, &lp[..1], &spec.ldt, lo, true));
                                let r = build::<R>(&fam.rgood, fam.rbad, rp, &spec.rdt, ro, rbuf);
                                (spec.kernel)(&l, &r)
                            }
                        });
                        st.add(sub, 1, (!(l_all && r_all)) as u64);
                        if n == 3 && lo == 1 {
                            st.sample(sub, case);
                        }
                        let arr = match r {
                            Err(p) => {
                                st.violate(order, fp(&p.fingerprint()), format!("{}: panic {p:?}", spec.label), case);
                                continue;
                            }
                            Ok(Err(e)) => {
                                st.violate(order, fp("error-from-null-slot"), format!("{} ({}): Err({e}) although every non-null pair is benign: the error stems from a value under a null slot; left valid {lp:?} right valid {rp:?}", spec.label, form.name()), case);
                                continue;
                            }
                            Ok(Ok(a)) => a,
                        };
                        let got = match inspect::<O>(&arr, &spec.odt, n) {
                            CallOut::Vals(v) => v,
                            CallOut::Bad(k, m) => {
                                st.violate(order, fp(&k), format!("{} ({}): {m}", spec.label, form.name()), case);
                                continue;
                            }
                            CallOut::Err(..) => unreachable!(),
                        };
                        let mut ok = true;
                        for i in 0..n {
                            let lv = if form == Form::SA { lp[0] } else { lp[i] };
                            let rv = if form == Form::AS { rp[0] } else { rp[i] };
                            let li = if form == Form::SA { 0 } else { i };
                            let ri = if form == Form::AS { 0 } else { i };
                            let want = if lv && rv {
                                match (spec.expect)(fam.lgood[li % fam.lgood.len()], fam.rgood[ri % fam.rgood.len()]) {
                                    Exp::Val(v) => Some(v),
                                    other => panic!("harness: benign operands of {} are not Ok-expected: {other:?}", spec.label),
                                }
                            } else {
                                None
                            };
                            let same = match (got[i], want) {
                                (None, None) => true,
                                (Some(g), Some(w)) => (spec.same)(g, w),
                                _ => false,
                            };
                            if !same && ok {
                                ok = false;
                                let k = if got[i].is_some() != want.is_some() { "validity-mismatch" } else { "wrong-value" };
                                st.violate(order, fp(k), format!("{} ({}): row {i}: got {:?}, expected {:?}; left valid {lp:?} right valid {rp:?} offsets {lo}/{ro}", spec.label, form.name(), got[i], want), case);
                            }
                        }
                        if ok {
                            st.outcome(if l_all && r_all { "c12:nulls:no-nulls-ok" } else if got.iter().all(|g| g.is_none()) { "c12:nulls:all-null-result" } else { "c12:nulls:mixed-result" });
                        }
                    }
                }
            }
        }
    }
}

fn unary_nulls<T: ArrowPrimitiveType>(us: &UnSpec<T>, good: &[T::Native], bad: T::Native, ns: &[usize], st: &mut Stats) {
    for &n in ns {
        for p in patterns(n) {
            for off in [0usize, 1, 3] {
                let case = || json!({"sub": us.sub, "kernel": us.label, "n": n, "valid": p, "offset": off});
                st.add(us.sub, 1, 1);
                let r = catch(|| (us.kernel)(&build::<T>(good, bad, &p, &us.dt, off, true)));
                let fp = |k: &str| format!("{}:nulls:{}", us.fp, k);
                match r {
                    Err(pn) => st.violate(0, fp(&pn.fingerprint()), format!("{pn:?}"), case),
                    Ok(Err(e)) => st.violate(0, fp("error-from-null-slot"), format!("{}: Err({e}) from a value under a null slot; valid {p:?}", us.label), case),
                    Ok(Ok(a)) => match inspect::<T>(&a, &us.dt, n) {
                        CallOut::Vals(v) => {
                            let good_ = (0..n).all(|i| match (v[i], p[i]) {
                                (None, false) => true,
                                (Some(g), true) => matches!((us.expect)(good[i % good.len()]), Exp::Val(w) if (us.same)(g, w)),
                                _ => false,
                            });
                            if good_ {
                                st.outcome("c12:nulls:unary-ok");
                            } else {
                                st.violate(0, fp("validity-mismatch"), format!("{}: got {v:?} for valid {p:?}", us.label), case);
                            }
                        }
                        CallOut::Bad(k, m) => st.violate(0, fp(&k), m, case),
                        CallOut::Err(..) => unreachable!(),
                    },
                }
            }
        }
    }
}

macro_rules! int_fam {
    ($T:ty, $sub:expr, $ns:expr, $idx:expr, $st:expr) => {{
        for op in IOp::ALL {
            let ex = move |a, b| int_expect(op, a, b);
            type N = <$T as ArrowPrimitiveType>::Native;
            let fam = NullFam::<$T, $T, $T> {
                spec: BinSpec {
                    sub: $sub,
                    fp: format!("c12:int:{}", op.name()),
                    label: format!("{} {}", <$T>::DATA_TYPE, op.name()),
                    kernel: int_kernel(op),
                    ldt: <$T>::DATA_TYPE,
                    rdt: <$T>::DATA_TYPE,
                    odt: <$T>::DATA_TYPE,
                    expect: &ex,
                    same: same_eq::<N>,
                    lgarbage: N::MIN,
                    rgarbage: 0,
                    collapse: false,
                },
                lgood: vec![6, 7, 9],
                rgood: vec![3, 2, 1],
                lbad: if N::MIN == 0 { N::MAX } else { N::MIN },
                // right garbage: 0 provokes division by zero, MAX overflow of + - *; for signed div: -1 with MIN
                rbad: match op {
                    IOp::Div | IOp::Rem => 0,
                    _ => N::MAX,
                },
            };
            null_family(&fam, $ns, $idx, $st);
        }
    }};
}

pub fn run(ctx: &Ctx, st: &mut Stats, tick: &mut dyn FnMut(&str)) {
    let sub = "null-patterns";
    let ns_small: Vec<usize> = vec![1, 2, 3];
    let ns_all: Vec<usize> = vec![1, 2, 3, 64, 65, 130];
    st.merge(par_for(ctx, sub, 12, 1, |idx, st| {
        let ns: &[usize] = if ctx.quick() && idx >= 4 { &ns_small } else { &ns_all };
        match idx {
            0 => int_fam!(Int8Type, sub, ns, idx, st),
            1 => int_fam!(Int32Type, sub, ns, idx, st),
            2 => int_fam!(Int64Type, sub, ns, idx, st),
            3 => int_fam!(UInt16Type, sub, ns, idx, st),
            4 => {
                // signed MIN / -1 under null slots
                for op in [IOp::Div, IOp::Rem] {
                    let ex = move |a, b| int_expect(op, a, b);
                    let fam = NullFam::<Int16Type, Int16Type, Int16Type> {
                        spec: BinSpec { sub, fp: format!("c12:int:{}", op.name()), label: format!("Int16 {} (MIN/-1 garbage)", op.name()), kernel: int_kernel(op), ldt: DataType::Int16, rdt: DataType::Int16, odt: DataType::Int16, expect: &ex, same: same_eq::<i16>, lgarbage: i16::MIN, rgarbage: -1, collapse: false },
                        lgood: vec![i16::MIN, 7, -9],
                        rgood: vec![3, -2, 1],
                        lbad: i16::MIN,
                        rbad: -1,
                    };
                    null_family(&fam, ns, idx, st);
                }
                // floats never error; the null rule still applies
                for op in [IOp::Div, IOp::Rem, IOp::Add] {
                    let ex = move |a: f64, b: f64| {
                        Exp::Val(match op {
                            IOp::Div => a / b,
                            IOp::Rem => a % b,
                            _ => a + b,
                        })
                    };
                    let fam = NullFam::<Float64Type, Float64Type, Float64Type> {
                        spec: BinSpec { sub, fp: format!("c12:float:{}", op.name()), label: format!("Float64 {}", op.name()), kernel: int_kernel(op), ldt: DataType::Float64, rdt: DataType::Float64, odt: DataType::Float64, expect: &ex, same: same_float::<f64>, lgarbage: f64::NAN, rgarbage: 0.0, collapse: false },
                        lgood: vec![6.5, -0.0, f64::INFINITY],
                        rgood: vec![0.0, 2.0, f64::NAN],
                        lbad: f64::NAN,
                        rbad: 0.0,
                    };
                    null_family(&fam, ns, idx, st);
                }
            }
            5 => {
                // decimals: values under null slots would overflow the rescaling multiplication / divide by zero
                let (ta, tb) = (PS(20, 2), PS(18, 4));
                for op in [IOp::Add, IOp::Sub, IOp::Mul, IOp::Div, IOp::Rem] {
                    let res = result_type(op, ta, tb, 38, 38).unwrap().unwrap();
                    let ex = move |l: i128, r: i128| match exact_value(op, ta, tb, res.1 as i32, &num_bigint::BigInt::from(l), &num_bigint::BigInt::from(r)) {
                        Some(v) => Exp::Val(i128::from_big(&v).unwrap()),
                        None => Exp::Err,
                    };
                    let fam = NullFam::<Decimal128Type, Decimal128Type, Decimal128Type> {
                        spec: BinSpec {
                            sub,
                            fp: format!("c12:decimal:{}", op.name()),
                            label: format!("Decimal128(20,2) {} Decimal128(18,4)", op.name()),
                            kernel: int_kernel(op),
                            ldt: DataType::Decimal128(20, 2),
                            rdt: DataType::Decimal128(18, 4),
                            odt: DataType::Decimal128(res.0, res.1),
                            expect: &ex,
                            same: same_eq::<i128>,
                            lgarbage: i128::MIN,
                            rgarbage: 0,
                            collapse: false,
                        },
                        lgood: vec![12345, -700, 99],
                        rgood: vec![30000, -25, 7],
                        lbad: i128::MIN,
                        rbad: if matches!(op, IOp::Div | IOp::Rem) { 0 } else { i128::MAX },
                    };
                    null_family(&fam, ns, idx, st);
                }
            }
            6 => {
                for op in [IOp::Add, IOp::Sub] {
                    let ex = move |a, b| int_expect(op, a, b);
                    let dt = DataType::Duration(TimeUnit::Millisecond);
                    let fam = NullFam::<DurationMillisecondType, DurationMillisecondType, DurationMillisecondType> {
                        spec: BinSpec { sub, fp: format!("c12:duration:{}", op.name()), label: format!("Duration(ms) {}", op.name()), kernel: int_kernel(op), ldt: dt.clone(), rdt: dt.clone(), odt: dt.clone(), expect: &ex, same: same_eq::<i64>, lgarbage: i64::MIN, rgarbage: i64::MAX, collapse: false },
                        lgood: vec![6, -7, 9],
                        rgood: vec![3, 2, -1],
                        lbad: if op == IOp::Add { i64::MAX } else { i64::MIN },
                        rbad: i64::MAX,
                    };
                    null_family(&fam, ns, idx, st);
                }
            }
            7 => {
                // timestamp +/- interval: garbage = out-of-range timestamp / interval
                for add in [true, false] {
                    let sign = if add { 1 } else { -1 };
                    let ex = move |t: i64, i: IntervalMonthDayNano| ts_interval(t, 1_000_000, 19800, Iv { months: i.months as i128, days: i.days as i128, ns: i.nanoseconds as i128 }, sign);
                    let tsdt = DataType::Timestamp(TimeUnit::Millisecond, Some(Arc::from("+05:30")));
                    let ivdt = DataType::Interval(IntervalUnit::MonthDayNano);
                    let fam = NullFam::<TimestampMillisecondType, IntervalMonthDayNanoType, TimestampMillisecondType> {
                        spec: BinSpec { sub, fp: format!("c12:timestamp:{}-interval", if add { "add" } else { "sub" }), label: format!("{tsdt} {} {ivdt}", if add { "add" } else { "sub" }), kernel: if add { numeric::add } else { numeric::sub }, ldt: tsdt.clone(), rdt: ivdt, odt: tsdt.clone(), expect: &ex, same: same_eq::<i64>, lgarbage: i64::MAX, rgarbage: IntervalMonthDayNano::new(i32::MAX, i32::MAX, i64::MAX), collapse: false },
                        lgood: vec![1_580_472_000_123, -1, 951_868_799_999],
                        rgood: vec![IntervalMonthDayNano::new(1, 1, 1_000_000), IntervalMonthDayNano::new(-13, 0, -1), IntervalMonthDayNano::new(0, 31, 86_400_000_000_000)],
                        lbad: i64::MAX,
                        rbad: IntervalMonthDayNano::new(i32::MAX, i32::MAX, i64::MAX),
                    };
                    null_family(&fam, ns, idx, st);
                }
            }
            8 => {
                for add in [true, false] {
                    let sign = if add { 1 } else { -1 };
                    let ex = move |d: i32, i: IntervalDayTime| {
                        let (r, safe) = day_interval(d as i128, Iv { months: 0, days: i.days as i128, ns: i.milliseconds as i128 * 1_000_000 }, sign);
                        assert!(safe);
                        Exp::Val(r as i32)
                    };
                    let ivdt = DataType::Interval(IntervalUnit::DayTime);
                    let fam = NullFam::<Date32Type, IntervalDayTimeType, Date32Type> {
                        spec: BinSpec { sub, fp: format!("c12:date:{}-interval", if add { "add" } else { "sub" }), label: format!("Date32 {} {ivdt}", if add { "add" } else { "sub" }), kernel: if add { numeric::add } else { numeric::sub }, ldt: DataType::Date32, rdt: ivdt, odt: DataType::Date32, expect: &ex, same: same_eq::<i32>, lgarbage: i32::MAX, rgarbage: IntervalDayTime::new(i32::MAX, i32::MAX), collapse: false },
                        lgood: vec![18322, -1, 0],
                        rgood: vec![IntervalDayTime::new(1, 1), IntervalDayTime::new(-31, 86_400_000), IntervalDayTime::new(0, -1)],
                        lbad: i32::MAX,
                        rbad: IntervalDayTime::new(i32::MAX, i32::MAX),
                    };
                    null_family(&fam, ns, idx, st);
                }
            }
            9 => {
                for add in [true, false] {
                    let ex = move |a: IntervalMonthDayNano, b: IntervalMonthDayNano| {
                        let s = if add { 1 } else { -1 };
                        Exp::Val(IntervalMonthDayNano::new(a.months + s * b.months, a.days + s * b.days, a.nanoseconds + s as i64 * b.nanoseconds))
                    };
                    let dt = DataType::Interval(IntervalUnit::MonthDayNano);
                    let fam = NullFam::<IntervalMonthDayNanoType, IntervalMonthDayNanoType, IntervalMonthDayNanoType> {
                        spec: BinSpec { sub, fp: format!("c12:interval:{}", if add { "add" } else { "sub" }), label: format!("Interval(MonthDayNano) {}", if add { "add" } else { "sub" }), kernel: if add { numeric::add } else { numeric::sub }, ldt: dt.clone(), rdt: dt.clone(), odt: dt.clone(), expect: &ex, same: same_eq::<IntervalMonthDayNano>, lgarbage: IntervalMonthDayNano::new(i32::MIN, 0, 0), rgarbage: IntervalMonthDayNano::new(i32::MAX, 0, 0), collapse: false },
                        lgood: vec![IntervalMonthDayNano::new(1, 2, 3), IntervalMonthDayNano::new(-1, 0, 5)],
                        rgood: vec![IntervalMonthDayNano::new(4, -5, 6)],
                        lbad: if add { IntervalMonthDayNano::new(i32::MAX, i32::MAX, i64::MAX) } else { IntervalMonthDayNano::new(i32::MIN, i32::MIN, i64::MIN) },
                        rbad: IntervalMonthDayNano::new(i32::MAX, i32::MAX, i64::MAX),
                    };
                    null_family(&fam, ns, idx, st);
                }
            }
            10 => {
                let ex = |a: IntervalDayTime, f: i64| Exp::Val(IntervalDayTime::new((a.days as i64 * f) as i32, (a.milliseconds as i64 * f) as i32));
                let dt = DataType::Interval(IntervalUnit::DayTime);
                let fam = NullFam::<IntervalDayTimeType, Int64Type, IntervalDayTimeType> {
                    spec: BinSpec { sub, fp: "c12:interval:mul-int64".into(), label: "Interval(DayTime) mul Int64".into(), kernel: numeric::mul, ldt: dt.clone(), rdt: DataType::Int64, odt: dt.clone(), expect: &ex, same: same_eq::<IntervalDayTime>, lgarbage: IntervalDayTime::new(i32::MAX, 0), rgarbage: i64::MAX, collapse: false },
                    lgood: vec![IntervalDayTime::new(1, 2), IntervalDayTime::new(-3, 4)],
                    rgood: vec![2, -3, 0],
                    lbad: IntervalDayTime::new(i32::MAX, i32::MAX),
                    rbad: i64::MAX,
                };
                null_family(&fam, ns, idx, st);
            }
            _ => {
                // unary
                let ex = |a: i32| if a == i32::MIN { Exp::Err } else { Exp::Val(-a) };
                let us = UnSpec::<Int32Type> { sub, fp: "c12:int:neg".into(), label: "Int32 neg".into(), kernel: numeric::neg, dt: DataType::Int32, expect: &ex, same: same_eq::<i32>, garbage: i32::MIN };
                unary_nulls(&us, &[5, -6, i32::MAX], i32::MIN, ns, st);
                let ex = |a: i128| if a == i128::MIN { Exp::Err } else { Exp::Val(-a) };
                let us = UnSpec::<Decimal128Type> { sub, fp: "c12:decimal:neg".into(), label: "Decimal128 neg".into(), kernel: numeric::neg, dt: DataType::Decimal128(38, 10), expect: &ex, same: same_eq::<i128>, garbage: i128::MIN };
                unary_nulls(&us, &[5, -6, 7], i128::MIN, ns, st);
                let ex = |a: IntervalDayTime| Exp::Val(IntervalDayTime::new(-a.days, -a.milliseconds));
                let us = UnSpec::<IntervalDayTimeType> { sub, fp: "c12:interval:neg".into(), label: "Interval(DayTime) neg".into(), kernel: numeric::neg, dt: DataType::Interval(IntervalUnit::DayTime), expect: &ex, same: same_eq::<IntervalDayTime>, garbage: IntervalDayTime::new(i32::MIN, i32::MIN) };
                unary_nulls(&us, &[IntervalDayTime::new(1, -2)], IntervalDayTime::new(i32::MIN, i32::MIN), ns, st);
                let ex = |a: i64| if a == i64::MIN { Exp::Err } else { Exp::Val(-a) };
                let us = UnSpec::<DurationSecondType> { sub, fp: "c12:duration:neg".into(), label: "Duration(s) neg".into(), kernel: numeric::neg_wrapping, dt: DataType::Duration(TimeUnit::Second), expect: &ex, same: same_eq::<i64>, garbage: i64::MIN };
                unary_nulls(&us, &[5, -6], i64::MIN, ns, st);
            }
        }
    }));
    tick("nulls");
}
