//! Reference arithmetic: exact integer models (i128 for widths <= 64, num-bigint beyond) and the
//! boundary lattices. Nothing here calls into arrow's arithmetic.
use arrow_buffer::i256;
use num_bigint::{BigInt, Sign};
use std::fmt::Debug;

/// What the oracle demands of one element-wise evaluation.
#[derive(Clone, Debug, PartialEq)]
pub enum Exp<N> {
    /// must succeed with exactly this value
    Val(N),
    /// must be reported as an error
    Err,
    /// the documentation does not fix whether this input errors (input outside the documented domain,
    /// e.g. outside chrono's calendar range or a decimal beyond its declared precision); if the call
    /// succeeds the value must be exactly this one
    Any(N),
    /// as `Any`, but no value is pinned either (only well-formedness / no panic is demanded)
    Free,
}

/// Fixed-width integer natives of at most 64 bits, modelled in i128.
pub trait IntN: Copy + Debug + PartialEq + Send + Sync + 'static {
    const BITS: u32;
    const SIGNED: bool;
    fn to_i128(self) -> i128;
    /// reduction modulo 2^BITS into the type's range
    fn wrap(v: i128) -> Self;
    fn min_i() -> i128;
    fn max_i() -> i128;
    fn fits(v: i128) -> bool {
        v >= Self::min_i() && v <= Self::max_i()
    }
}
macro_rules! int_n {
    ($($t:ty, $signed:expr);*) => {$(
        impl IntN for $t {
            const BITS: u32 = <$t>::BITS;
            const SIGNED: bool = $signed;
            fn to_i128(self) -> i128 { self as i128 }
            fn wrap(v: i128) -> Self { v as $t }
            fn min_i() -> i128 { <$t>::MIN as i128 }
            fn max_i() -> i128 { <$t>::MAX as i128 }
        }
    )*};
}
int_n!(i8, true; i16, true; i32, true; i64, true; u8, false; u16, false; u32, false; u64, false);

#[derive(Clone, Copy, Debug, PartialEq, Eq)]
pub enum IOp {
    Add,
    Sub,
    Mul,
    Div,
    Rem,
    AddW,
    SubW,
    MulW,
}
impl IOp {
    pub const ALL: [IOp; 8] = [IOp::Add, IOp::Sub, IOp::Mul, IOp::Div, IOp::Rem, IOp::AddW, IOp::SubW, IOp::MulW];
    pub fn name(self) -> &'static str {
        match self {
            IOp::Add => "add",
            IOp::Sub => "sub",
            IOp::Mul => "mul",
            IOp::Div => "div",
            IOp::Rem => "rem",
            IOp::AddW => "add_wrapping",
            IOp::SubW => "sub_wrapping",
            IOp::MulW => "mul_wrapping",
        }
    }
}

/// Exact integer semantics of the documented kernels on a <=64 bit integer type:
/// checked ops: exact value if representable else Err; div/rem by zero Err; `MIN % -1 == 0`;
/// wrapping ops: exact value modulo 2^BITS.
pub fn int_expect<N: IntN>(op: IOp, a: N, b: N) -> Exp<N> {
    let (x, y) = (a.to_i128(), b.to_i128());
    // |x|,|y| < 2^64 so x*y may exceed i128 only for u64*u64; use checked/wrapping accordingly
    let exact: Option<i128> = match op {
        IOp::Add | IOp::AddW => Some(x + y),
        IOp::Sub | IOp::SubW => Some(x - y),
        IOp::Mul | IOp::MulW => x.checked_mul(y),
        IOp::Div => {
            if y == 0 {
                return Exp::Err;
            }
            Some(x / y)
        }
        IOp::Rem => {
            if y == 0 {
                return Exp::Err;
            }
            Some(x % y)
        }
    };
    match op {
        IOp::AddW | IOp::SubW => Exp::Val(N::wrap(exact.unwrap())),
        IOp::MulW => Exp::Val(N::wrap(x.wrapping_mul(y))), // (x*y mod 2^128) mod 2^BITS == x*y mod 2^BITS
        _ => match exact {
            Some(v) if N::fits(v) => Exp::Val(N::wrap(v)),
            _ => Exp::Err,
        },
    }
}

// ---------------------------------------------------------------------------------------------
// Wide integers through BigInt

pub trait BigN: Copy + Debug + PartialEq + Send + Sync + 'static {
    const BITS: u32;
    const SIGNED: bool;
    fn to_big(self) -> BigInt;
    /// reduction modulo 2^BITS
    fn wrap_big(v: &BigInt) -> Self;
    fn min_big() -> BigInt {
        if Self::SIGNED { -(BigInt::from(1) << (Self::BITS - 1)) } else { BigInt::from(0) }
    }
    fn max_big() -> BigInt {
        if Self::SIGNED { (BigInt::from(1) << (Self::BITS - 1)) - 1 } else { (BigInt::from(1) << Self::BITS) - 1 }
    }
    fn fits_big(v: &BigInt) -> bool {
        *v >= Self::min_big() && *v <= Self::max_big()
    }
    fn from_big(v: &BigInt) -> Option<Self> {
        if Self::fits_big(v) { Some(Self::wrap_big(v)) } else { None }
    }
}
fn low_bytes_le(v: &BigInt, n: usize) -> Vec<u8> {
    // two's complement little endian, sign extended / truncated to n bytes
    let mut b = v.to_signed_bytes_le();
    let ext = if v.sign() == Sign::Minus { 0xFF } else { 0 };
    b.resize(n.max(b.len()), ext);
    b.truncate(n);
    b
}
macro_rules! big_n {
    ($($t:ty, $signed:expr);*) => {$(
        impl BigN for $t {
            const BITS: u32 = <$t>::BITS;
            const SIGNED: bool = $signed;
            fn to_big(self) -> BigInt { BigInt::from(self) }
            fn wrap_big(v: &BigInt) -> Self {
                let b = low_bytes_le(v, std::mem::size_of::<$t>());
                <$t>::from_le_bytes(b.try_into().unwrap())
            }
        }
    )*};
}
big_n!(i8, true; i16, true; i32, true; i64, true; i128, true; u8, false; u16, false; u32, false; u64, false);
impl BigN for i256 {
    const BITS: u32 = 256;
    const SIGNED: bool = true;
    fn to_big(self) -> BigInt {
        let (lo, hi) = self.to_parts();
        (BigInt::from(hi) << 128) + BigInt::from(lo)
    }
    fn wrap_big(v: &BigInt) -> Self {
        let b = low_bytes_le(v, 32);
        let lo = u128::from_le_bytes(b[..16].try_into().unwrap());
        let hi = i128::from_le_bytes(b[16..].try_into().unwrap());
        i256::from_parts(lo, hi)
    }
}

pub fn pow10(k: u32) -> BigInt {
    BigInt::from(10).pow(k)
}

// ---------------------------------------------------------------------------------------------
// Boundary lattices

fn isqrt(n: &BigInt) -> BigInt {
    n.sqrt()
}

/// The boundary lattice for an integer type of `bits` width: 0, +-1, +-2, +-3, +-7, +-10, MIN, MIN+1, MAX, MAX-1,
/// +-2^k+-1 and +-2^k for k in KS, +-floor(sqrt(MAX))+{-1,0,1}, 10^d and 10^d+-1 for the two largest d that fit
/// (and their negatives), MAX/2, MAX/3, MAX/10. `dense` adds +-2^k+{-1,0,1} and +-3*2^k for every k < bits and
/// every power of ten. Values outside the type's range are dropped; the list is sorted and deduplicated.
pub fn lattice_big(bits: u32, signed: bool, dense: bool) -> Vec<BigInt> {
    let one = BigInt::from(1);
    let max: BigInt = if signed { (&one << (bits - 1)) - 1 } else { (&one << bits) - 1 };
    let min: BigInt = if signed { -(&one << (bits - 1)) } else { BigInt::from(0) };
    let mut v: Vec<BigInt> = vec![];
    for s in [0i64, 1, 2, 3, 7, 10, 100] {
        v.push(BigInt::from(s));
        v.push(BigInt::from(-s));
    }
    v.push(max.clone());
    v.push(&max - 1);
    v.push(min.clone());
    v.push(&min + 1);
    let ks: Vec<u32> = if dense { (1..bits).collect() } else { vec![7, 8, 15, 16, 31, 32, 63, 64, 127, 128, 255] };
    for k in ks {
        if k >= bits {
            continue;
        }
        let p: BigInt = &one << k;
        for d in [-1i64, 0, 1] {
            v.push(&p + d);
            v.push(-(&p + d));
        }
        if dense {
            let p3: BigInt = &p * 3;
            v.push(p3.clone());
            v.push(-p3);
        }
    }
    let r = isqrt(&max);
    for d in [-1i64, 0, 1] {
        v.push(&r + d);
        v.push(-(&r + d));
    }
    // powers of ten
    let mut d = 0u32;
    let mut tens = vec![];
    loop {
        let p = pow10(d);
        if p > max {
            break;
        }
        tens.push(p);
        d += 1;
    }
    let take = if dense { tens.len() } else { 2.min(tens.len()) };
    for p in tens.iter().rev().take(take) {
        for dd in [-1i64, 0, 1] {
            v.push(p + dd);
            v.push(-(p + dd));
        }
    }
    for q in [2, 3, 10] {
        let mq: BigInt = &max / q;
        v.push(mq.clone());
        v.push(-mq.clone());
        v.push(mq + 1);
    }
    v.retain(|x| *x >= min && *x <= max);
    v.sort();
    v.dedup();
    v
}

pub fn lattice<N: BigN>(dense: bool) -> Vec<N> {
    lattice_big(N::BITS, N::SIGNED, dense).iter().map(|b| N::from_big(b).unwrap()).collect()
}

/// 40-value boundary set for the 16-bit types (other operand of the exhaustive sweep)
pub fn boundary16<N: BigN>() -> Vec<N> {
    let mut v: Vec<BigInt> = vec![];
    let max = N::max_big();
    let min = N::min_big();
    for s in [0i64, 1, 2, 3, 7, 10, 127, 128, 129, 181, 182, 255, 256, 257, 1000, 10000, 16383, 16384, 32766, 32767, 32768, 32769, 65534, 65535] {
        v.push(BigInt::from(s));
        v.push(BigInt::from(-s));
    }
    v.push(max.clone());
    v.push(&max - 1);
    v.push(&max / 2);
    v.push(&max / 3);
    v.push(min.clone());
    v.push(&min + 1);
    v.retain(|x| *x >= min && *x <= max);
    v.sort();
    v.dedup();
    v.iter().map(|b| N::from_big(b).unwrap()).collect()
}

// ---------------------------------------------------------------------------------------------
// Proleptic Gregorian calendar (independent of chrono): Howard Hinnant's civil algorithms on i128

pub fn days_from_civil(y: i128, m: i128, d: i128) -> i128 {
    let y = if m <= 2 { y - 1 } else { y };
    let era = y.div_euclid(400);
    let yoe = y - era * 400;
    let mp = (m + 9) % 12;
    let doy = (153 * mp + 2) / 5 + d - 1;
    let doe = yoe * 365 + yoe / 4 - yoe / 100 + doy;
    era * 146097 + doe - 719468
}
pub fn civil_from_days(z: i128) -> (i128, i128, i128) {
    let z = z + 719468;
    let era = z.div_euclid(146097);
    let doe = z - era * 146097;
    let yoe = (doe - doe / 1460 + doe / 36524 - doe / 146096) / 365;
    let y = yoe + era * 400;
    let doy = doe - (365 * yoe + yoe / 4 - yoe / 100);
    let mp = (5 * doy + 2) / 153;
    let d = doy - (153 * mp + 2) / 5 + 1;
    let m = if mp < 10 { mp + 3 } else { mp - 9 };
    (if m <= 2 { y + 1 } else { y }, m, d)
}
pub fn is_leap(y: i128) -> bool {
    (y % 4 == 0 && y % 100 != 0) || y % 400 == 0
}
pub fn days_in_month(y: i128, m: i128) -> i128 {
    match m {
        1 | 3 | 5 | 7 | 8 | 10 | 12 => 31,
        4 | 6 | 9 | 11 => 30,
        _ => {
            if is_leap(y) {
                29
            } else {
                28
            }
        }
    }
}
/// shift a day number by calendar months, clamping the day of month to the target month's length
pub fn add_months_days(day: i128, months: i128) -> i128 {
    let (y, m, d) = civil_from_days(day);
    let t = y * 12 + (m - 1) + months;
    let (ny, nm) = (t.div_euclid(12), t.rem_euclid(12) + 1);
    let nd = d.min(days_in_month(ny, nm));
    days_from_civil(ny, nm, nd)
}
