//! Replay of a recorded violating case: element-wise kernel cases are rebuilt from the type / value strings in the
//! replay file and re-executed alone; cases of the other sub-engines are replayed by re-running that sub-engine.
use crate::core::{Form, kernel_by_name};
use arrow_arith::numeric;
use arrow_array::types::*;
use arrow_array::*;
use arrow_buffer::{IntervalDayTime, IntervalMonthDayNano, ScalarBuffer, i256};
use arrow_schema::{DataType, IntervalUnit, TimeUnit};
use half::f16;
use std::str::FromStr;
use std::sync::Arc;
use vcore::serde_json::Value;

fn ints(s: &str) -> Vec<i128> {
    // all (signed) integers appearing in a Debug string such as `IntervalDayTime { days: 1, milliseconds: -2 }`
    let mut out = vec![];
    let b = s.as_bytes();
    let mut i = 0;
    while i < b.len() {
        if b[i].is_ascii_digit() || (b[i] == b'-' && i + 1 < b.len() && b[i + 1].is_ascii_digit()) {
            let st = i;
            i += 1;
            while i < b.len() && b[i].is_ascii_digit() {
                i += 1;
            }
            if let Ok(v) = s[st..i].parse::<i128>() {
                out.push(v);
            }
        } else {
            i += 1;
        }
    }
    out
}

fn prim<T: ArrowPrimitiveType>(v: T::Native, dt: &DataType, off: usize) -> ArrayRef {
    let mut vals = vec![v; off];
    vals.push(v);
    Arc::new(PrimitiveArray::<T>::new(ScalarBuffer::from(vals), None).with_data_type(dt.clone()).slice(off, 1))
}

pub fn build_one(dt: &DataType, val: &str, off: usize) -> Result<ArrayRef, String> {
    let i = || val.parse::<i128>().map_err(|e| format!("cannot parse {val:?} as integer: {e}"));
    let f = || -> Result<f64, String> {
        match val {
            "NaN" => Ok(f64::NAN),
            "-NaN" => Ok(-f64::NAN),
            "inf" => Ok(f64::INFINITY),
            "-inf" => Ok(f64::NEG_INFINITY),
            v => v.parse::<f64>().map_err(|e| format!("cannot parse {v:?} as float: {e}")),
        }
    };
    Ok(match dt {
        DataType::Int8 => prim::<Int8Type>(i()? as i8, dt, off),
        DataType::Int16 => prim::<Int16Type>(i()? as i16, dt, off),
        DataType::Int32 => prim::<Int32Type>(i()? as i32, dt, off),
        DataType::Int64 => prim::<Int64Type>(i()? as i64, dt, off),
        DataType::UInt8 => prim::<UInt8Type>(i()? as u8, dt, off),
        DataType::UInt16 => prim::<UInt16Type>(i()? as u16, dt, off),
        DataType::UInt32 => prim::<UInt32Type>(i()? as u32, dt, off),
        DataType::UInt64 => prim::<UInt64Type>(i()? as u64, dt, off),
        DataType::Float16 => prim::<Float16Type>(f16::from_f64(f()?), dt, off),
        DataType::Float32 => prim::<Float32Type>(f()? as f32, dt, off),
        DataType::Float64 => prim::<Float64Type>(f()?, dt, off),
        DataType::Decimal32(_, _) => prim::<Decimal32Type>(i()? as i32, dt, off),
        DataType::Decimal64(_, _) => prim::<Decimal64Type>(i()? as i64, dt, off),
        DataType::Decimal128(_, _) => prim::<Decimal128Type>(i()?, dt, off),
        DataType::Decimal256(_, _) => prim::<Decimal256Type>(i256::from_string(val).ok_or("bad i256")?, dt, off),
        DataType::Date32 => prim::<Date32Type>(i()? as i32, dt, off),
        DataType::Date64 => prim::<Date64Type>(i()? as i64, dt, off),
        DataType::Timestamp(TimeUnit::Second, _) => prim::<TimestampSecondType>(i()? as i64, dt, off),
        DataType::Timestamp(TimeUnit::Millisecond, _) => prim::<TimestampMillisecondType>(i()? as i64, dt, off),
        DataType::Timestamp(TimeUnit::Microsecond, _) => prim::<TimestampMicrosecondType>(i()? as i64, dt, off),
        DataType::Timestamp(TimeUnit::Nanosecond, _) => prim::<TimestampNanosecondType>(i()? as i64, dt, off),
        DataType::Duration(TimeUnit::Second) => prim::<DurationSecondType>(i()? as i64, dt, off),
        DataType::Duration(TimeUnit::Millisecond) => prim::<DurationMillisecondType>(i()? as i64, dt, off),
        DataType::Duration(TimeUnit::Microsecond) => prim::<DurationMicrosecondType>(i()? as i64, dt, off),
        DataType::Duration(TimeUnit::Nanosecond) => prim::<DurationNanosecondType>(i()? as i64, dt, off),
        DataType::Interval(IntervalUnit::YearMonth) => prim::<IntervalYearMonthType>(i()? as i32, dt, off),
        DataType::Interval(IntervalUnit::DayTime) => {
            let v = ints(val);
            prim::<IntervalDayTimeType>(IntervalDayTime::new(v[0] as i32, v[1] as i32), dt, off)
        }
        DataType::Interval(IntervalUnit::MonthDayNano) => {
            let v = ints(val);
            prim::<IntervalMonthDayNanoType>(IntervalMonthDayNano::new(v[0] as i32, v[1] as i32, v[2] as i64), dt, off)
        }
        other => return Err(format!("replay does not know how to build {other}")),
    })
}

fn raw(a: &ArrayRef) -> String {
    // Debug of a one-row primitive array prints `PrimitiveArray<T>\n[\n  value,\n]`; keep the value line
    let d = format!("{a:?}");
    d.lines().nth(2).map(|l| l.trim().trim_end_matches(',').to_string()).unwrap_or(d)
}
fn show(a: &ArrayRef) -> String {
    format!("type {} physical value {} (rendered: {})", a.data_type(), raw(a), arrow_cast::display::array_value_to_string(a, 0).unwrap_or_else(|e| format!("<{e}>")))
}

/// returns Some(exit code) when the case was replayed here
pub fn replay(case: &Value) -> Option<i32> {
    match case["replay"].as_str() {
        Some("binary-kernel") => {
            let run = || -> Result<i32, String> {
                let ldt = DataType::from_str(case["left_type"].as_str().unwrap()).map_err(|e| e.to_string())?;
                let rdt = DataType::from_str(case["right_type"].as_str().unwrap()).map_err(|e| e.to_string())?;
                let off = case["offset"].as_u64().unwrap_or(0) as usize;
                let l = build_one(&ldt, case["left"].as_str().unwrap(), off)?;
                let r = build_one(&rdt, case["right"].as_str().unwrap(), off)?;
                let k = kernel_by_name(case["function"].as_str().unwrap_or("")).ok_or("unknown kernel function")?;
                let form = Form::ALL.into_iter().find(|f| Some(f.name()) == case["form"].as_str()).unwrap_or(Form::AA);
                let res = vcore::catch(|| match form {
                    Form::AA => k(&l, &r),
                    Form::AS => k(&l, &Scalar::new(r.clone())),
                    Form::SA => k(&Scalar::new(l.clone()), &r),
                });
                println!("replay: arrow_arith::numeric::{}({} {}, {} {}) in {} form, slice offset {off}", case["function"].as_str().unwrap(), ldt, case["left"].as_str().unwrap(), rdt, case["right"].as_str().unwrap(), form.name());
                match &res {
                    Ok(Ok(a)) if a.len() == 1 && a.is_valid(0) => println!("observed: Ok, {}", show(a)),
                    Ok(Ok(a)) => println!("observed: Ok, {a:?}"),
                    Ok(Err(e)) => println!("observed: Err({e})"),
                    Err(p) => println!("observed: panic {p:?}"),
                }
                println!("expected (oracle): {} with documented result type {}", case["expected"].as_str().unwrap_or("?"), case["documented_result_type"].as_str().unwrap_or("?"));
                Ok(1)
            };
            Some(match run() {
                Ok(c) => c,
                Err(e) => {
                    eprintln!("MACHINERY: replay failed: {e}");
                    2
                }
            })
        }
        Some("unary-kernel") => {
            let dt = DataType::from_str(case["type"].as_str().unwrap()).ok()?;
            let a = build_one(&dt, case["operand"].as_str().unwrap(), case["offset"].as_u64().unwrap_or(0) as usize).ok()?;
            let wrapping = case["function"].as_str() == Some("neg_wrapping");
            let res = vcore::catch(|| if wrapping { numeric::neg_wrapping(&a) } else { numeric::neg(&a) });
            println!("replay: arrow_arith::numeric::{}({} {})", case["function"].as_str().unwrap_or("neg"), dt, case["operand"].as_str().unwrap());
            match &res {
                Ok(Ok(a)) => println!("observed: Ok, {}", show(a)),
                Ok(Err(e)) => println!("observed: Err({e})"),
                Err(p) => println!("observed: panic {p:?}"),
            }
            println!("expected (oracle): {}", case["expected"].as_str().unwrap_or("?"));
            Some(1)
        }
        _ => None,
    }
}
