//! Timestamp / Date / Interval arithmetic of arrow_arith::numeric against an independent proleptic
//! Gregorian model (Hinnant's civil-day algorithms on i128; no chrono in the oracle).
//!
//! Semantics encoded (arrow-arith/src/numeric.rs + arrow-array/src/types.rs + delta.rs): intervals are applied
//! in the order months (calendar shift in local time, day-of-month clamped to the target month), days (calendar
//! days in local time), sub-day part (exact duration); timestamps are converted back by flooring to their unit;
//! dates take the whole-day part of a duration truncated toward zero; Date64 is processed at day granularity.
//! The implementation goes through chrono whose calendar spans the years -262143..=262142: the oracle demands
//! `Ok` only while every input / intermediate / result stays within the years -262000..=262000 ("safe zone"),
//! demands `Err` when the exact final value does not fit the physical type, and otherwise (outside chrono's
//! range but representable) only demands that a successful call returns the exact value.
use crate::core::*;
use crate::ints::{int_kernel, pairs_by_form, same_eq};
use crate::refm::*;
use arrow_arith::numeric;
use arrow_array::types::*;
use arrow_array::{ArrowNativeTypeOp, ArrowPrimitiveType};
use arrow_buffer::{IntervalDayTime, IntervalMonthDayNano};
use arrow_schema::{DataType, IntervalUnit, TimeUnit};
use std::sync::Arc;
use vcore::{Ctx, Stats, par_for};

const NS_DAY: i128 = 86_400_000_000_000;
const NS_S: i128 = 1_000_000_000;

fn safe_days() -> (i128, i128) {
    (days_from_civil(-262000, 1, 1), days_from_civil(262000, 12, 31))
}
fn in_safe_ns(n: i128) -> bool {
    let (lo, hi) = safe_days();
    let d = n.div_euclid(NS_DAY);
    d >= lo && d <= hi
}
fn in_safe_day(d: i128) -> bool {
    let (lo, hi) = safe_days();
    d >= lo && d <= hi
}

#[derive(Clone, Copy, Debug)]
pub struct Iv {
    pub months: i128,
    pub days: i128,
    pub ns: i128,
}

fn classify<N>(v: i128, fits: impl Fn(i128) -> Option<N>, safe: bool) -> Exp<N> {
    match fits(v) {
        None => Exp::Err,
        Some(n) if safe => Exp::Val(n),
        Some(n) => Exp::Any(n),
    }
}
fn fit64(v: i128) -> Option<i64> {
    i64::try_from(v).ok()
}
fn fit32(v: i128) -> Option<i32> {
    i32::try_from(v).ok()
}

/// timestamp (in units of `unit_ns` nanoseconds, fixed UTC offset `off_s`) +/- interval
pub fn ts_interval(ts: i64, unit_ns: i128, off_s: i128, iv: Iv, sign: i128) -> Exp<i64> {
    let n = ts as i128 * unit_ns;
    let mut safe = in_safe_ns(n);
    let mut l = n + off_s * NS_S;
    safe &= in_safe_ns(l);
    if iv.months != 0 {
        let day = l.div_euclid(NS_DAY);
        let tod = l.rem_euclid(NS_DAY);
        // the calendar model is only evaluated on days where it is meaningful; far outside the safe zone the
        // pinned value is irrelevant because Ok is then not demanded and i64 results cannot be produced by chrono
        if day.abs() > 400_000_000_000_000 {
            return Exp::Free;
        }
        l = add_months_days(day, sign * iv.months) * NS_DAY + tod;
        safe &= in_safe_ns(l);
    }
    if iv.days != 0 {
        l += sign * iv.days * NS_DAY;
        safe &= in_safe_ns(l);
    }
    let mut u = l - off_s * NS_S;
    if iv.ns != 0 {
        u += sign * iv.ns;
        safe &= in_safe_ns(u);
    }
    classify(u.div_euclid(unit_ns), fit64, safe)
}

/// day number +/- interval at day granularity (duration part truncated toward zero to whole days)
pub fn day_interval(day0: i128, iv: Iv, sign: i128) -> (i128, bool) {
    let mut safe = in_safe_day(day0);
    let mut d = day0;
    if iv.months != 0 {
        d = add_months_days(d, sign * iv.months);
        safe &= in_safe_day(d);
    }
    // chrono applies days and the duration part as two separate NaiveDate additions (a zero addition still
    // needs the date to be valid, which the input check covers)
    d += sign * iv.days;
    safe &= in_safe_day(d);
    d += sign * (iv.ns / NS_DAY); // `/` truncates toward zero
    safe &= in_safe_day(d);
    (d, safe)
}

fn unit_ns(u: &TimeUnit) -> i128 {
    match u {
        TimeUnit::Second => NS_S,
        TimeUnit::Millisecond => 1_000_000,
        TimeUnit::Microsecond => 1_000,
        TimeUnit::Nanosecond => 1,
    }
}

fn tz_off(tz: Option<&str>) -> i128 {
    match tz {
        None => 0,
        Some(s) => {
            let sign = if s.starts_with('-') { -1 } else { 1 };
            let h: i128 = s[1..3].parse().unwrap();
            let m: i128 = s[4..6].parse().unwrap();
            sign * (h * 3600 + m * 60)
        }
    }
}

fn civil_instants() -> Vec<(i128, i128)> {
    // (day number, second of day)
    let d = days_from_civil;
    vec![
        (d(1970, 1, 1), 0),
        (d(1969, 12, 31), 86399),
        (d(2020, 1, 31), 43200),
        (d(2020, 2, 29), 86399),
        (d(2021, 2, 28), 0),
        (d(2019, 12, 31), 86399),
        (d(2000, 3, 31), 1),
        (d(1900, 3, 1), 0),
        (d(1, 1, 1), 0),
        (d(9999, 12, 31), 86399),
        (d(-1, 12, 31), 0),
        (d(2262, 4, 11), 85636),
        (d(1677, 9, 21), 764),
        (d(262000, 12, 31), 86399),
        (d(-262000, 1, 1), 0),
        (d(262142, 12, 31), 86399),
        (d(-262143, 1, 1), 0),
        (d(262143, 1, 1), 0),
    ]
}

fn ts_values(unit: &TimeUnit) -> Vec<i64> {
    let per_s = NS_S / unit_ns(unit);
    let mut v: Vec<i128> = vec![0, 1, -1, i64::MAX as i128, i64::MAX as i128 - 1, i64::MIN as i128, i64::MIN as i128 + 1, 1 << 31, -(1 << 31), 1 << 53, -(1 << 53)];
    for (d, s) in civil_instants() {
        let t = (d * 86400 + s) * per_s;
        v.extend([t, t + 1, t - 1]);
        if per_s > 1 {
            v.extend([t + per_s - 1, t + per_s / 2]);
        }
    }
    let mut out: Vec<i64> = v.into_iter().filter_map(fit64).collect();
    out.sort();
    out.dedup();
    out
}
fn date32_values() -> Vec<i32> {
    let mut v: Vec<i128> = vec![0, 1, -1, i32::MAX as i128, i32::MIN as i128, i32::MAX as i128 - 1, i32::MIN as i128 + 1, 1 << 20, -(1 << 20)];
    for (d, _) in civil_instants() {
        v.extend([d, d + 1, d - 1]);
    }
    let mut out: Vec<i32> = v.into_iter().filter_map(fit32).collect();
    out.sort();
    out.dedup();
    out
}
fn date64_values() -> Vec<i64> {
    let mut v: Vec<i128> = vec![0, 1, -1, i64::MAX as i128, i64::MIN as i128, i64::MIN as i128 + 1, i64::MAX as i128 - 1, 1 << 53, -(1 << 53)];
    for (d, _) in civil_instants() {
        let t = d * 86_400_000;
        v.extend([t, t + 1, t - 1, t + 43_200_000, t + 86_399_999]);
    }
    let mut out: Vec<i64> = v.into_iter().filter_map(fit64).collect();
    out.sort();
    out.dedup();
    out
}
fn ym_values() -> Vec<i32> {
    let mut v = vec![0, 1, 2, 11, 12, 13, 24, 1200, 3_144_000, 3_145_716, 6_291_432, i32::MAX, i32::MAX - 1];
    let neg: Vec<i32> = v.iter().map(|x: &i32| -x).collect();
    v.extend(neg);
    v.push(i32::MIN);
    v.sort();
    v.dedup();
    v
}
fn dt_values() -> Vec<IntervalDayTime> {
    let days = [0, 1, -1, 28, 29, 30, 31, -31, 365, 366, -366, 95_000_000, -95_000_000, 191_000_000, i32::MAX, i32::MIN];
    let ms = [0, 1, -1, 999, 1000, -1000, 86_399_999, 86_400_000, 86_400_001, -86_399_999, -86_400_000, -86_400_001, i32::MAX, i32::MIN];
    let mut v = vec![];
    for (i, d) in days.iter().enumerate() {
        for (j, m) in ms.iter().enumerate() {
            if i == 0 || j == 0 || (i + j) % 5 == 0 {
                v.push(IntervalDayTime::new(*d, *m));
            }
        }
    }
    v
}
fn mdn_values() -> Vec<IntervalMonthDayNano> {
    let months = [0, 1, -1, 12, -12, 13, -13, 1200, 3_144_000, -3_144_000, i32::MAX, i32::MIN];
    let days = [0, 1, -1, 31, -31, 366, 95_000_000, -95_000_000, i32::MAX, i32::MIN];
    let ns = [0i64, 1, -1, 999_999_999, 1_000_000_000, 86_399_999_999_999, 86_400_000_000_000, 86_400_000_000_001, -86_399_999_999_999, -86_400_000_000_000, -86_400_000_000_001, i64::MAX, i64::MIN, i64::MIN + 1];
    let mut v = vec![];
    for m in months {
        v.push(IntervalMonthDayNano::new(m, 0, 0));
    }
    for d in days {
        v.push(IntervalMonthDayNano::new(0, d, 0));
    }
    for n in ns {
        v.push(IntervalMonthDayNano::new(0, 0, n));
    }
    for (m, d, n) in [(1, 1, 1), (-1, -1, -1), (1, -31, 0), (-1, 31, 0), (12, 366, -1), (1, 0, -86_400_000_000_000), (0, 1, -86_400_000_000_000), (13, -1, 1), (i32::MAX, i32::MAX, i64::MAX), (i32::MIN, i32::MIN, i64::MIN), (3_144_000, -95_000_000, 0), (1, 30, 86_399_999_999_999)] {
        v.push(IntervalMonthDayNano::new(m, d, n));
    }
    v
}

fn iv_ym(m: i32) -> Iv {
    Iv { months: m as i128, days: 0, ns: 0 }
}
fn iv_dt(x: IntervalDayTime) -> Iv {
    Iv { months: 0, days: x.days as i128, ns: x.milliseconds as i128 * 1_000_000 }
}
fn iv_mdn(x: IntervalMonthDayNano) -> Iv {
    Iv { months: x.months as i128, days: x.days as i128, ns: x.nanoseconds as i128 }
}

// ---------------------------------------------------------------------------------------------

fn run_spec<L, R, O>(spec: &BinSpec<L, R, O>, ls: &[L::Native], rs: &[R::Native], idx: u64, st: &mut Stats)
where
    L: ArrowPrimitiveType,
    R: ArrowPrimitiveType,
    O: ArrowPrimitiveType,
    L::Native: ArrowNativeTypeOp,
    R::Native: ArrowNativeTypeOp,
{
    for (k, form) in Form::ALL.iter().enumerate() {
        pairs_by_form(spec, *form, (idx as usize + k) % 3, ls, rs, idx, st);
    }
}

/// Timestamp<T> (+|-) interval type I, plus the commuted `interval + timestamp`
fn ts_iv_case<T, I>(sub: &str, tz: Option<&'static str>, add: bool, ivdt: DataType, ivs: &[I::Native], conv: fn(I::Native) -> Iv, idx: u64, st: &mut Stats)
where
    T: ArrowTimestampType,
    I: ArrowPrimitiveType,
    I::Native: ArrowNativeTypeOp,
{
    let tsdt = DataType::Timestamp(T::UNIT, tz.map(Arc::from));
    let un = unit_ns(&T::UNIT);
    let off = tz_off(tz);
    let sign = if add { 1 } else { -1 };
    let tsv = ts_values(&T::UNIT);
    let ex = move |t: i64, i: I::Native| ts_interval(t, un, off, conv(i), sign);
    let opn = if add { "add" } else { "sub" };
    let spec = BinSpec::<T, I, T> {
        sub,
        fp: format!("c12:timestamp:{opn}-interval"),
        label: format!("{tsdt} {opn} {ivdt}"),
        kernel: if add { numeric::add } else { numeric::sub },
        ldt: tsdt.clone(),
        rdt: ivdt.clone(),
        odt: tsdt.clone(),
        expect: &ex,
        same: same_eq::<i64>,
        lgarbage: i64::MAX,
        rgarbage: ivs[ivs.len() - 1],
        collapse: false,
    };
    run_spec(&spec, &tsv, ivs, idx, st);
    if add {
        // `interval + timestamp` is documented through the commutative dispatch
        let exc = move |i: I::Native, t: i64| ts_interval(t, un, off, conv(i), 1);
        let spec = BinSpec::<I, T, T> {
            sub,
            fp: "c12:timestamp:interval-add-commuted".into(),
            label: format!("{ivdt} add {tsdt}"),
            kernel: numeric::add_wrapping,
            ldt: ivdt.clone(),
            rdt: tsdt.clone(),
            odt: tsdt.clone(),
            expect: &exc,
            same: same_eq::<i64>,
            lgarbage: ivs[ivs.len() - 1],
            rgarbage: i64::MAX,
            collapse: false,
        };
        pairs_by_form(&spec, Form::AA, 0, ivs, &tsv, idx, st);
    }
}

fn ts_units<T>(ctx: &Ctx, sub: &str) -> Stats
where
    T: ArrowTimestampType,
{
    const TZS: [Option<&'static str>; 4] = [None, Some("+00:00"), Some("+05:30"), Some("-08:00")];
    // unit index: tz (4) x op (2) x interval type (3), then the duration / timestamp difference cases
    let n_iv = 4 * 2 * 3;
    par_for(ctx, sub, n_iv + 4 * 3, 1, |idx, st| {
        if idx < n_iv {
            let tz = TZS[(idx % 4) as usize];
            let add = (idx / 4) % 2 == 0;
            match idx / 8 {
                0 => ts_iv_case::<T, IntervalYearMonthType>(sub, tz, add, DataType::Interval(IntervalUnit::YearMonth), &ym_values(), iv_ym, idx, st),
                1 => ts_iv_case::<T, IntervalDayTimeType>(sub, tz, add, DataType::Interval(IntervalUnit::DayTime), &dt_values(), iv_dt, idx, st),
                _ => ts_iv_case::<T, IntervalMonthDayNanoType>(sub, tz, add, DataType::Interval(IntervalUnit::MonthDayNano), &mdn_values(), iv_mdn, idx, st),
            }
        } else {
            let k = idx - n_iv;
            let tz = TZS[(k % 4) as usize];
            let tsdt = DataType::Timestamp(T::UNIT, tz.map(Arc::from));
            let ddt = DataType::Duration(T::UNIT);
            let b = lattice::<i64>(false);
            match k / 4 {
                0 | 1 => {
                    let op = if k / 4 == 0 { IOp::Add } else { IOp::Sub };
                    let ex = move |a: i64, b: i64| int_expect(op, a, b);
                    // timestamp +/- duration: checked i64 arithmetic, time zone kept
                    macro_rules! go {
                        ($D:ty) => {{
                            let spec = BinSpec::<T, $D, T> {
                                sub,
                                fp: format!("c12:timestamp:{}-duration", op.name()),
                                label: format!("{tsdt} {} {ddt}", op.name()),
                                kernel: int_kernel(op),
                                ldt: tsdt.clone(),
                                rdt: ddt.clone(),
                                odt: tsdt.clone(),
                                expect: &ex,
                                same: same_eq::<i64>,
                                lgarbage: i64::MAX,
                                rgarbage: i64::MAX,
                                collapse: false,
                            };
                            run_spec(&spec, &b, &b, idx, st);
                            if op == IOp::Add {
                                let spec = BinSpec::<$D, T, T> {
                                    sub,
                                    fp: "c12:timestamp:duration-add-commuted".into(),
                                    label: format!("{ddt} add {tsdt}"),
                                    kernel: numeric::add,
                                    ldt: ddt.clone(),
                                    rdt: tsdt.clone(),
                                    odt: tsdt.clone(),
                                    expect: &ex,
                                    same: same_eq::<i64>,
                                    lgarbage: i64::MAX,
                                    rgarbage: i64::MAX,
                                    collapse: false,
                                };
                                pairs_by_form(&spec, Form::AA, 1, &b, &b, idx, st);
                            }
                        }};
                    }
                    match T::UNIT {
                        TimeUnit::Second => go!(DurationSecondType),
                        TimeUnit::Millisecond => go!(DurationMillisecondType),
                        TimeUnit::Microsecond => go!(DurationMicrosecondType),
                        TimeUnit::Nanosecond => go!(DurationNanosecondType),
                    }
                }
                _ => {
                    // timestamp - timestamp -> duration (any pair of time zones)
                    let ex = |a: i64, b: i64| int_expect(IOp::Sub, a, b);
                    let rtz = TZS[((k + 1) % 4) as usize];
                    let rdt = DataType::Timestamp(T::UNIT, rtz.map(Arc::from));
                    macro_rules! go {
                        ($D:ty) => {{
                            let spec = BinSpec::<T, T, $D> {
                                sub,
                                fp: "c12:timestamp:sub-timestamp".into(),
                                label: format!("{tsdt} sub {rdt}"),
                                kernel: numeric::sub,
                                ldt: tsdt.clone(),
                                rdt: rdt.clone(),
                                odt: ddt.clone(),
                                expect: &ex,
                                same: same_eq::<i64>,
                                lgarbage: i64::MIN,
                                rgarbage: i64::MAX,
                                collapse: false,
                            };
                            run_spec(&spec, &b, &b, idx, st);
                        }};
                    }
                    match T::UNIT {
                        TimeUnit::Second => go!(DurationSecondType),
                        TimeUnit::Millisecond => go!(DurationMillisecondType),
                        TimeUnit::Microsecond => go!(DurationMicrosecondType),
                        TimeUnit::Nanosecond => go!(DurationNanosecondType),
                    }
                }
            }
        }
    })
}

fn date_iv_case<D, I>(sub: &str, add: bool, dvals: &[D::Native], ivdt: DataType, ivs: &[I::Native], conv: fn(I::Native) -> Iv, ex: &(dyn Fn(D::Native, Iv, i128) -> Exp<D::Native> + Sync), idx: u64, st: &mut Stats)
where
    D: ArrowPrimitiveType,
    I: ArrowPrimitiveType,
    D::Native: ArrowNativeTypeOp + PartialEq,
    I::Native: ArrowNativeTypeOp,
{
    let sign = if add { 1 } else { -1 };
    let opn = if add { "add" } else { "sub" };
    let e = move |d: D::Native, i: I::Native| ex(d, conv(i), sign);
    let spec = BinSpec::<D, I, D> {
        sub,
        fp: format!("c12:date:{opn}-interval"),
        label: format!("{} {opn} {ivdt}", D::DATA_TYPE),
        kernel: if add { numeric::add } else { numeric::sub },
        ldt: D::DATA_TYPE,
        rdt: ivdt.clone(),
        odt: D::DATA_TYPE,
        expect: &e,
        same: same_eq::<D::Native>,
        lgarbage: dvals[dvals.len() - 1],
        rgarbage: ivs[ivs.len() - 1],
        collapse: false,
    };
    run_spec(&spec, dvals, ivs, idx, st);
    if add {
        let ec = move |i: I::Native, d: D::Native| ex(d, conv(i), 1);
        let spec = BinSpec::<I, D, D> {
            sub,
            fp: "c12:date:interval-add-commuted".into(),
            label: format!("{ivdt} add {}", D::DATA_TYPE),
            kernel: numeric::add,
            ldt: ivdt.clone(),
            rdt: D::DATA_TYPE,
            odt: D::DATA_TYPE,
            expect: &ec,
            same: same_eq::<D::Native>,
            lgarbage: ivs[ivs.len() - 1],
            rgarbage: dvals[dvals.len() - 1],
            collapse: false,
        };
        pairs_by_form(&spec, Form::AA, 2, ivs, dvals, idx, st);
    }
}

fn date_units(ctx: &Ctx, sub: &str) -> Stats {
    let ex32 = |d: i32, iv: Iv, sign: i128| {
        let (r, safe) = day_interval(d as i128, iv, sign);
        classify(r, fit32, safe)
    };
    let ex64 = |ms: i64, iv: Iv, sign: i128| {
        let day = ms as i128 / 86_400_000; // truncation toward zero (chrono: NaiveDate + TimeDelta uses num_days)
        let (r, safe) = day_interval(day, iv, sign);
        classify(r * 86_400_000, fit64, safe)
    };
    par_for(ctx, sub, 14, 1, |idx, st| {
        let add = idx % 2 == 0;
        let d32 = date32_values();
        let d64 = date64_values();
        match idx / 2 {
            0 => date_iv_case::<Date32Type, IntervalYearMonthType>(sub, add, &d32, DataType::Interval(IntervalUnit::YearMonth), &ym_values(), iv_ym, &ex32, idx, st),
            1 => date_iv_case::<Date32Type, IntervalDayTimeType>(sub, add, &d32, DataType::Interval(IntervalUnit::DayTime), &dt_values(), iv_dt, &ex32, idx, st),
            2 => date_iv_case::<Date32Type, IntervalMonthDayNanoType>(sub, add, &d32, DataType::Interval(IntervalUnit::MonthDayNano), &mdn_values(), iv_mdn, &ex32, idx, st),
            3 => date_iv_case::<Date64Type, IntervalYearMonthType>(sub, add, &d64, DataType::Interval(IntervalUnit::YearMonth), &ym_values(), iv_ym, &ex64, idx, st),
            4 => date_iv_case::<Date64Type, IntervalDayTimeType>(sub, add, &d64, DataType::Interval(IntervalUnit::DayTime), &dt_values(), iv_dt, &ex64, idx, st),
            5 => date_iv_case::<Date64Type, IntervalMonthDayNanoType>(sub, add, &d64, DataType::Interval(IntervalUnit::MonthDayNano), &mdn_values(), iv_mdn, &ex64, idx, st),
            _ => {
                if add {
                    // Date32 - Date32 -> Duration(s): (l - r) * 86400, always representable
                    let ex = |a: i32, b: i32| Exp::Val((a as i64 - b as i64) * 86400);
                    let b = lattice::<i32>(false);
                    let spec = BinSpec::<Date32Type, Date32Type, DurationSecondType> {
                        sub,
                        fp: "c12:date:sub-date".into(),
                        label: "Date32 sub Date32".into(),
                        kernel: numeric::sub,
                        ldt: DataType::Date32,
                        rdt: DataType::Date32,
                        odt: DataType::Duration(TimeUnit::Second),
                        expect: &ex,
                        same: same_eq::<i64>,
                        lgarbage: i32::MIN,
                        rgarbage: i32::MAX,
                        collapse: false,
                    };
                    run_spec(&spec, &b, &b, idx, st);
                } else {
                    let ex = |a: i64, b: i64| int_expect(IOp::Sub, a, b);
                    let b = lattice::<i64>(false);
                    let spec = BinSpec::<Date64Type, Date64Type, DurationMillisecondType> {
                        sub,
                        fp: "c12:date:sub-date".into(),
                        label: "Date64 sub Date64".into(),
                        kernel: numeric::sub_wrapping,
                        ldt: DataType::Date64,
                        rdt: DataType::Date64,
                        odt: DataType::Duration(TimeUnit::Millisecond),
                        expect: &ex,
                        same: same_eq::<i64>,
                        lgarbage: i64::MIN,
                        rgarbage: i64::MAX,
                        collapse: false,
                    };
                    run_spec(&spec, &b, &b, idx, st);
                }
            }
        }
    })
}

// ---------------------------------------------------------------------------------------------
// Interval (+|-) Interval, Interval * Int64 (both orders), neg

fn mul_i32_i64(a: i32, f: i64) -> Option<i32> {
    i32::try_from(a as i128 * f as i128).ok()
}

fn interval_kernels(ctx: &Ctx, sub: &str) -> Stats {
    par_for(ctx, sub, 9, 1, |idx, st| {
        let f64s: Vec<i64> = vec![0, 1, -1, 2, -2, 3, 1000, 46341, 65536, i32::MAX as i64, i32::MAX as i64 + 1, i32::MIN as i64, i32::MIN as i64 - 1, 3037000500, i64::MAX, i64::MIN];
        match idx {
            0 | 1 => {
                let add = idx == 0;
                let v = lattice::<i32>(false);
                let ex = move |a: i32, b: i32| int_expect(if add { IOp::Add } else { IOp::Sub }, a, b);
                let dt = DataType::Interval(IntervalUnit::YearMonth);
                let spec = BinSpec::<IntervalYearMonthType, IntervalYearMonthType, IntervalYearMonthType> {
                    sub,
                    fp: format!("c12:interval:{}", if add { "add" } else { "sub" }),
                    label: format!("Interval(YearMonth) {}", if add { "add" } else { "sub" }),
                    kernel: if add { numeric::add } else { numeric::sub },
                    ldt: dt.clone(),
                    rdt: dt.clone(),
                    odt: dt.clone(),
                    expect: &ex,
                    same: same_eq::<i32>,
                    lgarbage: i32::MIN,
                    rgarbage: i32::MAX,
                    collapse: false,
                };
                run_spec(&spec, &v, &v, idx, st);
            }
            2 | 3 => {
                let add = idx == 2;
                let v = dt_values();
                let ex = move |a: IntervalDayTime, b: IntervalDayTime| {
                    let s = if add { 1 } else { -1 };
                    match (fit32(a.days as i128 + s * b.days as i128), fit32(a.milliseconds as i128 + s * b.milliseconds as i128)) {
                        (Some(d), Some(m)) => Exp::Val(IntervalDayTime::new(d, m)),
                        _ => Exp::Err,
                    }
                };
                let dt = DataType::Interval(IntervalUnit::DayTime);
                let spec = BinSpec::<IntervalDayTimeType, IntervalDayTimeType, IntervalDayTimeType> {
                    sub,
                    fp: format!("c12:interval:{}", if add { "add" } else { "sub" }),
                    label: format!("Interval(DayTime) {}", if add { "add" } else { "sub" }),
                    kernel: if add { numeric::add } else { numeric::sub_wrapping },
                    ldt: dt.clone(),
                    rdt: dt.clone(),
                    odt: dt.clone(),
                    expect: &ex,
                    same: same_eq::<IntervalDayTime>,
                    lgarbage: IntervalDayTime::new(i32::MIN, i32::MIN),
                    rgarbage: IntervalDayTime::new(i32::MAX, i32::MAX),
                    collapse: false,
                };
                run_spec(&spec, &v, &v, idx, st);
            }
            4 | 5 => {
                let add = idx == 4;
                let v = mdn_values();
                let ex = move |a: IntervalMonthDayNano, b: IntervalMonthDayNano| {
                    let s = if add { 1 } else { -1 };
                    match (fit32(a.months as i128 + s * b.months as i128), fit32(a.days as i128 + s * b.days as i128), fit64(a.nanoseconds as i128 + s * b.nanoseconds as i128)) {
                        (Some(m), Some(d), Some(n)) => Exp::Val(IntervalMonthDayNano::new(m, d, n)),
                        _ => Exp::Err,
                    }
                };
                let dt = DataType::Interval(IntervalUnit::MonthDayNano);
                let spec = BinSpec::<IntervalMonthDayNanoType, IntervalMonthDayNanoType, IntervalMonthDayNanoType> {
                    sub,
                    fp: format!("c12:interval:{}", if add { "add" } else { "sub" }),
                    label: format!("Interval(MonthDayNano) {}", if add { "add" } else { "sub" }),
                    kernel: if add { numeric::add_wrapping } else { numeric::sub },
                    ldt: dt.clone(),
                    rdt: dt.clone(),
                    odt: dt.clone(),
                    expect: &ex,
                    same: same_eq::<IntervalMonthDayNano>,
                    lgarbage: IntervalMonthDayNano::new(i32::MIN, i32::MIN, i64::MIN),
                    rgarbage: IntervalMonthDayNano::new(i32::MAX, i32::MAX, i64::MAX),
                    collapse: false,
                };
                run_spec(&spec, &v, &v, idx, st);
            }
            6 => {
                // Interval(YearMonth) * Int64 and Int64 * Interval(YearMonth)
                let v = lattice::<i32>(false);
                let ex = |a: i32, f: i64| match mul_i32_i64(a, f) {
                    Some(x) => Exp::Val(x),
                    None => Exp::Err,
                };
                let exc = |f: i64, a: i32| match mul_i32_i64(a, f) {
                    Some(x) => Exp::Val(x),
                    None => Exp::Err,
                };
                let dt = DataType::Interval(IntervalUnit::YearMonth);
                let spec = BinSpec::<IntervalYearMonthType, Int64Type, IntervalYearMonthType> { sub, fp: "c12:interval:mul-int64".into(), label: "Interval(YearMonth) mul Int64".into(), kernel: numeric::mul, ldt: dt.clone(), rdt: DataType::Int64, odt: dt.clone(), expect: &ex, same: same_eq::<i32>, lgarbage: i32::MIN, rgarbage: i64::MAX, collapse: false };
                run_spec(&spec, &v, &f64s, idx, st);
                let spec = BinSpec::<Int64Type, IntervalYearMonthType, IntervalYearMonthType> { sub, fp: "c12:interval:mul-int64".into(), label: "Int64 mul Interval(YearMonth)".into(), kernel: numeric::mul, ldt: DataType::Int64, rdt: dt.clone(), odt: dt.clone(), expect: &exc, same: same_eq::<i32>, lgarbage: i64::MAX, rgarbage: i32::MIN, collapse: false };
                run_spec(&spec, &f64s, &v, idx, st);
            }
            7 => {
                let v = dt_values();
                let ex = |a: IntervalDayTime, f: i64| match (mul_i32_i64(a.days, f), mul_i32_i64(a.milliseconds, f)) {
                    (Some(d), Some(m)) => Exp::Val(IntervalDayTime::new(d, m)),
                    _ => Exp::Err,
                };
                let exc = move |f: i64, a: IntervalDayTime| ex(a, f);
                let dt = DataType::Interval(IntervalUnit::DayTime);
                let spec = BinSpec::<IntervalDayTimeType, Int64Type, IntervalDayTimeType> { sub, fp: "c12:interval:mul-int64".into(), label: "Interval(DayTime) mul Int64".into(), kernel: numeric::mul, ldt: dt.clone(), rdt: DataType::Int64, odt: dt.clone(), expect: &ex, same: same_eq::<IntervalDayTime>, lgarbage: IntervalDayTime::new(i32::MIN, i32::MIN), rgarbage: i64::MAX, collapse: false };
                run_spec(&spec, &v, &f64s, idx, st);
                let spec = BinSpec::<Int64Type, IntervalDayTimeType, IntervalDayTimeType> { sub, fp: "c12:interval:mul-int64".into(), label: "Int64 mul Interval(DayTime)".into(), kernel: numeric::mul, ldt: DataType::Int64, rdt: dt.clone(), odt: dt.clone(), expect: &exc, same: same_eq::<IntervalDayTime>, lgarbage: i64::MAX, rgarbage: IntervalDayTime::new(i32::MIN, i32::MIN), collapse: false };
                run_spec(&spec, &f64s, &v, idx, st);
            }
            _ => {
                let v = mdn_values();
                let ex = |a: IntervalMonthDayNano, f: i64| match (mul_i32_i64(a.months, f), mul_i32_i64(a.days, f), fit64(a.nanoseconds as i128 * f as i128)) {
                    (Some(m), Some(d), Some(n)) => Exp::Val(IntervalMonthDayNano::new(m, d, n)),
                    _ => Exp::Err,
                };
                let exc = move |f: i64, a: IntervalMonthDayNano| ex(a, f);
                let dt = DataType::Interval(IntervalUnit::MonthDayNano);
                let spec = BinSpec::<IntervalMonthDayNanoType, Int64Type, IntervalMonthDayNanoType> { sub, fp: "c12:interval:mul-int64".into(), label: "Interval(MonthDayNano) mul Int64".into(), kernel: numeric::mul, ldt: dt.clone(), rdt: DataType::Int64, odt: dt.clone(), expect: &ex, same: same_eq::<IntervalMonthDayNano>, lgarbage: IntervalMonthDayNano::new(i32::MIN, i32::MIN, i64::MIN), rgarbage: i64::MAX, collapse: false };
                run_spec(&spec, &v, &f64s, idx, st);
                let spec = BinSpec::<Int64Type, IntervalMonthDayNanoType, IntervalMonthDayNanoType> { sub, fp: "c12:interval:mul-int64".into(), label: "Int64 mul Interval(MonthDayNano)".into(), kernel: numeric::mul, ldt: DataType::Int64, rdt: dt.clone(), odt: dt.clone(), expect: &exc, same: same_eq::<IntervalMonthDayNano>, lgarbage: i64::MAX, rgarbage: IntervalMonthDayNano::new(i32::MIN, i32::MIN, i64::MIN), collapse: false };
                run_spec(&spec, &f64s, &v, idx, st);
                // Interval(MonthDayNano) * / Float64: the documented exact path ("use checked integer multiplication when
                // `factor` fits in `i64`") and division by zero; non-integral factors follow a floating point recipe
                // that has no exact reference and are not covered
                let ff: Vec<f64> = vec![0.0, 1.0, -1.0, 2.0, -2.0, 3.0, 1000.0, 46341.0, 65536.0, 2147483648.0, -2147483649.0, 9007199254740992.0];
                let exf = |a: IntervalMonthDayNano, f: f64| ex(a, f as i64);
                let spec = BinSpec::<IntervalMonthDayNanoType, Float64Type, IntervalMonthDayNanoType> { sub, fp: "c12:interval:mul-float64-integral".into(), label: "Interval(MonthDayNano) mul Float64 (integral factor)".into(), kernel: numeric::mul, ldt: dt.clone(), rdt: DataType::Float64, odt: dt.clone(), expect: &exf, same: same_eq::<IntervalMonthDayNano>, lgarbage: IntervalMonthDayNano::new(i32::MIN, i32::MIN, i64::MIN), rgarbage: f64::NAN, collapse: false };
                run_spec(&spec, &v, &ff, idx, st);
                let exd = |_: IntervalMonthDayNano, _: f64| Exp::<IntervalMonthDayNano>::Err;
                let spec = BinSpec::<IntervalMonthDayNanoType, Float64Type, IntervalMonthDayNanoType> { sub, fp: "c12:interval:div-float64-zero".into(), label: "Interval(MonthDayNano) div Float64 zero".into(), kernel: numeric::div, ldt: dt.clone(), rdt: DataType::Float64, odt: dt.clone(), expect: &exd, same: same_eq::<IntervalMonthDayNano>, lgarbage: IntervalMonthDayNano::new(0, 0, 0), rgarbage: 1.0, collapse: false };
                run_spec(&spec, &v[..8], &[0.0, -0.0], idx, st);
            }
        }
        if idx == 0 {
            // neg on intervals: field-wise checked negation
            let xs = lattice::<i32>(false);
            let ex = |a: i32| if a == i32::MIN { Exp::Err } else { Exp::Val(-a) };
            let us = UnSpec::<IntervalYearMonthType> { sub, fp: "c12:interval:neg".into(), label: "Interval(YearMonth) neg".into(), kernel: numeric::neg, dt: DataType::Interval(IntervalUnit::YearMonth), expect: &ex, same: same_eq::<i32>, garbage: i32::MIN };
            eval_unary(&us, 1, &xs, xs.len() as u64, 0, st);
            let xs = dt_values();
            let ex = |a: IntervalDayTime| match (a.days.checked_neg(), a.milliseconds.checked_neg()) {
                (Some(d), Some(m)) => Exp::Val(IntervalDayTime::new(d, m)),
                _ => Exp::Err,
            };
            let us = UnSpec::<IntervalDayTimeType> { sub, fp: "c12:interval:neg".into(), label: "Interval(DayTime) neg".into(), kernel: numeric::neg_wrapping, dt: DataType::Interval(IntervalUnit::DayTime), expect: &ex, same: same_eq::<IntervalDayTime>, garbage: IntervalDayTime::new(i32::MIN, 0) };
            eval_unary(&us, 1, &xs, xs.len() as u64, 0, st);
            let xs = mdn_values();
            let ex = |a: IntervalMonthDayNano| match (a.months.checked_neg(), a.days.checked_neg(), a.nanoseconds.checked_neg()) {
                (Some(m), Some(d), Some(n)) => Exp::Val(IntervalMonthDayNano::new(m, d, n)),
                _ => Exp::Err,
            };
            let us = UnSpec::<IntervalMonthDayNanoType> { sub, fp: "c12:interval:neg".into(), label: "Interval(MonthDayNano) neg".into(), kernel: numeric::neg, dt: DataType::Interval(IntervalUnit::MonthDayNano), expect: &ex, same: same_eq::<IntervalMonthDayNano>, garbage: IntervalMonthDayNano::new(0, i32::MIN, 0) };
            eval_unary(&us, 2, &xs, xs.len() as u64, 0, st);
        }
    })
}

/// combinations the dispatch does not support must be rejected as a whole
fn unsupported(sub: &str, st: &mut Stats) {
    use arrow_array::Array;
    let ts_s = mk::<TimestampSecondType>(&[1, 2], &DataType::Timestamp(TimeUnit::Second, None), 0, 0);
    let ts_ms = mk::<TimestampMillisecondType>(&[1, 2], &DataType::Timestamp(TimeUnit::Millisecond, None), 0, 0);
    let du_s = mk::<DurationSecondType>(&[1, 2], &DataType::Duration(TimeUnit::Second), 0, 0);
    let du_ms = mk::<DurationMillisecondType>(&[1, 2], &DataType::Duration(TimeUnit::Millisecond), 0, 0);
    let d32 = mk::<Date32Type>(&[1, 2], &DataType::Date32, 0, 0);
    let d64 = mk::<Date64Type>(&[1, 2], &DataType::Date64, 0, 0);
    let ym = mk::<IntervalYearMonthType>(&[1, 2], &DataType::Interval(IntervalUnit::YearMonth), 0, 0);
    let i64a = mk::<Int64Type>(&[1, 2], &DataType::Int64, 0, 0);
    let cases: Vec<(&dyn Array, IOp, &dyn Array)> = vec![
        (&ts_s, IOp::Add, &du_ms),
        (&ts_s, IOp::Sub, &ts_ms),
        (&ts_s, IOp::Add, &ts_s),
        (&ts_s, IOp::Mul, &du_s),
        (&ts_s, IOp::Div, &i64a),
        (&du_s, IOp::Sub, &ts_s),
        (&du_s, IOp::Add, &du_ms),
        (&d32, IOp::Sub, &d64),
        (&d32, IOp::Add, &d32),
        (&d32, IOp::Add, &du_s),
        (&ym, IOp::Sub, &d32),
        (&ym, IOp::Mul, &ym),
        (&ym, IOp::Div, &i64a),
        (&i64a, IOp::Add, &ym),
        (&d64, IOp::Rem, &ym),
    ];
    for (l, op, r) in cases {
        st.add(sub, 1, 1);
        match vcore::catch(|| int_kernel(op)(&l, &r)) {
            Ok(Err(_)) => st.outcome("c12:temporal:unsupported-combination-rejected"),
            Ok(Ok(a)) => st.violate(0, "c12:temporal:unsupported-combination-accepted", format!("{} {} {} returned {:?}", l.data_type(), op.name(), r.data_type(), a), || vcore::serde_json::json!({"sub": sub, "left_type": l.data_type().to_string(), "right_type": r.data_type().to_string(), "kernel": op.name()})),
            Err(p) => st.violate(0, format!("c12:temporal:{}", p.fingerprint()), format!("{p:?}"), || vcore::serde_json::json!({"sub": sub})),
        }
    }
}

pub fn run(ctx: &Ctx, st: &mut Stats, tick: &mut dyn FnMut(&str)) {
    st.merge(ts_units::<TimestampSecondType>(ctx, "timestamp-lattice"));
    st.merge(ts_units::<TimestampMillisecondType>(ctx, "timestamp-lattice"));
    st.merge(ts_units::<TimestampMicrosecondType>(ctx, "timestamp-lattice"));
    st.merge(ts_units::<TimestampNanosecondType>(ctx, "timestamp-lattice"));
    tick("timestamps");
    st.merge(date_units(ctx, "date-lattice"));
    tick("dates");
    st.merge(interval_kernels(ctx, "interval-kernels"));
    let mut s = Stats::new();
    unsupported("interval-kernels", &mut s);
    st.merge(s);
    tick("intervals");
}
