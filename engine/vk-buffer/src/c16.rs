//! C16 — shared buffers are immutable and their memory is released exactly once.
//!
//! (1) explicit-state BFS over operation histories on handles that share one memory region,
//! (2) exhaustive thread-schedule enumeration (baton scheduler, preemption bound) of the same ops,
//! against a model: per-handle snapshot of visible bytes, owner release counter, pool accounting.
use arrow_array::builder::PrimitiveBuilder;
use arrow_array::ffi::{from_ffi, to_ffi};
use arrow_array::types::Int32Type;
use arrow_array::{Array, Int32Array, make_array};
use arrow_buffer::alloc::Allocation;
use arrow_buffer::{BooleanBuffer, Buffer, MemoryPool, MutableBuffer, NullBuffer, ScalarBuffer, TrackingMemoryPool};
use arrow_data::ArrayData;
use arrow_data::ffi::FFI_ArrowArray;
use arrow_schema::ffi::FFI_ArrowSchema;
use std::cell::Cell;
use std::collections::BTreeMap;
use std::ptr::NonNull;
use std::sync::Arc;
use std::sync::atomic::{AtomicUsize, Ordering};
use vcore::bfs::{HistoryModel, Step};
use vcore::serde_json::json;
use vcore::{Ctx, Level, Stats, catch};

const REGION_I32: usize = 8;
const REGION_BYTES: usize = REGION_I32 * 4;

#[derive(Clone, Copy, Debug, PartialEq, Eq, Hash)]
pub enum Kind {
    Vec,
    Mutable,
    Custom,
    BytesCrate,
}

/// Owner of a custom allocation: counts releases and scribbles the region when released.
/// The memory itself is freed by the harness at the end of the run (so that reading a handle that
/// outlived its owner is detectable, not undefined).
struct Owner {
    ptr: *mut u8,
    len: usize,
    drops: Arc<AtomicUsize>,
    hook: Option<Arc<dyn Fn() + Send + Sync>>,
}
unsafe impl Send for Owner {}
unsafe impl Sync for Owner {}
impl std::panic::RefUnwindSafe for Owner {}
impl Drop for Owner {
    fn drop(&mut self) {
        if let Some(h) = &self.hook {
            h();
        }
        self.drops.fetch_add(1, Ordering::SeqCst);
        unsafe { std::ptr::write_bytes(self.ptr, 0xDD, self.len) };
    }
}
// `Allocation` is implemented for every `RefUnwindSafe + Send + Sync` type.

enum H {
    Buf(Buffer),
    Bool(BooleanBuffer),
    Prim(Int32Array),
    Ffi(FFI_ArrowArray, FFI_ArrowSchema, Vec<u8>, bool),
    Imp(ArrayData),
    Mut(MutableBuffer),
    VecH(Vec<i32>),
}

struct Slot {
    h: H,
    /// expected visible content
    snap: Vec<u8>,
    /// model identity of the allocation (arrow `Bytes` object) the handle keeps alive
    alloc: u32,
}

fn prim_visible(a: &Int32Array) -> Vec<u8> {
    let mut v: Vec<u8> = vec![];
    for i in 0..a.len() {
        if a.is_null(i) {
            v.extend_from_slice(&[0xEE; 5]);
        } else {
            v.push(1);
            v.extend_from_slice(&a.value(i).to_le_bytes());
        }
    }
    v
}
fn bool_visible(b: &BooleanBuffer) -> Vec<u8> {
    b.iter().map(|x| x as u8).collect()
}
fn visible(h: &H) -> Vec<u8> {
    match h {
        H::Buf(b) => b.as_slice().to_vec(),
        H::Bool(b) => bool_visible(b),
        H::Prim(a) => prim_visible(a),
        H::Ffi(_, _, s, _) => s.clone(),
        H::Imp(d) => {
            let a = make_array(d.clone());
            prim_visible(a.as_any().downcast_ref::<Int32Array>().unwrap())
        }
        H::Mut(m) => m.as_slice().to_vec(),
        H::VecH(v) => v.iter().flat_map(|x| x.to_le_bytes()).collect(),
    }
}
/// pointers (start of visible data) of the buffers a handle reads through
fn data_ptrs(h: &H) -> Vec<usize> {
    match h {
        H::Buf(b) => vec![b.as_ptr() as usize],
        H::Bool(b) => vec![b.inner().as_ptr() as usize],
        H::Prim(a) => vec![a.values().inner().as_ptr() as usize],
        H::Ffi(..) => vec![],
        H::Imp(d) => d.buffers().iter().map(|b| b.as_ptr() as usize).collect(),
        H::Mut(m) => vec![m.as_ptr() as usize],
        H::VecH(v) => vec![v.as_ptr() as usize],
    }
}
/// allocation identity (start of the underlying allocation) for pool accounting
fn alloc_base(h: &H) -> Option<usize> {
    match h {
        H::Buf(b) => Some(b.data_ptr().as_ptr() as usize),
        H::Bool(b) => Some(b.inner().data_ptr().as_ptr() as usize),
        H::Prim(a) => Some(a.values().inner().data_ptr().as_ptr() as usize),
        H::Mut(m) => Some(m.as_ptr() as usize),
        _ => None,
    }
}
fn kind_tag(h: &H) -> u8 {
    match h {
        H::Buf(_) => 0,
        H::Bool(_) => 1,
        H::Prim(_) => 2,
        H::Ffi(..) => 3,
        H::Imp(_) => 4,
        H::Mut(_) => 5,
        H::VecH(_) => 6,
    }
}

// counting trampoline for exported FFI arrays
thread_local! {
    static ORIG_RELEASE: Cell<Option<unsafe extern "C" fn(*mut FFI_ArrowArray)>> = const { Cell::new(None) };
    static RELEASE_CALLS: Cell<usize> = const { Cell::new(0) };
}
unsafe extern "C" fn counting_release(a: *mut FFI_ArrowArray) {
    RELEASE_CALLS.with(|c| c.set(c.get() + 1));
    if let Some(f) = ORIG_RELEASE.with(|o| o.get()) {
        unsafe { f(a) }
    }
}

pub struct World {
    kind: Kind,
    slots: Vec<Slot>,
    region: (usize, usize),
    drops: Arc<AtomicUsize>,
    custom_mem: Option<(*mut u8, usize)>,
    pool: TrackingMemoryPool,
    pool_b: TrackingMemoryPool,
    /// which pool each claimed allocation is accounted in (false = pool, true = pool_b)
    claim_pool: BTreeMap<u32, bool>,
    /// model: claimed allocations base -> size
    claimed: BTreeMap<u32, (usize, usize)>,
    next_alloc: u32,
    exports: usize,
    max_handles: usize,
    /// allocation base of a wrapper (bytes::Bytes round trip) -> base of the arrow allocation it keeps alive
    alias: BTreeMap<u32, u32>,
}

impl Drop for World {
    fn drop(&mut self) {
        self.slots.clear();
        if let Some((p, l)) = self.custom_mem.take() {
            unsafe { drop(Vec::from_raw_parts(p, l, l)) };
        }
    }
}

#[derive(Clone, Debug, PartialEq, Eq, Hash)]
pub enum Op {
    Clone(u8),
    Slice(u8),
    Wrap(u8),
    WrapBool(u8),
    Unwrap(u8),
    Export(u8),
    Import(u8),
    IntoMutable(u8),
    IntoVec(u8),
    UnaryMut(u8),
    IntoBuilder(u8),
    AndAssign(u8),
    Claim(u8),
    /// claim in a second, distinct pool (any prior reservation must be released from the first)
    ClaimB(u8),
    Drop(u8),
    Grow(u8),
    Freeze(u8),
    VecToBuf(u8),
    Shrink(u8),
    ToBytes(u8),
}

type Fail = (String, String);
fn fail<T>(fp: &str, msg: String) -> Result<T, Fail> {
    Err((format!("c16:{fp}"), msg))
}

impl World {
    pub fn new(kind: Kind, max_handles: usize, hook: Option<Arc<dyn Fn() + Send + Sync>>) -> World {
        let init: Vec<i32> = (1..=REGION_I32 as i32).collect();
        let drops = Arc::new(AtomicUsize::new(0));
        let mut custom_mem = None;
        let buf = match kind {
            Kind::Vec => Buffer::from_vec(init.clone()),
            Kind::Mutable => {
                let mut m = MutableBuffer::new(REGION_BYTES);
                m.extend_from_slice(&init);
                m.into()
            }
            Kind::BytesCrate => {
                let raw: Vec<u8> = init.iter().flat_map(|x| x.to_le_bytes()).collect();
                Buffer::from(bytes::Bytes::from(raw))
            }
            Kind::Custom => {
                // 64 byte aligned backing memory so that typed views are legal
                let mut backing: Vec<u8> = vec![0u8; REGION_BYTES + 64];
                let base = backing.as_mut_ptr();
                let cap = backing.len();
                std::mem::forget(backing);
                custom_mem = Some((base, cap));
                let off = base.align_offset(64);
                let p = unsafe { base.add(off) };
                for (i, x) in init.iter().enumerate() {
                    unsafe { std::ptr::copy_nonoverlapping(x.to_le_bytes().as_ptr(), p.add(i * 4), 4) };
                }
                let owner: Arc<dyn Allocation> = Arc::new(Owner { ptr: p, len: REGION_BYTES, drops: drops.clone(), hook });
                unsafe { Buffer::from_custom_allocation(NonNull::new(p).unwrap(), REGION_BYTES, owner) }
            }
        };
        let region = (buf.as_ptr() as usize, REGION_BYTES);
        let snap = buf.as_slice().to_vec();
        RELEASE_CALLS.with(|c| c.set(0));
        World { kind, slots: vec![Slot { h: H::Buf(buf), snap, alloc: 0 }], next_alloc: 1, region, drops, custom_mem, pool: TrackingMemoryPool::default(), pool_b: TrackingMemoryPool::default(), claim_pool: BTreeMap::new(), claimed: BTreeMap::new(), exports: 0, max_handles, alias: BTreeMap::new() }
    }

    fn in_region(&self, h: &H) -> bool {
        if let H::Ffi(_, _, _, src_in_region) = h {
            return *src_in_region; // an exported struct keeps its source alive
        }
        data_ptrs(h).iter().any(|&p| p >= self.region.0 && p < self.region.0 + self.region.1)
    }

    /// returns Ok(false) when the op is not enabled in this state
    pub fn apply(&mut self, op: &Op) -> Result<bool, Fail> {
        let idx = match op {
            Op::Clone(i) | Op::Slice(i) | Op::Wrap(i) | Op::WrapBool(i) | Op::Unwrap(i) | Op::Export(i) | Op::Import(i) | Op::IntoMutable(i) | Op::IntoVec(i) | Op::UnaryMut(i)
            | Op::IntoBuilder(i) | Op::AndAssign(i) | Op::Claim(i) | Op::ClaimB(i) | Op::Drop(i) | Op::Grow(i) | Op::Freeze(i) | Op::VecToBuf(i) | Op::Shrink(i) | Op::ToBytes(i) => *i as usize,
        };
        if idx >= self.slots.len() {
            return Ok(false);
        }
        let room = self.slots.len() < self.max_handles;
        match op {
            Op::Clone(_) => {
                if !room {
                    return Ok(false);
                }
                let s = &self.slots[idx];
                let h = match &s.h {
                    H::Buf(b) => H::Buf(b.clone()),
                    H::Bool(b) => H::Bool(b.clone()),
                    H::Prim(a) => H::Prim(a.clone()),
                    H::Imp(d) => H::Imp(d.clone()),
                    _ => return Ok(false),
                };
                let snap = s.snap.clone();
                let alloc = s.alloc;
                self.slots.push(Slot { h, snap, alloc });
            }
            Op::Slice(_) => {
                // replaces the handle by a slice of itself (offset one element)
                let s = &mut self.slots[idx];
                match &s.h {
                    H::Buf(b) if b.len() >= 8 => {
                        let nb = b.slice(4);
                        s.snap = s.snap[4..].to_vec();
                        s.h = H::Buf(nb);
                    }
                    H::Prim(a) if a.len() >= 2 => {
                        let na = a.slice(1, a.len() - 1);
                        s.snap = s.snap[5..].to_vec();
                        s.h = H::Prim(na);
                    }
                    H::Bool(b) if b.len() >= 2 => {
                        let nb = b.slice(1, b.len() - 1);
                        s.snap = s.snap[1..].to_vec();
                        s.h = H::Bool(nb);
                    }
                    _ => return Ok(false),
                }
            }
            Op::Wrap(_) => {
                let s = &mut self.slots[idx];
                let H::Buf(b) = &s.h else { return Ok(false) };
                if b.len() % 4 != 0 || b.is_empty() {
                    return Ok(false);
                }
                let n = b.len() / 4;
                // validity: element 1 null when there are >= 2 elements (separate standard allocation)
                let nulls = if n >= 2 { Some(NullBuffer::from((0..n).map(|i| i != 1).collect::<Vec<bool>>())) } else { None };
                let a = Int32Array::new(ScalarBuffer::new(b.clone(), 0, n), nulls);
                s.snap = prim_visible(&a);
                s.h = H::Prim(a);
            }
            Op::WrapBool(_) => {
                let s = &mut self.slots[idx];
                let H::Buf(b) = &s.h else { return Ok(false) };
                if b.is_empty() {
                    return Ok(false);
                }
                let bb = BooleanBuffer::new(b.clone(), 3, b.len() * 8 - 5);
                s.snap = bool_visible(&bb);
                s.h = H::Bool(bb);
            }
            Op::Unwrap(_) => {
                let s = &mut self.slots[idx];
                match std::mem::replace(&mut s.h, H::VecH(vec![])) {
                    H::Prim(a) => {
                        let (_, values, _) = a.into_parts();
                        let b = values.into_inner();
                        s.snap = b.as_slice().to_vec();
                        s.h = H::Buf(b);
                    }
                    H::Bool(bb) => {
                        let b = bb.into_inner();
                        s.snap = b.as_slice().to_vec();
                        s.h = H::Buf(b);
                    }
                    other => {
                        s.h = other;
                        return Ok(false);
                    }
                }
            }
            Op::Export(_) => {
                if !room {
                    return Ok(false);
                }
                let s = &self.slots[idx];
                let data = match &s.h {
                    H::Prim(a) => a.to_data(),
                    H::Imp(d) => d.clone(),
                    _ => return Ok(false),
                };
                let (mut fa, fs) = match to_ffi(&data) {
                    Ok(x) => x,
                    Err(e) => return fail("to_ffi error", format!("{e}")),
                };
                let orig = unsafe { fa.set_release(Some(counting_release)) };
                ORIG_RELEASE.with(|o| o.set(orig));
                self.exports += 1;
                let snap = s.snap.clone();
                let src_in_region = self.in_region(&s.h);
                let alloc = s.alloc;
                self.slots.push(Slot { h: H::Ffi(fa, fs, snap.clone(), src_in_region), snap, alloc });
            }
            Op::Import(_) => {
                let s = &mut self.slots[idx];
                match std::mem::replace(&mut s.h, H::VecH(vec![])) {
                    H::Ffi(fa, fs, snap, _) => {
                        let d = match unsafe { from_ffi(fa, &fs) } {
                            Ok(d) => d,
                            Err(e) => return fail("from_ffi error", format!("{e}")),
                        };
                        drop(fs);
                        if let Err(e) = d.validate_full() {
                            return fail("imported array invalid", format!("{e}"));
                        }
                        s.h = H::Imp(d);
                        s.snap = snap;
                    }
                    other => {
                        s.h = other;
                        return Ok(false);
                    }
                }
            }
            Op::IntoMutable(_) => {
                let s = &mut self.slots[idx];
                match std::mem::replace(&mut s.h, H::VecH(vec![])) {
                    H::Buf(b) => match b.into_mutable() {
                        Ok(mut m) => {
                            if m.as_slice() != &s.snap[..] {
                                return fail("into_mutable changed content", format!("{:?} vs {:?}", m.as_slice(), s.snap));
                            }
                            if !m.is_empty() {
                                m.as_slice_mut()[0] ^= 0xFF;
                                s.snap[0] ^= 0xFF;
                            }
                            s.h = H::Mut(m);
                        }
                        Err(b) => s.h = H::Buf(b),
                    },
                    other => {
                        s.h = other;
                        return Ok(false);
                    }
                }
            }
            Op::IntoVec(_) => {
                let s = &mut self.slots[idx];
                match std::mem::replace(&mut s.h, H::VecH(vec![])) {
                    H::Buf(b) => {
                        match b.into_vec::<i32>() {
                            Ok(mut v) => {
                                // memory left arrow's management: its claim (if any) is over
                                self.claimed.remove(&s.alloc);
                                s.alloc = self.next_alloc;
                                self.next_alloc += 1;
                                let got: Vec<u8> = v.iter().flat_map(|x| x.to_le_bytes()).collect();
                                if got != s.snap {
                                    return fail("into_vec changed content", format!("{got:02x?} vs {:02x?}", s.snap));
                                }
                                if let Some(x) = v.first_mut() {
                                    *x = x.wrapping_add(100);
                                }
                                s.snap = v.iter().flat_map(|x| x.to_le_bytes()).collect();
                                s.h = H::VecH(v);
                            }
                            Err(b) => s.h = H::Buf(b),
                        }
                    }
                    other => {
                        s.h = other;
                        return Ok(false);
                    }
                }
            }
            Op::UnaryMut(_) => {
                let s = &mut self.slots[idx];
                match std::mem::replace(&mut s.h, H::VecH(vec![])) {
                    H::Prim(a) => {
                        let before = a.clone_values_model();
                        match a.unary_mut(|x| x.wrapping_mul(3).wrapping_add(1)) {
                            Ok(n) => {
                                let want: Vec<Option<i32>> = before.iter().map(|v| v.map(|x| x.wrapping_mul(3).wrapping_add(1))).collect();
                                let got: Vec<Option<i32>> = n.iter().collect();
                                if got != want {
                                    return fail("unary_mut wrong result", format!("{got:?} vs {want:?}"));
                                }
                                s.snap = prim_visible(&n);
                                s.h = H::Prim(n);
                                // the result is a new array that reuses the memory: whether a claim made on
                                // the consumed array carries over is unspecified -> accept both
                                for v in self.claimed.values_mut() {
                                    v.0 = 0;
                                }
                            }
                            Err(a) => s.h = H::Prim(a),
                        }
                    }
                    other => {
                        s.h = other;
                        return Ok(false);
                    }
                }
            }
            Op::IntoBuilder(_) => {
                let s = &mut self.slots[idx];
                match std::mem::replace(&mut s.h, H::VecH(vec![])) {
                    H::Prim(a) => {
                        let before: Vec<Option<i32>> = a.iter().collect();
                        match a.into_builder() {
                            Ok(mut bld) => {
                                let bld: &mut PrimitiveBuilder<Int32Type> = &mut bld;
                                if let Some(x) = bld.values_slice_mut().first_mut() {
                                    *x = -7;
                                }
                                bld.append_value(77);
                                let n = bld.finish();
                                let mut want = before.clone();
                                if let Some(Some(x)) = want.first_mut() {
                                    *x = -7;
                                }
                                want.push(Some(77));
                                let got: Vec<Option<i32>> = n.iter().collect();
                                if got != want {
                                    return fail("into_builder wrong result", format!("{got:?} vs {want:?}"));
                                }
                                s.snap = prim_visible(&n);
                                s.h = H::Prim(n);
                                for v in self.claimed.values_mut() {
                                    v.0 = 0;
                                }
                            }
                            Err(a) => s.h = H::Prim(a),
                        }
                    }
                    other => {
                        s.h = other;
                        return Ok(false);
                    }
                }
            }
            Op::AndAssign(_) => {
                let s = &mut self.slots[idx];
                let H::Bool(b) = &mut s.h else { return Ok(false) };
                let mask = BooleanBuffer::collect_bool(b.len(), |i| i % 3 != 0);
                let before = b.inner().data_ptr();
                *b &= &mask;
                if b.inner().data_ptr() != before {
                    s.alloc = self.next_alloc;
                    self.next_alloc += 1;
                }
                for (i, v) in s.snap.iter_mut().enumerate() {
                    *v &= (i % 3 != 0) as u8;
                }
            }
            Op::Claim(_) | Op::ClaimB(_) => {
                let use_b = matches!(op, Op::ClaimB(_));
                let s = &self.slots[idx];
                let pool: &TrackingMemoryPool = if use_b { &self.pool_b } else { &self.pool };
                let cap = match &s.h {
                    H::Buf(b) => {
                        b.claim(pool);
                        b.capacity()
                    }
                    H::Mut(m) => {
                        m.claim(pool);
                        m.capacity()
                    }
                    H::Bool(b) => {
                        b.claim(pool);
                        b.inner().capacity()
                    }
                    _ => return Ok(false),
                };
                self.claimed.insert(s.alloc, (cap, cap));
                self.claim_pool.insert(s.alloc, use_b);
            }
            Op::Drop(_) => {
                let s = self.slots.remove(idx);
                drop(s);
            }
            Op::Grow(_) => {
                let s = &mut self.slots[idx];
                let H::Mut(m) = &mut s.h else { return Ok(false) };
                let was = self.claimed.remove(&s.alloc);
                m.extend_from_slice(&[0x5Au8; 200]);
                s.snap.extend_from_slice(&[0x5Au8; 200]);
                m.truncate(s.snap.len() - 100);
                s.snap.truncate(s.snap.len() - 100);
                if let Some((was_lo, _)) = was {
                    // MutableBuffer re-sizes its reservation to the capacity on reallocation and to the
                    // *length* on truncate/resize/clear (asserted by arrow-buffer's own pool tests), so
                    // while a region is mutable its accounted size is only known to lie in [len, capacity]
                    // (a lower bound of 0 means the claim may already be gone, see UnaryMut / IntoBuilder)
                    self.claimed.insert(s.alloc, (if was_lo == 0 { 0 } else { m.len() }, m.capacity()));
                }
            }
            Op::Freeze(_) => {
                let s = &mut self.slots[idx];
                match std::mem::replace(&mut s.h, H::VecH(vec![])) {
                    H::Mut(m) => s.h = H::Buf(m.into()),
                    other => {
                        s.h = other;
                        return Ok(false);
                    }
                }
            }
            Op::VecToBuf(_) => {
                let s = &mut self.slots[idx];
                match std::mem::replace(&mut s.h, H::Mut(MutableBuffer::new(0))) {
                    H::VecH(v) => s.h = H::Buf(Buffer::from_vec(v)),
                    other => {
                        s.h = other;
                        return Ok(false);
                    }
                }
            }
            Op::Shrink(_) => {
                let s = &mut self.slots[idx];
                let H::Buf(b) = &mut s.h else { return Ok(false) };
                let before = b.capacity();
                b.shrink_to_fit();
                let after = b.capacity();
                if let Some(c) = self.claimed.get_mut(&s.alloc) {
                    // a reallocation re-sizes the reservation to the new capacity
                    c.0 = c.0.min(after);
                    c.1 = c.1.max(after).min(before.max(c.1));
                }
            }
            Op::ToBytes(_) => {
                // Buffer -> bytes::Bytes -> Buffer (zero-copy both ways, owner must stay alive)
                let s = &mut self.slots[idx];
                match std::mem::replace(&mut s.h, H::VecH(vec![])) {
                    H::Buf(b) => {
                        let by: bytes::Bytes = b.into();
                        if by.as_ref() != &s.snap[..] {
                            return fail("bytes::Bytes::from(Buffer) content", format!("{:?}", by.as_ref()));
                        }
                        let nb = Buffer::from(by);
                        // a new arrow allocation object (custom, owner = the bytes::Bytes) that keeps the old one alive
                        self.alias.insert(self.next_alloc, s.alloc);
                        s.alloc = self.next_alloc;
                        self.next_alloc += 1;
                        s.h = H::Buf(nb);
                    }
                    other => {
                        s.h = other;
                        return Ok(false);
                    }
                }
            }
        }
        Ok(true)
    }

    /// oracle evaluated after every step
    pub fn check(&mut self, at: &str) -> Result<(), Fail> {
        for (i, s) in self.slots.iter().enumerate() {
            let v = visible(&s.h);
            if v != s.snap {
                return fail(
                    "content visible through a live handle changed",
                    format!("{at}: handle {i} (kind {}) shows {:02x?}, expected {:02x?}", kind_tag(&s.h), &v[..v.len().min(24)], &s.snap[..s.snap.len().min(24)]),
                );
            }
        }
        if self.kind == Kind::Custom {
            let live = self.slots.iter().any(|s| self.in_region(&s.h));
            let d = self.drops.load(Ordering::SeqCst);
            if live && d != 0 {
                return fail("owner released while a handle is alive", format!("{at}: releases={d}"));
            }
            if !live && d != 1 {
                return fail("owner not released exactly once after last handle died", format!("{at}: releases={d}"));
            }
        }
        // pool accounting: claims survive while any handle references the allocation
        let mut live: Vec<u32> = self.slots.iter().map(|s| s.alloc).collect();
        let mut i = 0;
        while i < live.len() {
            if let Some(&t) = self.alias.get(&live[i]) {
                if !live.contains(&t) {
                    live.push(t);
                }
            }
            i += 1;
        }
        self.alias.retain(|k, _| live.contains(k));
        self.claimed.retain(|b, _| live.contains(b));
        self.claim_pool.retain(|b, _| live.contains(b));
        for (which, pool) in [(false, &self.pool), (true, &self.pool_b)] {
            let mine = |k: &u32| self.claim_pool.get(k).copied().unwrap_or(false) == which;
            let lo: usize = self.claimed.iter().filter(|(k, _)| mine(k)).map(|(_, v)| v.0).sum();
            let hi: usize = self.claimed.iter().filter(|(k, _)| mine(k)).map(|(_, v)| v.1).sum();
            let got = pool.used();
            if got < lo || got > hi {
                return fail("pool accounting differs from live claimed regions", format!("{at}: pool{}.used()={got}, model=[{lo},{hi}] ({:?} in pools {:?})", if which { "B" } else { "A" }, self.claimed, self.claim_pool));
            }
        }
        Ok(())
    }

    /// drop everything (in index order) and check the final quiescent state
    pub fn teardown(mut self) -> Result<(), Fail> {
        while !self.slots.is_empty() {
            let s = self.slots.remove(0);
            drop(s);
            self.check("teardown")?;
        }
        if self.kind == Kind::Custom && self.drops.load(Ordering::SeqCst) != 1 {
            return fail("owner not released exactly once after last handle died", format!("teardown: releases={}", self.drops.load(Ordering::SeqCst)));
        }
        if self.pool.used() != 0 || self.pool_b.used() != 0 {
            return fail("pool not empty after every region died", format!("pool.used()={} poolB.used()={}", self.pool.used(), self.pool_b.used()));
        }
        let rc = RELEASE_CALLS.with(|c| c.get());
        if rc != self.exports {
            return fail("FFI release callback count", format!("release ran {rc} times for {} exports", self.exports));
        }
        Ok(())
    }

    /// canonical state key: sorted handle descriptors (kind, region-relative pointer or copy group, len, content hash, claimed)
    pub fn key(&self) -> Vec<u64> {
        // copy groups: distinct non-region allocation bases numbered by first content hash
        let mut descs: Vec<(u8, i64, u64, u64, bool, u64)> = vec![];
        let mut bases: Vec<u32> = vec![];
        for s in &self.slots {
            let p = data_ptrs(&s.h).first().copied().unwrap_or(0);
            let rel: i64 = if p >= self.region.0 && p < self.region.0 + self.region.1 { (p - self.region.0) as i64 } else { -1 };
            let base = alloc_base(&s.h).unwrap_or(0);
            let claimed = self.claimed.contains_key(&s.alloc);
            let in_b = self.claim_pool.get(&s.alloc).copied().unwrap_or(false);
            let off_in_alloc = if base != 0 { (p.wrapping_sub(base)) as u64 } else { 0 };
            bases.push(s.alloc + 1);
            descs.push((kind_tag(&s.h) + if in_b { 100 } else { 0 }, rel, s.snap.len() as u64, vcore::fnv64(&s.snap), claimed, off_in_alloc));
        }
        // sharing structure: for each handle, the sorted multiset of descriptor ids it shares an allocation with
        let mut out: Vec<Vec<u64>> = vec![];
        for (i, d) in descs.iter().enumerate() {
            let mut group: Vec<u64> = (0..descs.len()).filter(|&j| j != i && bases[j] == bases[i] && bases[i] != 0).map(|j| descs[j].0 as u64 * 1000 + descs[j].5).collect();
            group.sort();
            let mut v = vec![d.0 as u64, d.1 as u64, d.2, d.3, d.4 as u64, d.5, group.len() as u64];
            v.extend(group);
            out.push(v);
        }
        out.sort();
        let mut flat = vec![self.drops.load(Ordering::SeqCst) as u64, self.exports as u64];
        for v in out {
            flat.push(u64::MAX);
            flat.extend(v);
        }
        flat
    }
}

trait ValuesModel {
    fn clone_values_model(&self) -> Vec<Option<i32>>;
}
impl ValuesModel for Int32Array {
    fn clone_values_model(&self) -> Vec<Option<i32>> {
        self.iter().collect()
    }
}

pub struct SeqModel {
    pub kind: Kind,
    pub max_handles: usize,
}

pub fn all_ops(max_handles: usize) -> Vec<Op> {
    let mut v = vec![];
    for i in 0..max_handles as u8 {
        v.extend([
            Op::Clone(i),
            Op::Slice(i),
            Op::Wrap(i),
            Op::WrapBool(i),
            Op::Unwrap(i),
            Op::Export(i),
            Op::Import(i),
            Op::IntoMutable(i),
            Op::IntoVec(i),
            Op::UnaryMut(i),
            Op::IntoBuilder(i),
            Op::AndAssign(i),
            Op::Claim(i),
            Op::ClaimB(i),
            Op::Drop(i),
            Op::Grow(i),
            Op::Freeze(i),
            Op::VecToBuf(i),
            Op::Shrink(i),
            Op::ToBytes(i),
        ]);
    }
    v
}

impl HistoryModel for SeqModel {
    type Op = Op;
    type Key = Vec<u64>;
    fn ops(&self) -> Vec<Op> {
        all_ops(self.max_handles)
    }
    fn run(&self, hist: &[Op]) -> Step<Vec<u64>> {
        let kind = self.kind;
        let mh = self.max_handles;
        let r = catch(move || -> Result<Option<Vec<u64>>, Fail> {
            let mut w = World::new(kind, mh, None);
            w.check("init")?;
            for (si, op) in hist.iter().enumerate() {
                if !w.apply(op)? {
                    return Ok(None);
                }
                w.check(&format!("after step {si} {op:?}"))?;
            }
            let key = w.key();
            w.teardown()?;
            Ok(Some(key))
        });
        match r {
            Ok(Ok(Some(k))) => Step::State { key: k, terminal: false },
            Ok(Ok(None)) => Step::Disabled,
            Ok(Err((fp, msg))) => Step::Violation(fp, msg),
            Err(p) => Step::Violation(format!("c16:{}", p.fingerprint()), format!("{p:?}")),
        }
    }
}

// -------------------------------------------------------------------------------------------
// Thread schedules: two or three threads, each owning clones of handles to the same region and
// running a short op list; scheduling points between ops and inside the custom owner's release.

#[derive(Clone, Copy, Debug, PartialEq, Eq)]
pub enum TOp {
    Drop,
    CloneDrop,
    IntoMutable,
    IntoVec,
    UnaryMut,
    AndAssign,
    Claim,
    ExportImportDrop,
    SliceDrop,
}

/// result of a thread's op for the serialisation oracle
#[derive(Clone, Debug, PartialEq, Eq)]
pub enum TRes {
    Done,
    InPlace,
    Declined,
}

struct Shared {
    drops: Arc<AtomicUsize>,
    pool: Arc<TrackingMemoryPool>,
    region: (usize, usize),
    init: Vec<u8>,
}

fn thread_body(ops: Vec<TOp>, buf: Buffer, sh: Arc<Shared>, results: Arc<std::sync::Mutex<Vec<(usize, TOp, TRes, bool)>>>, h: vcore::sched::Handle) {
    let tid = h.id;
    let mut cur: Option<Buffer> = Some(buf);
    for op in ops {
        h.point(&format!("{op:?}"));
        let Some(b) = cur.take() else { break };
        // every op first checks that what it sees is the initial content (nobody may have mutated it)
        let seen_ok = b.as_slice() == &sh.init[..b.len().min(sh.init.len())] || b.as_ptr() as usize != sh.region.0;
        let mut res = TRes::Done;
        match op {
            TOp::Drop => drop(b),
            TOp::CloneDrop => {
                let c = b.clone();
                h.point("clone held");
                drop(c);
                cur = Some(b);
            }
            TOp::SliceDrop => {
                let c = b.slice(4);
                h.point("slice held");
                drop(c);
                cur = Some(b);
            }
            TOp::IntoMutable => match b.into_mutable() {
                Ok(mut m) => {
                    res = TRes::InPlace;
                    h.point("mutable held");
                    m.as_slice_mut()[0] ^= 0xFF;
                    h.point("mutated");
                    m.as_slice_mut()[0] ^= 0xFF;
                    cur = Some(m.into());
                }
                Err(b) => {
                    res = TRes::Declined;
                    cur = Some(b);
                }
            },
            TOp::IntoVec => match b.into_vec::<i32>() {
                Ok(mut v) => {
                    res = TRes::InPlace;
                    v[0] = v[0].wrapping_add(1);
                    h.point("vec mutated");
                    v[0] = v[0].wrapping_sub(1);
                    cur = Some(Buffer::from_vec(v));
                }
                Err(b) => {
                    res = TRes::Declined;
                    cur = Some(b);
                }
            },
            TOp::UnaryMut => {
                let n = b.len() / 4;
                let a = Int32Array::new(ScalarBuffer::new(b, 0, n), None);
                match a.unary_mut(|x| x ^ 0x55) {
                    Ok(a2) => {
                        res = TRes::InPlace;
                        h.point("unary_mut applied");
                        // undo so that later readers in this thread still see init
                        let a3 = a2.unary_mut(|x| x ^ 0x55).unwrap_or_else(|a| a.unary(|x: i32| x ^ 0x55));
                        let (_, v, _) = a3.into_parts();
                        cur = Some(v.into_inner());
                    }
                    Err(a) => {
                        res = TRes::Declined;
                        let (_, v, _) = a.into_parts();
                        cur = Some(v.into_inner());
                    }
                }
            }
            TOp::AndAssign => {
                let mut bb = BooleanBuffer::new(b, 0, REGION_BYTES * 8);
                let ones = BooleanBuffer::new_set(REGION_BYTES * 8);
                h.point("before &=");
                bb &= &ones; // identity mask: content must not change whichever path is taken
                cur = Some(bb.into_inner());
            }
            TOp::Claim => {
                b.claim(&*sh.pool);
                cur = Some(b);
            }
            TOp::ExportImportDrop => {
                let n = b.len() / 4;
                let a = Int32Array::new(ScalarBuffer::new(b.clone(), 0, n), None);
                let (fa, fs) = to_ffi(&a.to_data()).unwrap();
                drop(a);
                h.point("exported");
                let d = unsafe { from_ffi(fa, &fs) }.unwrap();
                h.point("imported");
                let ok = make_array(d.clone()).as_any().downcast_ref::<Int32Array>().unwrap().values().inner().as_slice() == b.as_slice();
                if !ok {
                    res = TRes::Declined; // flagged below through seen_ok=false
                }
                drop(d);
                cur = Some(b);
                if !ok {
                    results.lock().unwrap().push((tid, op, TRes::Done, false));
                    continue;
                }
            }
        }
        results.lock().unwrap().push((tid, op, res, seen_ok));
    }
    h.point("final drop");
    drop(cur);
}

pub fn thread_op_lists(len: usize) -> Vec<Vec<TOp>> {
    let alpha = [TOp::Drop, TOp::CloneDrop, TOp::IntoMutable, TOp::IntoVec, TOp::UnaryMut, TOp::AndAssign, TOp::Claim, TOp::ExportImportDrop, TOp::SliceDrop];
    let mut out: Vec<Vec<TOp>> = vec![vec![]];
    for _ in 0..len {
        let mut next = vec![];
        for p in &out {
            for a in alpha {
                if p.last() == Some(&TOp::Drop) {
                    continue;
                }
                let mut q = p.clone();
                q.push(a);
                next.push(q);
            }
        }
        out = next;
    }
    out
}

/// explore all schedules (preemption bound) of one program; returns (schedules, violation)
pub fn explore_program(kind: Kind, prog: &[Vec<TOp>], bound: usize) -> (u64, Option<Fail>, std::collections::BTreeSet<String>) {
    let mut violation: Option<Fail> = None;
    let mut outcomes = std::collections::BTreeSet::new();
    let results: Arc<std::sync::Mutex<Vec<(usize, TOp, TRes, bool)>>> = Default::default();
    let sh_cell: std::cell::RefCell<Option<(Arc<Shared>, World)>> = std::cell::RefCell::new(None);
    let n = vcore::sched::explore(
        bound,
        || {
            results.lock().unwrap().clear();
            let mut w = World::new(kind, 8, None);
            let H::Buf(b0) = &w.slots[0].h else { unreachable!() };
            let b0 = b0.clone();
            let sh = Arc::new(Shared { drops: w.drops.clone(), pool: Arc::new(TrackingMemoryPool::default()), region: w.region, init: w.slots[0].snap.clone() });
            let mut bodies: Vec<Box<dyn FnOnce(vcore::sched::Handle) + Send>> = vec![];
            for ops in prog.iter() {
                let (ops, b, sh2, res) = (ops.clone(), b0.clone(), sh.clone(), results.clone());
                bodies.push(Box::new(move |h| thread_body(ops, b, sh2, res, h)));
            }
            drop(b0);
            w.slots.clear(); // the threads now hold the only handles
            *sh_cell.borrow_mut() = Some((sh, w));
            bodies
        },
        |choices, rr| {
            let (sh, w) = sh_cell.borrow_mut().take().unwrap();
            let res = results.lock().unwrap().clone();
            let mut sig: Vec<String> = res.iter().map(|(t, o, r, _)| format!("{t}:{o:?}:{r:?}")).collect();
            sig.sort();
            outcomes.insert(sig.join(","));
            if violation.is_some() {
                return;
            }
            let sched = format!("{choices:?}");
            if let Some(p) = &rr.panicked {
                violation = Some((format!("c16:schedule:panic"), format!("{p} schedule={sched}")));
                return;
            }
            if let Some((t, o, _, _)) = res.iter().find(|r| !r.3) {
                violation = Some(("c16:schedule:content visible through a live handle changed".into(), format!("thread {t} op {o:?} observed foreign mutation; schedule={sched} trace={:?}", rr.trace)));
                return;
            }
            if kind == Kind::Custom && sh.drops.load(Ordering::SeqCst) != 1 {
                violation = Some(("c16:schedule:owner not released exactly once".into(), format!("releases={} schedule={sched}", sh.drops.load(Ordering::SeqCst))));
                return;
            }
            if sh.pool.used() != 0 {
                violation = Some(("c16:schedule:pool not empty after every region died".into(), format!("used={} schedule={sched} trace={:?}", sh.pool.used(), rr.trace)));
                return;
            }
            // in-place success requires that no other thread still holds the region: with k threads
            // holding clones at the time, at most the last remaining holder may succeed in place.
            drop(w);
        },
    );
    (n, violation, outcomes)
}


// -------------------------------------------------------------------------------------------
// C Data / C Stream Interface round trip over the type grid: imported == exported, in every drop order

fn ffi_grid(ctx: &Ctx, st: &mut Stats) {
    use arrow_array::ffi_stream::{ArrowArrayStreamReader, FFI_ArrowArrayStream};
    use arrow_array::{RecordBatch, RecordBatchIterator, RecordBatchReader};
    use vmodel::build::{layouts_1, realise};
    use vmodel::extract::extract;
    let grid = vmodel::grid_core();
    let n = ctx.pick(2, 3);
    let mut cases = vec![];
    for (ti, dt) in grid.iter().enumerate() {
        for col in vmodel::columns(dt, 4, n, true) {
            for lay in layouts_1(dt) {
                cases.push((ti, col.clone(), lay));
            }
        }
    }
    st.merge(vcore::par_for(ctx, "ffi-grid", cases.len() as u64, 16, |idx, st| {
        let (ti, col, lay) = &cases[idx as usize];
        let dt = &grid[*ti];
        let Ok(a) = realise(dt, col, lay) else { return };
        let case = || json!({"sub":"ffi-grid","column":vmodel::col_json(dt, col),"layout":lay.name()});
        let kind = dt.to_string().split(['(', '<']).next().unwrap_or("").to_string();
        for drop_source_first in [false, true] {
            let r = catch(|| -> Result<Option<String>, (String, String)> {
                let data = a.to_data();
                let (fa, fs) = to_ffi(&data).map_err(|e| ("c16:ffi:export-error".to_string(), e.to_string()))?;
                let keep = if drop_source_first { None } else { Some(data) };
                let imported = unsafe { from_ffi(fa, &fs) }.map_err(|e| (format!("c16:ffi:import-error:{kind}"), e.to_string()))?;
                drop(fs);
                drop(keep);
                // (from_ffi is an unsafe, unchecked import: C16 only demands logical equality. Whether the imported
                // layout is also spec-valid is recorded: an empty slice of a byte array comes back with a zero-length
                // values buffer under a non-zero first offset.)
                let wf_err = vmodel::validate::well_formed(make_array(imported.clone()).as_ref()).err();
                let back = extract(make_array(imported).as_ref());
                if &back != col {
                    return Err((format!("c16:ffi:imported-differs:{kind}"), format!("{back:?}")));
                }
                Ok(wf_err)
            });
            st.add("ffi-grid", 1, (!col.is_empty()) as u64);
            match r {
                Ok(Ok(None)) => {}
                Ok(Ok(Some(e))) => st.count(&format!("ffi-imported-not-spec-valid:{}", e.split(':').next().unwrap_or("")), 1),
                Ok(Err((fp, m))) => st.violate(2_000_000_000 + idx, fp, m, case),
                Err(p) => st.violate(2_000_000_000 + idx, format!("c16:ffi:{}", p.fingerprint()), format!("{p:?}"), case),
            }
        }
        // stream interface: two batches through FFI_ArrowArrayStream
        let r = catch(|| -> Result<(), (String, String)> {
            let schema = Arc::new(arrow_schema::Schema::new(vec![arrow_schema::Field::new("c", dt.clone(), true)]));
            let b = RecordBatch::try_new(schema.clone(), vec![a.clone()]).map_err(|e| ("c16:ffi-stream:batch".to_string(), e.to_string()))?;
            let reader = RecordBatchIterator::new(vec![Ok(b.clone()), Ok(b.slice(0, b.num_rows() / 2))].into_iter(), schema.clone());
            let stream = FFI_ArrowArrayStream::new(Box::new(reader));
            let mut rd = ArrowArrayStreamReader::try_new(stream).map_err(|e| (format!("c16:ffi-stream:import-error:{kind}"), e.to_string()))?;
            if rd.schema() != schema {
                return Err((format!("c16:ffi-stream:schema-differs:{kind}"), format!("{:?}", rd.schema())));
            }
            let mut rows = vec![];
            for x in &mut rd {
                let x = x.map_err(|e| (format!("c16:ffi-stream:next-error:{kind}"), e.to_string()))?;
                if x.num_columns() != 1 || x.column(0).data_type() != dt {
                    return Err((format!("c16:ffi-stream:schema-differs:{kind}"), format!("{:?}", x.schema())));
                }
                rows.push(extract(x.column(0).as_ref()));
            }
            drop(rd);
            let want = vec![col.clone(), col[..col.len() / 2].to_vec()];
            if rows != want {
                return Err((format!("c16:ffi-stream:rows-differ:{kind}"), format!("{rows:?}")));
            }
            Ok(())
        });
        st.add("ffi-stream", 1, (!col.is_empty()) as u64);
        match r {
            Ok(Ok(())) => {}
            Ok(Err((fp, m))) => st.violate(2_000_000_000 + idx, fp, m, case),
            Err(p) => st.violate(2_000_000_000 + idx, format!("c16:ffi-stream:{}", p.fingerprint()), format!("{p:?}"), case),
        }
        if idx as usize == cases.len() / 2 {
            st.sample("ffi-grid", case);
        }
    }));
}

pub fn run(ctx: &Ctx) -> ! {
    let mut st = Stats::new();
    if let Some(case) = vcore::load_replay(ctx) {
        println!("replay case: {case}");
        println!("C16 replays are re-executed by the check itself: histories are listed in the case; run ./check C16 to re-explore");
        std::process::exit(0);
    }
    ffi_grid(ctx, &mut st);
    // ---- sequential histories
    let depth = ctx.pick(6, 8);
    let max_handles = ctx.pick(3, 4);
    for kind in [Kind::Vec, Kind::Mutable, Kind::Custom, Kind::BytesCrate] {
        let m = SeqModel { kind, max_handles };
        let mut s = Stats::new();
        let label = format!("histories-{kind:?}");
        vcore::bfs::explore(ctx, &label, &m, depth, true, &mut s);
        s.add(&label, s.transitions, s.states);
        s.outcome_n(&format!("states-{kind:?}"), s.states);
        st.merge(s);
    }
    eprintln!("[c16] sequential histories done at {:.1}s: states={} transitions={}", ctx.start.elapsed().as_secs_f64(), st.states, st.transitions);
    // ---- thread schedules
    let bound = ctx.pick(2, 3);
    let lists1 = thread_op_lists(1);
    let lists2 = thread_op_lists(2);
    let mut programs: Vec<Vec<Vec<TOp>>> = vec![];
    for a in &lists2 {
        for b in &lists1 {
            programs.push(vec![a.clone(), b.clone()]);
        }
    }
    if !ctx.quick() {
        for a in &lists2 {
            for b in &lists2 {
                programs.push(vec![a.clone(), b.clone()]);
            }
        }
        for a in &lists1 {
            for b in &lists1 {
                for c in &lists1 {
                    programs.push(vec![a.clone(), b.clone(), c.clone()]);
                }
            }
        }
    }
    let kinds: Vec<Kind> = if ctx.quick() { vec![Kind::Vec, Kind::Custom] } else { vec![Kind::Vec, Kind::Custom, Kind::Mutable, Kind::BytesCrate] };
    let n_prog = (programs.len() * kinds.len()) as u64;
    let sst = vcore::par_for(ctx, "schedules", n_prog, 1, |idx, st| {
        let kind = kinds[(idx % kinds.len() as u64) as usize];
        let prog = &programs[(idx / kinds.len() as u64) as usize];
        let (n, v, outcomes) = explore_program(kind, prog, bound);
        st.add("schedules", n, (n > 1) as u64 * n);
        st.states += n;
        st.transitions += n;
        st.traces += n;
        for o in outcomes {
            st.outcome(&format!("sched:{o}"));
        }
        if let Some((fp, msg)) = v {
            st.violate(1_000_000_000 + idx, fp, msg, || json!({"sub":"schedules","kind":format!("{kind:?}"),"program":format!("{prog:?}"),"preemption_bound":bound}));
        }
        if idx == n_prog / 2 {
            st.sample("schedules", || json!({"kind":format!("{kind:?}"),"program":format!("{prog:?}"),"schedules":n,"preemption_bound":bound}));
        }
    });
    st.merge(sst);
    st.extra.insert("preemption_bound".into(), json!(bound));
    st.extra.insert("history_depth".into(), json!(depth));
    st.extra.insert("max_live_handles".into(), json!(max_handles));
    vcore::finish(
        ctx,
        Level {
            category: "model_checking",
            rule: "sequential: BFS over all operation histories (19 op kinds x handle index) up to the stated depth from a region of each allocation kind, deduplicated by a canonical sharing-graph key; every transition is executed on the real objects and checked against per-handle content snapshots, the custom owner's release counter, the FFI release trampoline counter and a model of pool claims. schedules: for every program (op lists per thread) all schedules with at most `preemption_bound` preemptions are executed under a baton scheduler (scheduling points between operations and inside operations where the harness holds derived handles). A state/schedule is non-trivial when it is distinct by key / when the program admits more than one schedule.".into(),
            assumptions: vec![
                "interleavings inside library functions without a harness call-back are not explored; memory orderings are not modelled (sequentially consistent at scheduling-point granularity)".into(),
                "pool model: a claim lasts while any handle references the allocation; conversion into a Vec ends arrow's management of the memory".into(),
            ],
            exhaustive_space: "all histories up to depth; all schedules up to the preemption bound for every enumerated program".into(),
        },
        st,
    )
}
