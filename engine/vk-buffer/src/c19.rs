//! C19 — bit-packed mask primitives are exact at every bit offset and length.
//! Exhaustive over (source offset 0..=130) x (dest/second offset 0..=130) x (length 0..=200) x content
//! patterns x surrounding-bit fillings x base pointer misalignments; oracle = Vec<bool> model.
use arrow_buffer::bit_chunk_iterator::{BitChunks, UnalignedBitChunk};
use arrow_buffer::bit_iterator::{BitIndexIterator, BitIndexU32Iterator, BitIterator, BitSliceIterator, try_for_each_valid_idx};
use arrow_buffer::buffer::{
    bitwise_bin_op_helper, bitwise_quaternary_op_helper, bitwise_unary_op_helper, buffer_bin_and, buffer_bin_and_not, buffer_bin_or, buffer_bin_xor,
    buffer_unary_not,
};
use arrow_buffer::{BooleanBuffer, BooleanBufferBuilder, Buffer, MutableBuffer, NullBuffer, NullBufferBuilder, bit_mask, bit_util};
use vcore::bfs::{HistoryModel, Step};
use vcore::serde_json::{Value, json};
use vcore::{Ctx, LFSR_A, LFSR_B, LFSR_C, Level, Stats, catch, lfsr_bytes, par_for};

#[inline]
fn bit(b: &[u8], i: usize) -> bool {
    (b[i / 8] >> (i % 8)) & 1 == 1
}
fn setb(b: &mut [u8], i: usize, v: bool) {
    if v {
        b[i / 8] |= 1 << (i % 8)
    } else {
        b[i / 8] &= !(1 << (i % 8))
    }
}

/// content patterns for the addressed range
#[derive(Clone, Copy, Debug, PartialEq)]
pub enum Pat {
    Zero,
    One,
    Alt01,
    Alt10,
    Single(u8), // index into the position menu
    LfsrA,
    LfsrB,
}
const SINGLE_POS: usize = 8;
fn single_pos(k: u8, len: usize) -> Option<usize> {
    let p = match k {
        0 => 0,
        1 => 1,
        2 => 62,
        3 => 63,
        4 => 64,
        5 => 65,
        6 => len.wrapping_sub(2),
        7 => len.wrapping_sub(1),
        _ => unreachable!(),
    };
    if p < len { Some(p) } else { None }
}
pub fn all_patterns() -> Vec<Pat> {
    let mut v = vec![Pat::Zero, Pat::One, Pat::Alt01, Pat::Alt10, Pat::LfsrA, Pat::LfsrB];
    for k in 0..SINGLE_POS {
        v.push(Pat::Single(k as u8));
    }
    v
}
thread_local! {
    static STREAMS: (Vec<u8>, Vec<u8>, Vec<u8>) = (lfsr_bytes(1024, LFSR_A), lfsr_bytes(1024, LFSR_B), lfsr_bytes(1024, LFSR_C));
}
fn pat_bit(p: Pat, i: usize, len: usize) -> bool {
    match p {
        Pat::Zero => false,
        Pat::One => true,
        Pat::Alt01 => i % 2 == 1,
        Pat::Alt10 => i % 2 == 0,
        Pat::Single(k) => single_pos(k, len) == Some(i),
        Pat::LfsrA => STREAMS.with(|s| bit(&s.0, i % 8192)),
        Pat::LfsrB => STREAMS.with(|s| bit(&s.1, i % 8192)),
    }
}
/// surrounding bits: 0 = all zero, 1 = all one, 2 = LFSR-C
fn sur_bit(s: u8, i: usize) -> bool {
    match s {
        0 => false,
        1 => true,
        _ => STREAMS.with(|st| bit(&st.2, i % 8192)),
    }
}

/// Build a byte image: bits [off, off+len) = pattern, everything else = surround; total bytes cover
/// off+len plus `tail` bytes. Returned inside a 64-byte aligned MutableBuffer shifted by `mis` bytes.
fn image(p: Pat, sur: u8, off: usize, len: usize, mis: usize, tail: usize) -> (Buffer, Vec<bool>) {
    let nbytes = (off + len).div_ceil(8) + tail;
    let mut raw = vec![0u8; nbytes];
    let mut model = Vec::with_capacity(len);
    for i in 0..nbytes * 8 {
        let v = if i >= off && i < off + len {
            let b = pat_bit(p, i - off, len);
            model.push(b);
            b
        } else {
            sur_bit(sur, i)
        };
        setb(&mut raw, i, v);
    }
    let mut mb = MutableBuffer::new(nbytes + mis);
    mb.extend_from_slice(&vec![0xA5u8; mis]);
    mb.extend_from_slice(&raw);
    let buf: Buffer = mb.into();
    (buf.slice(mis), model)
}

macro_rules! ck {
    ($cond:expr, $name:expr) => {
        if !($cond) {
            return Err($name.to_string());
        }
    };
}

fn runs(model: &[bool]) -> Vec<(usize, usize)> {
    let mut out = vec![];
    let mut i = 0;
    while i < model.len() {
        if model[i] {
            let s = i;
            while i < model.len() && model[i] {
                i += 1;
            }
            out.push((s, i));
        } else {
            i += 1;
        }
    }
    out
}

fn bb_eq_model(b: &BooleanBuffer, model: &[bool]) -> bool {
    b.len() == model.len() && (0..model.len()).all(|i| b.value(i) == model[i])
}

/// All reading / unary operations on one (buffer, off, len) against `model`.
fn check_unary(buf: &Buffer, off: usize, len: usize, model: &[bool], deep: bool) -> Result<(), String> {
    let bytes: &[u8] = buf.as_slice();
    let ones = model.iter().filter(|x| **x).count();
    let idx: Vec<usize> = (0..len).filter(|&i| model[i]).collect();
    let bb = BooleanBuffer::new(buf.clone(), off, len);
    ck!(bb.len() == len && bb.offset() == off && bb.is_empty() == (len == 0), "BooleanBuffer::new/len/offset");
    ck!(bb.count_set_bits() == ones, "BooleanBuffer::count_set_bits");
    ck!(buf.count_set_bits_offset(off, len) == ones, "Buffer::count_set_bits_offset");
    ck!(bb.has_true() == (ones > 0), "BooleanBuffer::has_true");
    ck!(bb.has_false() == (ones < len), "BooleanBuffer::has_false");
    ck!((0..len).all(|i| bb.value(i) == model[i]), "BooleanBuffer::value");
    ck!((0..len).all(|i| bit_util::get_bit(bytes, off + i) == model[i]), "bit_util::get_bit");
    ck!(bb.iter().eq(model.iter().copied()), "BooleanBuffer::iter");
    ck!(bb.iter().rev().eq(model.iter().rev().copied()), "BitIterator::rev");
    {
        let it = bb.iter();
        ck!(it.size_hint() == (len, Some(len)) && it.len() == len, "BitIterator::size_hint");
        // alternate front/back consumption
        let mut it = BitIterator::new(bytes, off, len);
        let (mut lo, mut hi) = (0usize, len);
        let mut turn = 0;
        while lo < hi {
            if turn % 3 == 2 {
                hi -= 1;
                ck!(it.next_back() == Some(model[hi]), "BitIterator::next_back(mixed)");
            } else {
                ck!(it.next() == Some(model[lo]), "BitIterator::next(mixed)");
                lo += 1;
            }
            turn += 1;
        }
        ck!(it.next().is_none() && it.next_back().is_none(), "BitIterator::exhausted");
        for n in [0usize, 1, 7, 63, 64, len.saturating_sub(1), len, len + 1] {
            let mut it = BitIterator::new(bytes, off, len);
            ck!(it.nth(n) == model.get(n).copied(), "BitIterator::nth");
            if n < len {
                ck!(it.next() == model.get(n + 1).copied(), "BitIterator::nth then next");
            }
            let mut it = BitIterator::new(bytes, off, len);
            let want = if n < len { Some(model[len - 1 - n]) } else { None };
            ck!(it.nth_back(n) == want, "BitIterator::nth_back");
        }
    }
    ck!(bb.set_indices().eq(idx.iter().copied()), "BooleanBuffer::set_indices");
    ck!(BitIndexIterator::new(bytes, off, len).eq(idx.iter().copied()), "BitIndexIterator");
    ck!(bb.set_indices_u32().eq(idx.iter().map(|&i| i as u32)), "BooleanBuffer::set_indices_u32");
    ck!(BitIndexU32Iterator::new(bytes, off, len).eq(idx.iter().map(|&i| i as u32)), "BitIndexU32Iterator");
    let rs = runs(model);
    ck!(bb.set_slices().eq(rs.iter().copied()), "BooleanBuffer::set_slices");
    ck!(BitSliceIterator::new(bytes, off, len).eq(rs.iter().copied()), "BitSliceIterator");
    {
        // try_for_each_valid_idx (null_count exact as the contract requires)
        let mut got = vec![];
        let r: Result<(), ()> = try_for_each_valid_idx(len, off, len - ones, Some(bytes), |i| {
            got.push(i);
            Ok(())
        });
        ck!(r.is_ok() && got == idx, "try_for_each_valid_idx");
    }
    // chunks
    {
        let bc = BitChunks::new(bytes, off, len);
        let full = len / 64;
        let rem = len % 64;
        ck!(bc.chunk_len() == full && bc.remainder_len() == rem, "BitChunks::chunk_len/remainder_len");
        let it = bc.iter();
        ck!(it.len() == full, "BitChunkIterator::len");
        let mut n = 0;
        for (ci, w) in bc.iter().enumerate() {
            for j in 0..64 {
                ck!(((w >> j) & 1 == 1) == model[ci * 64 + j], "BitChunks::iter");
            }
            n += 1;
        }
        ck!(n == full, "BitChunks::iter count");
        let r = bc.remainder_bits();
        for j in 0..64 {
            let want = if j < rem { model[full * 64 + j] } else { false };
            ck!(((r >> j) & 1 == 1) == want, "BitChunks::remainder_bits");
        }
        let padded: Vec<u64> = bc.iter_padded().collect();
        ck!(padded.len() == full + 1, "BitChunks::iter_padded len");
        ck!(padded[full] == r, "BitChunks::iter_padded remainder");
        let bc2 = bb.bit_chunks();
        ck!(bc2.iter().eq(bc.iter()) && bc2.remainder_bits() == r, "BooleanBuffer::bit_chunks");
        let bc3 = buf.bit_chunks(off, len);
        ck!(bc3.iter().eq(bc.iter()) && bc3.remainder_bits() == r, "Buffer::bit_chunks");
    }
    {
        let u = UnalignedBitChunk::new(bytes, off, len);
        let words: Vec<u64> = u.iter().collect();
        let lead = u.lead_padding();
        let trail = u.trailing_padding();
        ck!(u.count_ones() == ones, "UnalignedBitChunk::count_ones");
        if len == 0 {
            ck!(words.iter().all(|w| *w == 0), "UnalignedBitChunk::empty");
        } else {
            ck!(lead < 64 && trail < 64 && lead + len + trail == words.len() * 64, "UnalignedBitChunk::paddings");
            let total = words.len() * 64;
            for g in 0..total {
                let v = (words[g / 64] >> (g % 64)) & 1 == 1;
                let want = if g >= lead && g < lead + len { model[g - lead] } else { false };
                ck!(v == want, "UnalignedBitChunk::bits");
            }
            let mut rebuilt = vec![];
            rebuilt.extend(u.prefix());
            rebuilt.extend_from_slice(u.chunks());
            rebuilt.extend(u.suffix());
            ck!(rebuilt == words, "UnalignedBitChunk::prefix/chunks/suffix");
        }
    }
    // constructors / word ops producing new buffers
    let nb = !&bb;
    ck!(nb.len() == len && (0..len).all(|i| nb.value(i) != model[i]), "BooleanBuffer::not");
    let fb = BooleanBuffer::from_bits(bytes, off, len);
    ck!(bb_eq_model(&fb, model), "BooleanBuffer::from_bits");
    ck!(fb == bb && bb == fb, "BooleanBuffer::eq(from_bits)");
    if len > 0 {
        ck!(nb != bb, "BooleanBuffer::ne(not)");
    }
    let un = BooleanBuffer::from_bitwise_unary_op(bytes, off, len, |a| !a);
    ck!(un.len() == len && (0..len).all(|i| un.value(i) != model[i]), "BooleanBuffer::from_bitwise_unary_op");
    ck!(un == nb, "BooleanBuffer::eq(not,unary_op)");
    let h = bitwise_unary_op_helper(buf, off, len, |a| !a);
    ck!(h.len() * 8 >= len && (0..len).all(|i| bit(h.as_slice(), i) != model[i]), "bitwise_unary_op_helper");
    let h = buffer_unary_not(buf, off, len);
    ck!(h.len() * 8 >= len && (0..len).all(|i| bit(h.as_slice(), i) != model[i]), "buffer_unary_not");
    let bs = buf.bit_slice(off, len);
    ck!(bs.len() * 8 >= len && (0..len).all(|i| bit(bs.as_slice(), i) == model[i]), "Buffer::bit_slice");
    let sl = bb.sliced();
    ck!(sl.len() * 8 >= len && (0..len).all(|i| bit(sl.as_slice(), i) == model[i]), "BooleanBuffer::sliced");
    let cb = BooleanBuffer::collect_bool(len, |i| model[i]);
    ck!(bb_eq_model(&cb, model) && cb == bb, "BooleanBuffer::collect_bool/eq");
    let mcb = MutableBuffer::collect_bool(len, |i| model[i]);
    ck!((0..len).all(|i| bit(mcb.as_slice(), i) == model[i]) && mcb.len() == len.div_ceil(8), "MutableBuffer::collect_bool");
    ck!((len..mcb.len() * 8).all(|i| !bit(mcb.as_slice(), i)), "MutableBuffer::collect_bool padding");
    let fv = BooleanBuffer::from(model.to_vec());
    ck!(fv == bb, "BooleanBuffer::from(Vec<bool>)/eq");
    let fi: BooleanBuffer = model.iter().copied().collect();
    ck!(fi == bb, "BooleanBuffer::from_iter/eq");
    // in-place unary with canary
    {
        let mut dst = bytes.to_vec();
        bit_util::apply_bitwise_unary_op(&mut dst, off, len, |a| !a);
        for i in 0..dst.len() * 8 {
            let want = if i >= off && i < off + len { !model[i - off] } else { bit(bytes, i) };
            ck!(bit(&dst, i) == want, "apply_bitwise_unary_op");
        }
        if len > 0 {
            let mut dst = bytes.to_vec();
            let p = off + len / 2;
            bit_util::set_bit(&mut dst, p);
            ck!((0..dst.len() * 8).all(|i| bit(&dst, i) == (i == p || bit(bytes, i))), "bit_util::set_bit");
            let mut dst = bytes.to_vec();
            bit_util::unset_bit(&mut dst, p);
            ck!((0..dst.len() * 8).all(|i| bit(&dst, i) == (i != p && bit(bytes, i))), "bit_util::unset_bit");
        }
    }
    // slices
    let slice_menu: Vec<(usize, usize)> = if deep {
        let mut v = vec![];
        for o in [0usize, 1, 7, 8, 63, 64, 65, len / 2, len.saturating_sub(1), len] {
            for l in [0usize, 1, 63, 64, 65, len] {
                if o <= len && l <= len - o {
                    v.push((o, l));
                }
            }
        }
        v.sort();
        v.dedup();
        v
    } else {
        let mut v = vec![(0, len), (len / 2, len - len / 2), (len, 0)];
        if len > 0 {
            v.push((1, len - 1));
            v.push((0, len - 1));
        }
        v
    };
    for &(o, l) in &slice_menu {
        let s = bb.slice(o, l);
        ck!(bb_eq_model(&s, &model[o..o + l]), "BooleanBuffer::slice");
        ck!(s.count_set_bits() == model[o..o + l].iter().filter(|x| **x).count(), "BooleanBuffer::slice.count_set_bits");
    }
    // find_nth_set_bit_position
    {
        let starts: Vec<usize> = if deep { (0..=len).collect() } else { vec![0, len / 2, len] };
        for &start in &starts {
            let after: Vec<usize> = idx.iter().copied().filter(|&i| i >= start).collect();
            let ns: Vec<usize> = if deep && len <= 70 {
                (0..=after.len() + 1).collect()
            } else {
                vec![0, 1, 2, after.len() / 2, after.len(), after.len() + 1]
            };
            for n in ns {
                let want = if n == 0 {
                    start
                } else if n <= after.len() {
                    after[n - 1] + 1
                } else {
                    len
                };
                ck!(bb.find_nth_set_bit_position(start, n) == want, "BooleanBuffer::find_nth_set_bit_position");
            }
        }
    }
    // NullBuffer
    {
        let nbuf = NullBuffer::new(bb.clone());
        ck!(nbuf.null_count() == len - ones && nbuf.len() == len, "NullBuffer::null_count");
        ck!((0..len).all(|i| nbuf.is_valid(i) == model[i] && nbuf.is_null(i) != model[i]), "NullBuffer::is_valid/is_null");
        ck!(nbuf.valid_indices().eq(idx.iter().copied()), "NullBuffer::valid_indices");
        ck!(nbuf.valid_slices().eq(rs.iter().copied()), "NullBuffer::valid_slices");
        ck!(nbuf.iter().eq(model.iter().copied()), "NullBuffer::iter");
        let mut got = vec![];
        let r: Result<(), ()> = nbuf.try_for_each_valid_idx(|i| {
            got.push(i);
            Ok(())
        });
        ck!(r.is_ok() && got == idx, "NullBuffer::try_for_each_valid_idx");
        for &(o, l) in &slice_menu {
            let s = nbuf.slice(o, l);
            let m = &model[o..o + l];
            ck!(s.len() == l && s.null_count() == m.iter().filter(|x| !**x).count() && (0..l).all(|i| s.is_valid(i) == m[i]), "NullBuffer::slice");
        }
        for count in [0usize, 1, 2, 3, 9] {
            if len * count > 2048 {
                continue;
            }
            let e = nbuf.expand(count);
            ck!(e.len() == len * count && e.null_count() == (len - ones) * count, "NullBuffer::expand len/null_count");
            ck!((0..len * count).all(|i| e.is_valid(i) == model[i / count]), "NullBuffer::expand bits");
        }
        ck!(nbuf == NullBuffer::from(model.to_vec()), "NullBuffer::eq");
        if let Some(fu) = NullBuffer::from_unsliced_buffer(bs.clone(), len) {
            ck!(fu == nbuf, "NullBuffer::from_unsliced_buffer");
        } else {
            ck!(len - ones == 0 || len == 0, "NullBuffer::from_unsliced_buffer none");
        }
    }
    Ok(())
}

/// All binary operations on (left buf, lo) x (right buf, ro) x len.
fn check_binary(lb: &Buffer, lo: usize, lm: &[bool], rb: &Buffer, ro: usize, rm: &[bool], len: usize) -> Result<(), String> {
    let (lbytes, rbytes) = (lb.as_slice(), rb.as_slice());
    let l = BooleanBuffer::new(lb.clone(), lo, len);
    let r = BooleanBuffer::new(rb.clone(), ro, len);
    let and: Vec<bool> = (0..len).map(|i| lm[i] & rm[i]).collect();
    let or: Vec<bool> = (0..len).map(|i| lm[i] | rm[i]).collect();
    let xor: Vec<bool> = (0..len).map(|i| lm[i] ^ rm[i]).collect();
    let andn: Vec<bool> = (0..len).map(|i| lm[i] & !rm[i]).collect();
    ck!(bb_eq_model(&(&l & &r), &and), "BooleanBuffer::bitand");
    ck!(bb_eq_model(&(&l | &r), &or), "BooleanBuffer::bitor");
    ck!(bb_eq_model(&(&l ^ &r), &xor), "BooleanBuffer::bitxor");
    ck!((l == r) == (lm == rm), "BooleanBuffer::eq");
    let fb = BooleanBuffer::from_bitwise_binary_op(lbytes, lo, rbytes, ro, len, |a, b| a & !b);
    ck!(bb_eq_model(&fb, &andn), "BooleanBuffer::from_bitwise_binary_op");
    let chk_buf = |b: Buffer, m: &[bool]| b.len() * 8 >= len && (0..len).all(|i| bit(b.as_slice(), i) == m[i]);
    ck!(chk_buf(buffer_bin_and(lb, lo, rb, ro, len), &and), "buffer_bin_and");
    ck!(chk_buf(buffer_bin_or(lb, lo, rb, ro, len), &or), "buffer_bin_or");
    ck!(chk_buf(buffer_bin_xor(lb, lo, rb, ro, len), &xor), "buffer_bin_xor");
    ck!(chk_buf(buffer_bin_and_not(lb, lo, rb, ro, len), &andn), "buffer_bin_and_not");
    ck!(chk_buf(bitwise_bin_op_helper(lb, lo, rb, ro, len, |a, b| !(a ^ b)), &xor.iter().map(|x| !x).collect::<Vec<_>>()), "bitwise_bin_op_helper");
    // in-place with canary
    {
        let mut dst = lbytes.to_vec();
        bit_util::apply_bitwise_binary_op(&mut dst, lo, rbytes, ro, len, |a, b| a & !b);
        for i in 0..dst.len() * 8 {
            let want = if i >= lo && i < lo + len { andn[i - lo] } else { bit(lbytes, i) };
            ck!(bit(&dst, i) == want, "apply_bitwise_binary_op");
        }
    }
    // set_bits: write right[ro..ro+len] into a copy of left at lo
    {
        let mut dst = lbytes.to_vec();
        let zeros = bit_mask::set_bits(&mut dst, rbytes, lo, ro, len);
        ck!(zeros == rm.iter().filter(|x| !**x).count(), "bit_mask::set_bits null count");
        // documented: sets the bits of write_data in the range to be equal to data. set_bits is
        // specified for zero-initialised destinations (it ORs); use an all-zero destination range check
        let mut z = vec![0u8; lbytes.len()];
        let zeros2 = bit_mask::set_bits(&mut z, rbytes, lo, ro, len);
        ck!(zeros2 == zeros, "bit_mask::set_bits null count(2)");
        for i in 0..z.len() * 8 {
            let want = if i >= lo && i < lo + len { rm[i - lo] } else { false };
            ck!(bit(&z, i) == want, "bit_mask::set_bits");
        }
        // and on a pre-filled destination: bits outside the range are never modified
        for i in 0..dst.len() * 8 {
            if !(i >= lo && i < lo + len) {
                ck!(bit(&dst, i) == bit(lbytes, i), "bit_mask::set_bits canary");
            }
        }
    }
    // assign ops: shared (clone alive) and uniquely owned
    for unique in [false, true] {
        for (name, want, which) in [("and", &and, 0), ("or", &or, 1), ("xor", &xor, 2)] {
            let (mut t, keep) = if unique {
                // private copy of the bytes with identical bit offset
                (BooleanBuffer::new(Buffer::from(lbytes.to_vec()), lo, len), None)
            } else {
                (l.clone(), Some(l.clone()))
            };
            match which {
                0 => t &= &r,
                1 => t |= &r,
                _ => t ^= &r,
            }
            ck!(bb_eq_model(&t, want), format!("BooleanBuffer::bit{name}_assign(unique={unique})"));
            if let Some(k) = keep {
                ck!(bb_eq_model(&k, lm), format!("BooleanBuffer::bit{name}_assign mutated shared operand"));
            }
            if unique {
                // bits outside the addressed range must be untouched when mutated in place
                let tb = t.inner().as_slice();
                if t.offset() == lo && tb.len() == lbytes.len() {
                    for i in 0..tb.len() * 8 {
                        if !(i >= lo && i < lo + len) {
                            ck!(bit(tb, i) == bit(lbytes, i), format!("BooleanBuffer::bit{name}_assign canary"));
                        }
                    }
                }
            }
        }
    }
    ck!(bb_eq_model(&r, rm) && bb_eq_model(&l, lm), "operands unchanged");
    // NullBuffer union / contains
    {
        let (ln, rn) = (NullBuffer::new(l.clone()), NullBuffer::new(r.clone()));
        let lnull = lm.iter().filter(|x| !**x).count();
        let rnull = rm.iter().filter(|x| !**x).count();
        match NullBuffer::union(Some(&ln), Some(&rn)) {
            Some(u) => {
                ck!(u.len() == len && (0..len).all(|i| u.is_valid(i) == and[i]), "NullBuffer::union");
                ck!(u.null_count() == and.iter().filter(|x| !**x).count(), "NullBuffer::union null_count");
            }
            None => ck!(lnull == 0 && rnull == 0, "NullBuffer::union none"),
        }
        match NullBuffer::union(Some(&ln), None) {
            Some(u) => ck!((0..len).all(|i| u.is_valid(i) == lm[i]), "NullBuffer::union(one)"),
            None => ck!(lnull == 0, "NullBuffer::union(one) none"),
        }
        match NullBuffer::union_many([Some(&ln), None, Some(&rn), Some(&ln)]) {
            Some(u) => ck!(u.len() == len && (0..len).all(|i| u.is_valid(i) == and[i]), "NullBuffer::union_many"),
            None => ck!(lnull == 0 && rnull == 0, "NullBuffer::union_many none"),
        }
        // contains: all nulls in other also exist in self
        let want = (0..len).all(|i| rm[i] || !lm[i]);
        ck!(ln.contains(&rn) == want, "NullBuffer::contains");
    }
    Ok(())
}

fn case_json(sub: &str, p: Pat, p2: Option<Pat>, sur: u8, mis: (usize, usize), lo: usize, ro: usize, len: usize) -> Value {
    json!({"sub": sub, "pattern": format!("{p:?}"), "pattern2": p2.map(|p| format!("{p:?}")), "surround": sur, "misalign": [mis.0, mis.1], "left_offset": lo, "right_offset": ro, "len": len})
}

fn run_unary_case(p: Pat, sur: u8, mis: usize, off: usize, len: usize, deep: bool) -> Result<(), String> {
    let (buf, model) = image(p, sur, off, len, mis, 3);
    match catch(|| check_unary(&buf, off, len, &model, deep)) {
        Ok(r) => r,
        Err(pi) => Err(format!("PANIC {}", pi.fingerprint())),
    }
}
fn run_binary_case(p: Pat, p2: Pat, sur: u8, mis: (usize, usize), lo: usize, ro: usize, len: usize) -> Result<(), String> {
    let (lb, lm) = image(p, sur, lo, len, mis.0, 2);
    let (rb, rm) = image(p2, (sur + 1) % 3, ro, len, mis.1, 1);
    match catch(|| check_binary(&lb, lo, &lm, &rb, ro, &rm, len)) {
        Ok(r) => r,
        Err(pi) => Err(format!("PANIC {}", pi.fingerprint())),
    }
}

fn parse_pat(s: &str) -> Pat {
    match s {
        "Zero" => Pat::Zero,
        "One" => Pat::One,
        "Alt01" => Pat::Alt01,
        "Alt10" => Pat::Alt10,
        "LfsrA" => Pat::LfsrA,
        "LfsrB" => Pat::LfsrB,
        s if s.starts_with("Single(") => Pat::Single(s[7..s.len() - 1].parse().unwrap()),
        _ => panic!("bad pattern {s}"),
    }
}

// ---------------------------------------------------------------------------------------------
// builders: history exploration

#[derive(Clone, Debug)]
pub enum BOp {
    Append(bool),
    AppendN(usize, bool),
    AppendSlice(usize),
    AppendWord(usize),
    AppendPacked(usize, usize),
    AppendBuffer(usize, usize),
    SetBit(u8, bool),
    Truncate(usize),
    Resize(usize, bool),
    Advance(usize),
    Finish,
}

struct BoolBuilderModel {
    ops: Vec<BOp>,
}
const KS: [usize; 8] = [0, 1, 7, 8, 9, 63, 64, 65];

fn builder_ops(thorough: bool) -> Vec<BOp> {
    let mut v = vec![BOp::Append(true), BOp::Append(false)];
    let ks: &[usize] = if thorough { &KS } else { &[0, 1, 7, 9, 64, 65] };
    for &k in ks {
        v.push(BOp::AppendN(k, true));
        v.push(BOp::AppendN(k, false));
        v.push(BOp::AppendSlice(k));
        v.push(BOp::AppendWord(k.min(64)));
        v.push(BOp::Advance(k));
    }
    for (s, l) in [(0usize, 5usize), (3, 9), (5, 64), (7, 66), (64, 3)] {
        v.push(BOp::AppendPacked(s, l));
        v.push(BOp::AppendBuffer(s, l));
    }
    for w in 0..3u8 {
        v.push(BOp::SetBit(w, true));
        v.push(BOp::SetBit(w, false));
    }
    for k in [0usize, 1, 3, 8, 64] {
        v.push(BOp::Truncate(k));
        v.push(BOp::Resize(k, true));
        v.push(BOp::Resize(k, false));
    }
    v.push(BOp::Finish);
    v.dedup_by_key(|o| format!("{o:?}"));
    v
}

fn src_bits() -> Vec<u8> {
    lfsr_bytes(32, LFSR_B)
}

impl HistoryModel for BoolBuilderModel {
    type Op = BOp;
    type Key = Vec<bool>;
    fn ops(&self) -> Vec<BOp> {
        self.ops.clone()
    }
    fn run(&self, hist: &[BOp]) -> Step<Vec<bool>> {
        let r = catch(|| -> Result<Option<Vec<bool>>, (String, String)> {
            let src = src_bits();
            let mut b = BooleanBufferBuilder::new(0);
            let mut nb = NullBufferBuilder::new(0);
            let mut nb_applicable = true; // NullBufferBuilder supports a subset of ops
            let mut m: Vec<bool> = vec![];
            for (si, op) in hist.iter().enumerate() {
                let fail = |what: &str| Err((format!("c19:builder:{what}"), format!("step {si} {op:?}")));
                match op {
                    BOp::Append(v) => {
                        b.append(*v);
                        if nb_applicable { nb.append(*v); }
                        m.push(*v);
                    }
                    BOp::AppendN(k, v) => {
                        b.append_n(*k, *v);
                        if nb_applicable { if *v { nb.append_n_non_nulls(*k) } else { nb.append_n_nulls(*k) } }
                        m.extend(std::iter::repeat_n(*v, *k));
                    }
                    BOp::AppendSlice(k) => {
                        let s: Vec<bool> = (0..*k).map(|i| bit(&src, (i * 3 + 1) % 256)).collect();
                        b.append_slice(&s);
                        if nb_applicable { nb.append_slice(&s); }
                        m.extend(s);
                    }
                    BOp::AppendWord(k) => {
                        let w = 0xB5A3_C1F0_9E37_79B9u64;
                        b.append_word(w, *k);
                        for j in 0..*k {
                            let v = (w >> j) & 1 == 1;
                            if nb_applicable { nb.append(v); }
                            m.push(v);
                        }
                    }
                    BOp::AppendPacked(s, l) => {
                        b.append_packed_range(*s..*s + *l, &src);
                        for j in *s..*s + *l {
                            if nb_applicable { nb.append(bit(&src, j)); }
                            m.push(bit(&src, j));
                        }
                    }
                    BOp::AppendBuffer(s, l) => {
                        let bb = BooleanBuffer::new(Buffer::from(src.clone()), *s, *l);
                        b.append_buffer(&bb);
                        if nb_applicable { nb.append_buffer(&NullBuffer::new(bb)); }
                        for j in *s..*s + *l {
                            m.push(bit(&src, j));
                        }
                    }
                    BOp::SetBit(w, v) => {
                        if m.is_empty() {
                            return Ok(None);
                        }
                        let i = match w {
                            0 => 0,
                            1 => m.len() / 2,
                            _ => m.len() - 1,
                        };
                        b.set_bit(i, *v);
                        if nb_applicable { nb.set_bit(i, *v); }
                        m[i] = *v;
                    }
                    BOp::Truncate(k) => {
                        if *k > m.len() {
                            return Ok(None);
                        }
                        let nl = m.len() - *k;
                        b.truncate(nl);
                        if nb_applicable { nb.truncate(nl); }
                        m.truncate(nl);
                    }
                    BOp::Resize(k, grow) => {
                        let nl = if *grow { m.len() + *k } else if *k <= m.len() { m.len() - *k } else { return Ok(None) };
                        b.resize(nl);
                        m.resize(nl, false);
                        nb_applicable = false;
                    }
                    BOp::Advance(k) => {
                        b.advance(*k);
                        m.extend(std::iter::repeat_n(false, *k));
                        nb_applicable = false;
                    }
                    BOp::Finish => {
                        let fin = b.finish();
                        if !bb_eq_model(&fin, &m) {
                            return fail("finish");
                        }
                        if b.len() != 0 || !b.is_empty() {
                            return fail("finish leaves builder non-empty");
                        }
                        if nb_applicable {
                            let nfin = nb.finish();
                            let nulls = m.iter().filter(|x| !**x).count();
                            match nfin {
                                None => {
                                    if nulls != 0 {
                                        return fail("NullBufferBuilder::finish none with nulls");
                                    }
                                }
                                Some(n) => {
                                    if n.len() != m.len() || n.null_count() != nulls || !(0..m.len()).all(|i| n.is_valid(i) == m[i]) {
                                        return fail("NullBufferBuilder::finish");
                                    }
                                }
                            }
                        } else {
                            nb = NullBufferBuilder::new(0);
                            nb_applicable = true;
                        }
                        m.clear();
                    }
                }
                // oracle after every step
                if b.len() != m.len() {
                    return fail("len");
                }
                if !(0..m.len()).all(|i| b.get_bit(i) == m[i]) {
                    return fail("get_bit");
                }
                let sl = b.as_slice();
                if sl.len() * 8 < m.len() || !(0..m.len()).all(|i| bit(sl, i) == m[i]) {
                    return fail("as_slice");
                }
                // bits past len inside the last byte must be zero (finish() exposes them via values())
                if !(m.len()..sl.len() * 8).all(|i| !bit(sl, i)) {
                    return fail("trailing bits not zero");
                }
                let fc = b.finish_cloned();
                if !bb_eq_model(&fc, &m) {
                    return fail("finish_cloned");
                }
                if nb_applicable {
                    if nb.len() != m.len() {
                        return fail("NullBufferBuilder::len");
                    }
                    if !(0..m.len()).all(|i| nb.is_valid(i) == m[i]) {
                        return fail("NullBufferBuilder::is_valid");
                    }
                    let nulls = m.iter().filter(|x| !**x).count();
                    match nb.finish_cloned() {
                        None => {
                            if nulls != 0 {
                                return fail("NullBufferBuilder::finish_cloned none with nulls");
                            }
                        }
                        Some(n) => {
                            if n.len() != m.len() || n.null_count() != nulls || !(0..m.len()).all(|i| n.is_valid(i) == m[i]) {
                                return fail("NullBufferBuilder::finish_cloned");
                            }
                        }
                    }
                }
            }
            Ok(Some(m))
        });
        match r {
            Ok(Ok(Some(k))) => Step::State { key: k, terminal: false },
            Ok(Ok(None)) => Step::Disabled,
            Ok(Err((fp, msg))) => Step::Violation(fp, msg),
            Err(p) => Step::Violation(format!("c19:builder:{}", p.fingerprint()), format!("{p:?}")),
        }
    }
}

// ---------------------------------------------------------------------------------------------

pub fn replay(case: &Value) -> Result<(), String> {
    let sub = case["sub"].as_str().unwrap_or("");
    let g = |k: &str| case[k].as_u64().unwrap_or(0) as usize;
    match sub {
        "unary" | "long-unary" | "dense-content" => run_unary_case(parse_pat(case["pattern"].as_str().unwrap()), g("surround") as u8, case["misalign"][0].as_u64().unwrap() as usize, g("left_offset"), g("len"), true),
        "binary" | "long-binary" => run_binary_case(
            parse_pat(case["pattern"].as_str().unwrap()),
            parse_pat(case["pattern2"].as_str().unwrap()),
            g("surround") as u8,
            (case["misalign"][0].as_u64().unwrap() as usize, case["misalign"][1].as_u64().unwrap() as usize),
            g("left_offset"),
            g("right_offset"),
            g("len"),
        ),
        _ => Err(format!("replay of sub-engine {sub:?} is done by re-running the check (history descriptors are printed in the replay file)")),
    }
}

pub fn run(ctx: &Ctx) -> ! {
    let mut st = Stats::new();
    if let Some(case) = vcore::load_replay(ctx) {
        let r = replay(&case);
        println!("replay case: {case}");
        match &r {
            Ok(()) => println!("replay outcome: all operations agree with the Vec<bool> model"),
            Err(e) => println!("replay outcome: MISMATCH in {e}"),
        }
        std::process::exit(if r.is_ok() { 0 } else { 1 });
    }
    let pats = all_patterns();
    const NOFF: u64 = 131;
    const NLEN: u64 = 201;

    // ---- unary: off x len x pattern x surround x misalign (complete product)
    let surs: Vec<u8> = vec![0, 1, 2];
    let miss: Vec<usize> = vec![0, 1, 3, 7];
    let n_un = NOFF * NLEN * pats.len() as u64 * surs.len() as u64 * miss.len() as u64;
    let deep_quick = !ctx.quick();
    st.merge(par_for(ctx, "unary", n_un, 512, |idx, st| {
        let mut i = idx;
        let mis = miss[(i % miss.len() as u64) as usize];
        i /= miss.len() as u64;
        let sur = surs[(i % surs.len() as u64) as usize];
        i /= surs.len() as u64;
        let p = pats[(i % pats.len() as u64) as usize];
        i /= pats.len() as u64;
        let len = (i % NLEN) as usize;
        let off = (i / NLEN) as usize;
        // deep (all find_nth starts, dense slice menu) on a sub-lattice in quick, everywhere in thorough
        let deep = deep_quick || (mis == 0 && sur == 2);
        let r = run_unary_case(p, sur, mis, off, len, deep);
        let nontrivial = len > 0 && !matches!(p, Pat::Single(k) if single_pos(k, len).is_none());
        st.add("unary", 1, nontrivial as u64);
        match r {
            Ok(()) => {}
            Err(opn) => st.violate(idx, format!("c19:{opn}"), format!("operation {opn} disagrees with model at off={off} len={len} {p:?} sur={sur} mis={mis}"), || {
                case_json("unary", p, None, sur, (mis, 0), off, 0, len)
            }),
        }
        if idx == n_un / 2 || idx == n_un - 1 {
            st.sample("unary", || case_json("unary", p, None, sur, (mis, 0), off, 0, len));
        }
    }));

    // ---- binary: lo x ro x len (complete) x pattern pairs x surround x misalign pairs
    let ppairs: Vec<(Pat, Pat)> = if ctx.quick() {
        vec![(Pat::LfsrA, Pat::LfsrB), (Pat::One, Pat::Alt01)]
    } else {
        vec![(Pat::LfsrA, Pat::LfsrB), (Pat::One, Pat::Alt01), (Pat::Zero, Pat::LfsrA), (Pat::LfsrB, Pat::One), (Pat::Single(3), Pat::Single(4)), (Pat::Alt10, Pat::Alt01), (Pat::Single(7), Pat::LfsrA)]
    };
    let bcfg: Vec<(u8, (usize, usize))> = if ctx.quick() {
        vec![(2, (0, 0)), (1, (1, 3))]
    } else {
        vec![(2, (0, 0)), (1, (1, 3)), (0, (7, 0)), (2, (3, 7)), (1, (0, 1))]
    };
    let per = ppairs.len() as u64 * bcfg.len() as u64;
    let n_bin = NOFF * NOFF * NLEN * per;
    st.merge(par_for(ctx, "binary", n_bin, 2048, |idx, st| {
        let mut i = idx;
        let (sur, mis) = bcfg[(i % bcfg.len() as u64) as usize];
        i /= bcfg.len() as u64;
        let (p, p2) = ppairs[(i % ppairs.len() as u64) as usize];
        i /= ppairs.len() as u64;
        let len = (i % NLEN) as usize;
        i /= NLEN;
        let ro = (i % NOFF) as usize;
        let lo = (i / NOFF) as usize;
        let r = run_binary_case(p, p2, sur, mis, lo, ro, len);
        st.add("binary", 1, (len > 0) as u64);
        if let Err(opn) = r {
            st.violate(n_un + idx, format!("c19:{opn}"), format!("operation {opn} disagrees with model at lo={lo} ro={ro} len={len} {p:?}/{p2:?} sur={sur} mis={mis:?}"), || {
                case_json("binary", p, Some(p2), sur, mis, lo, ro, len)
            });
        }
        if idx == n_bin / 2 {
            st.sample("binary", || case_json("binary", p, Some(p2), sur, mis, lo, ro, len));
        }
    }));

    // ---- quaternary helper: 4 offsets from a menu
    let qoffs = [0usize, 1, 7, 8, 63, 64, 65];
    let qlens: Vec<usize> = if ctx.quick() { vec![0, 1, 7, 63, 64, 65, 127, 128, 129, 200] } else { (0..=200).collect() };
    let n_q = (qoffs.len() as u64).pow(4) * qlens.len() as u64;
    st.merge(par_for(ctx, "quaternary", n_q, 64, |idx, st| {
        let mut i = idx;
        let len = qlens[(i % qlens.len() as u64) as usize];
        i /= qlens.len() as u64;
        let mut offs = [0usize; 4];
        for o in offs.iter_mut() {
            *o = qoffs[(i % 7) as usize];
            i /= 7;
        }
        let imgs: Vec<(Buffer, Vec<bool>)> = (0..4).map(|k| image([Pat::LfsrA, Pat::LfsrB, Pat::Alt01, Pat::One][k], (k % 3) as u8, offs[k], len, [0, 1, 3, 7][k], 1)).collect();
        let r = catch(|| {
            let out = bitwise_quaternary_op_helper([&imgs[0].0, &imgs[1].0, &imgs[2].0, &imgs[3].0], offs, len, |a, b, c, d| (a & b) | (c & !d));
            out.len() * 8 >= len && (0..len).all(|j| bit(out.as_slice(), j) == ((imgs[0].1[j] & imgs[1].1[j]) | (imgs[2].1[j] & !imgs[3].1[j])))
        });
        st.add("quaternary", 1, (len > 0) as u64);
        match r {
            Ok(true) => {}
            Ok(false) => st.violate(n_un + n_bin + idx, "c19:bitwise_quaternary_op_helper", format!("offs={offs:?} len={len}"), || json!({"sub":"quaternary","offsets":offs,"len":len})),
            Err(p) => st.violate(n_un + n_bin + idx, format!("c19:PANIC {}", p.fingerprint()), format!("offs={offs:?} len={len}"), || json!({"sub":"quaternary","offsets":offs,"len":len})),
        }
        if idx == n_q - 1 {
            st.sample("quaternary", || json!({"offsets": offs, "len": len}));
        }
    }));

    // ---- long families (crossing CHUNK_FOLD_BLOCK_SIZE=16 words and 4096 bits)
    let long_lens: Vec<usize> = vec![255, 256, 257, 511, 512, 513, 1023, 1024, 1025, 1087, 1088, 1089, 2047, 2048, 2049, 4095, 4096, 4097];
    let long_offs: Vec<usize> = if ctx.quick() { vec![0, 1, 7, 63, 64, 65] } else { (0..=130).collect() };
    let long_p = [Pat::LfsrA, Pat::One, Pat::Zero, Pat::Single(7), Pat::Single(4), Pat::Alt01];
    let n_long = (long_lens.len() * long_offs.len() * long_offs.len() * long_p.len()) as u64;
    let base = n_un + n_bin + n_q;
    st.merge(par_for(ctx, "long", n_long, 4, |idx, st| {
        let mut i = idx as usize;
        let p = long_p[i % long_p.len()];
        i /= long_p.len();
        let ro = long_offs[i % long_offs.len()];
        i /= long_offs.len();
        let lo = long_offs[i % long_offs.len()];
        i /= long_offs.len();
        let len = long_lens[i];
        st.add("long", 1, 1);
        if ro == long_offs[0] {
            if let Err(opn) = run_unary_case(p, 2, lo % 8, lo, len, false) {
                st.violate(base + idx, format!("c19:{opn}"), format!("long-unary off={lo} len={len} {p:?}"), || case_json("long-unary", p, None, 2, (lo % 8, 0), lo, 0, len));
            }
        }
        if let Err(opn) = run_binary_case(p, Pat::LfsrB, 2, (0, ro % 8), lo, ro, len) {
            st.violate(base + idx, format!("c19:{opn}"), format!("long-binary lo={lo} ro={ro} len={len} {p:?}"), || case_json("long-binary", p, Some(Pat::LfsrB), 2, (0, ro % 8), lo, ro, len));
        }
        if idx == n_long - 1 {
            st.sample("long", || case_json("long-binary", p, Some(Pat::LfsrB), 2, (0, ro % 8), lo, ro, len));
        }
    }));

    // ---- builders: BFS over operation histories
    let depth = ctx.pick(3, 4);
    let m = BoolBuilderModel { ops: builder_ops(!ctx.quick()) };
    let mut bst = Stats::new();
    vcore::bfs::explore(ctx, "builders", &m, depth, true, &mut bst);
    bst.add("builders", bst.transitions, bst.states);
    let (bs, bt) = (bst.states, bst.transitions);
    st.merge(bst);
    st.extra.insert("builder_history".into(), json!({"states": bs, "transitions": bt, "depth": depth, "ops": m.ops.len(), "state_key": "model Vec<bool> contents"}));

    vcore::finish(
        ctx,
        Level {
            category: "exploration",
            rule: "cases are enumerated, never sampled: unary = complete product offset(0..=130) x len(0..=200) x 14 content patterns x 3 surround fillings x 4 base misalignments; binary = complete product left offset x right offset x len x pattern pairs x (surround, misalignment) configs; every enumerated case is distinct by construction; a case is non-trivial when len>0 and its pattern is realisable at that length".into(),
            assumptions: vec![
                "bitwise-local word closures only (!a, a&!b, ...), as the documentation of the word-op APIs requires".into(),
                "content alphabets: constant, alternating, single-bit at 8 boundary positions, two fixed xorshift streams".into(),
            ],
            exhaustive_space: "property quantifier: all source/dest bit offsets 0..=130 x all lengths 0..=200".into(),
        },
        st,
    )
}
