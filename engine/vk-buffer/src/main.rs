mod c16;
mod c19;
fn main() {
    let ctx = vcore::Ctx::from_args();
    match ctx.prop.as_str() {
        "C19" => c19::run(&ctx),
        "C16" => c16::run(&ctx),
        other => {
            eprintln!("MACHINERY: vk-buffer does not serve property {other:?}");
            std::process::exit(2)
        }
    }
}
