//! can_cast_types(Interval(YearMonth | DayTime), Int64) is true, but cast_with_options has no such arm.
use arrow_array::*;
use arrow_cast::{can_cast_types, cast};
use arrow_schema::{DataType, IntervalUnit};
fn main() {
    let a = IntervalYearMonthArray::from(vec![14]);
    println!("can_cast_types(Interval(YearMonth), Int64) = {}", can_cast_types(a.data_type(), &DataType::Int64));
    println!("cast -> {:?}", cast(&a, &DataType::Int64).map(|a| format!("{a:?}")));
    let dt = DataType::Interval(IntervalUnit::DayTime);
    let b = new_empty_array(&dt);
    println!("can_cast_types(Interval(DayTime), Int64) = {}", can_cast_types(&dt, &DataType::Int64));
    println!("cast of the EMPTY array -> {:?}", cast(&b, &DataType::Int64).map(|a| format!("{a:?}")));
}
