//! DataType Display -> FromStr is not the identity for empty names / time zones and for names containing
//! a backslash, a double quote (struct fields) or a single quote (list fields).
use arrow_schema::{DataType, Field, Fields, TimeUnit};
use std::sync::Arc;
fn main() {
    let cases = vec![
        DataType::Struct(Fields::from(vec![Field::new("", DataType::Int32, true)])),
        DataType::Timestamp(TimeUnit::Second, Some("".into())),
        DataType::Struct(Fields::from(vec![Field::new("a\"b", DataType::Int32, true)])),
        DataType::Struct(Fields::from(vec![Field::new("a\\b", DataType::Int32, true)])),
        DataType::List(Arc::new(Field::new("it's", DataType::Int32, true))),
        DataType::List(Arc::new(Field::new("", DataType::Int32, true))),
    ];
    for dt in cases {
        let text = dt.to_string();
        let back = text.parse::<DataType>();
        println!("{dt:?}\n   prints {text}\n   parses {:?}\n   identical: {}", back, matches!(&back, Ok(b) if *b == dt));
    }
}
