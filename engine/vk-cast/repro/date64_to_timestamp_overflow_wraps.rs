//! Date64 -> Timestamp(us|ns): the millisecond value is multiplied without an overflow check, so an
//! unrepresentable instant is returned as a wrapped value in BOTH modes (Date32 -> Timestamp(us|ns) is checked).
use arrow_array::*;
use arrow_cast::{CastOptions, cast_with_options};
use arrow_schema::{DataType, TimeUnit};
fn main() {
    for safe in [false, true] {
        let o = CastOptions { safe, ..Default::default() };
        // 9999-12-31 as Date64 (ms): perfectly ordinary, not representable in ns
        let a = Date64Array::from(vec![253402214400000i64, i64::MAX]);
        for u in [TimeUnit::Microsecond, TimeUnit::Nanosecond] {
            let r = cast_with_options(&a, &DataType::Timestamp(u, None), &o);
            println!("safe={safe}: Date64 [9999-12-31, i64::MAX] -> Timestamp({u:?}): {:?}", r.map(|a| format!("{a:?}")));
        }
    }
}
