//! Decimal256 -> Int64 (and every target that goes through Int64: Timestamp, Duration): a value that fits
//! i128 but not i64 is accepted and truncated to its low 64 bits. Root cause: `i256::to_i64`
//! (arrow-buffer/src/bigint/mod.rs) re-checks `self.high` instead of the upper half of the low word.
use arrow_array::*;
use arrow_buffer::i256;
use arrow_cast::{CastOptions, cast_with_options};
use arrow_schema::DataType;
fn main() {
    let strict = CastOptions { safe: false, ..Default::default() };
    // 10^76 - 1 at scale 38 is 99999999999999999999999999999999999999.99999999999999999999999999999999999999
    let v = i256::from_string("9999999999999999999999999999999999999999999999999999999999999999999999999999").unwrap();
    let a = Decimal256Array::from(vec![v]).with_precision_and_scale(76, 38).unwrap();
    let r = cast_with_options(&a, &DataType::Int64, &strict);
    println!("Decimal256(76,38) [10^38 - 1e-38] -> Int64 strict: {:?}", r.map(|a| format!("{a:?}")));
    // same value at scale 0 is rejected as it should be
    let b = Decimal256Array::from(vec![i256::from_i128(99999999999999999999999999999999999999)]).with_precision_and_scale(76, 0).unwrap();
    let r = cast_with_options(&b, &DataType::Int64, &strict);
    println!("Decimal256(76,0) [10^38 - 1] -> Int64 strict: {:?}", r.map(|a| format!("{a:?}")));
}
