//! Decimal256(76, 0) -> Decimal256(76, 76): every non-zero value overflows, but the cast "succeeds" with a
//! wrapped product. Root cause: `is_infallible_cast = (input_precision as i8) + delta_scale <= (output_precision as i8)`
//! in arrow-cast/src/cast/decimal.rs overflows i8 (76 + 76), so the unchecked `mul_wrapping` path is taken
//! (release build; a build with overflow checks panics instead).
use arrow_array::*;
use arrow_buffer::i256;
use arrow_cast::{CastOptions, cast_with_options};
use arrow_schema::DataType;
fn main() {
    for safe in [false, true] {
        let o = CastOptions { safe, ..Default::default() };
        let a = Decimal256Array::from(vec![i256::from_i128(1), i256::from_i128(-1)]).with_precision_and_scale(76, 0).unwrap();
        let r = cast_with_options(&a, &DataType::Decimal256(76, 76), &o);
        println!("safe={safe}: Decimal256(76,0) [1, -1] -> Decimal256(76,76): {:?}", r.map(|a| format!("{a:?}")));
    }
}
