//! FixedSizeList<_, 1> -> value type: the list's own validity is ignored, a null list row becomes whatever
//! the child holds in that slot.
use arrow_array::*;
use arrow_buffer::NullBuffer;
use arrow_cast::cast;
use arrow_schema::{DataType, Field};
use std::sync::Arc;
fn main() {
    let child = Int32Array::from(vec![1, 777, 3]);
    let fsl = FixedSizeListArray::new(Arc::new(Field::new_list_field(DataType::Int32, true)), 1, Arc::new(child), Some(NullBuffer::from(vec![true, false, true])));
    println!("input: {fsl:?}");
    println!("-> Int32: {:?}", cast(&fsl, &DataType::Int32).unwrap());
    println!("-> Utf8 : {:?}", cast(&fsl, &DataType::Utf8).unwrap());
}
