//! Interval(YearMonth) i32::MIN prints as "-178956971 years 4 mons"; the interval parser rejects that text
//! because it converts the year component to months before adding the month component.
use arrow_array::*;
use arrow_cast::{CastOptions, cast_with_options};
use arrow_schema::{DataType, IntervalUnit};
fn main() {
    let strict = CastOptions { safe: false, ..Default::default() };
    let a = IntervalYearMonthArray::from(vec![i32::MIN, i32::MIN + 4, -1]);
    let t = cast_with_options(&a, &DataType::Utf8, &strict).unwrap();
    println!("text: {t:?}");
    let back = cast_with_options(&t, &DataType::Interval(IntervalUnit::YearMonth), &strict);
    println!("parsed back: {:?}", back.map(|a| format!("{a:?}")));
}
