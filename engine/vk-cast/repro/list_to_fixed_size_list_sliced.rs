//! List -> FixedSizeList on a SLICED list array (first offset != 0): the values are taken from position 0
//! of the child instead of from the first offset, so the result holds the rows that were sliced away
//! (wrong values, no error); with a null row the cast fails with "Invalid range".
use arrow_array::cast::AsArray;
use arrow_array::types::Int32Type;
use arrow_array::*;
use arrow_cast::cast;
use arrow_schema::{DataType, Field};
use std::sync::Arc;
fn main() {
    let list = ListArray::from_iter_primitive::<Int32Type, _, _>(vec![Some(vec![Some(9), Some(9)]), Some(vec![Some(1), Some(2)]), Some(vec![Some(3), Some(4)])]);
    let sliced = list.slice(1, 2);
    println!("input (sliced): {:?}", sliced);
    let to = DataType::FixedSizeList(Arc::new(Field::new_list_field(DataType::Int32, true)), 2);
    let r = cast(&sliced, &to).unwrap();
    println!("List -> FixedSizeList(2): {:?}", r.as_fixed_size_list());
    let list = ListArray::from_iter_primitive::<Int32Type, _, _>(vec![Some(vec![Some(9), Some(9)]), Some(vec![Some(9), Some(9)]), None, Some(vec![Some(3), Some(4)])]);
    println!("with a null row: {:?}", cast(&list.slice(2, 2), &to).map(|a| format!("{a:?}")));
}
