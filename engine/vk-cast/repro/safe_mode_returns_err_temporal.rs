//! CastOptions { safe: true } is documented as "return NULL" on cast failures. For temporal sources whose
//! value has no calendar representation the whole cast returns Err instead, also when every other row is fine.
use arrow_array::*;
use arrow_cast::cast; // cast() == safe mode
use arrow_schema::{DataType, TimeUnit};
fn main() {
    let ts = TimestampSecondArray::from(vec![Some(0), Some(i64::MIN), None]);
    for to in [DataType::Date32, DataType::Time32(TimeUnit::Second), DataType::Time64(TimeUnit::Microsecond), DataType::Utf8] {
        println!("safe Timestamp(s) [0, i64::MIN, null] -> {to}: {:?}", cast(&ts, &to).map(|a| format!("{a:?}")));
    }
    let tz = ts.clone().with_timezone("+00:00");
    println!("safe Timestamp(s, +00:00) -> Date32: {:?}", cast(&tz, &DataType::Date32).map(|a| format!("{a:?}")));
    let d = Date32Array::from(vec![Some(0), Some(i32::MIN)]);
    println!("safe Date32 [0, i32::MIN] -> Utf8: {:?}", cast(&d, &DataType::Utf8).map(|a| format!("{a:?}")));
    let d = Date64Array::from(vec![Some(0), Some(i64::MIN)]);
    println!("safe Date64 [0, i64::MIN] -> Utf8: {:?}", cast(&d, &DataType::Utf8).map(|a| format!("{a:?}")));
    // for comparison: an overflowing unit change does produce a null in safe mode
    println!("safe Timestamp(s) -> Timestamp(ns): {:?}", cast(&ts, &DataType::Timestamp(TimeUnit::Nanosecond, None)).map(|a| format!("{a:?}")));
}
