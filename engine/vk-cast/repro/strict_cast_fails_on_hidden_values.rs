//! Strict casts convert child / dictionary / byte payload wholesale, so values that are NOT part of the
//! array (sliced away, under a null, unreferenced dictionary entries) make the cast fail.
use arrow_array::builder::*;
use arrow_array::types::Int8Type;
use arrow_array::*;
use arrow_buffer::{NullBuffer, OffsetBuffer};
use arrow_cast::{CastOptions, cast_with_options};
use arrow_schema::{DataType, Field, Fields};
use std::sync::Arc;
fn main() {
    let strict = CastOptions { safe: false, ..Default::default() };
    // dictionary: slice away the only row that uses the unparsable entry
    let d: DictionaryArray<Int8Type> = vec!["zz", "1", "2"].into_iter().collect();
    let d = d.slice(1, 2);
    println!("Dictionary<Int8,Utf8> [\"1\",\"2\"] (sliced) -> Int32 strict: {:?}", cast_with_options(&d, &DataType::Int32, &strict).map(|a| format!("{a:?}")));
    // binary: invalid UTF-8 outside the slice
    let b = BinaryArray::from(vec![&[0xFFu8][..], b"a"]).slice(1, 1);
    println!("Binary [\"a\"] (sliced) -> Utf8 strict: {:?}", cast_with_options(&b, &DataType::Utf8, &strict).map(|a| format!("{a:?}")));
    // binary: invalid UTF-8 under a null
    let b = BinaryArray::new(OffsetBuffer::from_lengths([1, 1]), vec![0xFFu8, b'a'].into(), Some(NullBuffer::from(vec![false, true])));
    println!("Binary [null, \"a\"] -> Utf8 strict: {:?}", cast_with_options(&b, &DataType::Utf8, &strict).map(|a| format!("{a:?}")));
    // list: child values under a null list
    let child = StringArray::from(vec!["zz", "1"]);
    let f = Arc::new(Field::new_list_field(DataType::Utf8, true));
    let l = ListArray::new(f, OffsetBuffer::from_lengths([1, 1]), Arc::new(child), Some(NullBuffer::from(vec![false, true])));
    let to = DataType::List(Arc::new(Field::new_list_field(DataType::Int32, true)));
    println!("List<Utf8> [null, [\"1\"]] -> List<Int32> strict: {:?}", cast_with_options(&l, &to, &strict).map(|a| format!("{a:?}")));
    // struct: field value under a null struct
    let s = StructArray::new(Fields::from(vec![Field::new("a", DataType::Int64, true)]), vec![Arc::new(Int64Array::from(vec![i64::MAX, 1]))], Some(NullBuffer::from(vec![false, true])));
    let to = DataType::Struct(Fields::from(vec![Field::new("a", DataType::Int32, true)]));
    println!("Struct{{a:Int64}} [null, {{1}}] -> Struct{{a:Int32}} strict: {:?}", cast_with_options(&s, &to, &strict).map(|a| format!("{a:?}")));
    let _ = StringBuilder::new();
}
