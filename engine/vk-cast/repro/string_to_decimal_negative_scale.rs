//! can_cast_types(Utf8, Decimal(p, negative scale)) is true, but the cast refuses the type pair for every
//! input, including the empty array, in both modes.
use arrow_array::*;
use arrow_cast::{CastOptions, can_cast_types, cast_with_options};
use arrow_schema::DataType;
fn main() {
    let to = DataType::Decimal128(20, -5);
    println!("can_cast_types(Utf8, {to}) = {}", can_cast_types(&DataType::Utf8, &to));
    for safe in [true, false] {
        let o = CastOptions { safe, ..Default::default() };
        let empty = StringArray::from(Vec::<&str>::new());
        println!("safe={safe} empty: {:?}", cast_with_options(&empty, &to, &o).map(|a| format!("{a:?}")));
        let a = StringArray::from(vec!["1200000"]);
        println!("safe={safe} [\"1200000\"]: {:?}", cast_with_options(&a, &to, &o).map(|a| format!("{a:?}")));
    }
}
