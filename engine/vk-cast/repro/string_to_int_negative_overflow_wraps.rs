//! Utf8 -> IntN: a negative number one past the minimum ("-32769" for Int16) is accepted and wraps.
use arrow_array::*;
use arrow_cast::{CastOptions, cast_with_options};
use arrow_schema::DataType;
fn main() {
    let strict = CastOptions { safe: false, ..Default::default() };
    for s in ["-32768", "-32769", "-32770", "-40000", "-65536", "-65537", "32768", "-99999"] {
        let a = StringArray::from(vec![s]);
        let r = cast_with_options(&a, &DataType::Int16, &strict);
        println!("Utf8 {s:?} -> Int16 strict: {:?}", r.map(|a| format!("{:?}", a)));
    }
    for s in ["-128", "-129", "-130", "-200", "-256", "-257", "128"] {
        let a = StringArray::from(vec![s]);
        let r = cast_with_options(&a, &DataType::Int8, &strict);
        println!("Utf8 {s:?} -> Int8 strict: {:?}", r.map(|a| format!("{:?}", a)));
    }
    for s in ["-2147483649", "-9223372036854775809"] {
        let a = StringArray::from(vec![s]);
        println!("Utf8 {s:?} -> Int32: {:?}", cast_with_options(&a, &DataType::Int32, &strict).map(|a| format!("{:?}", a)));
        println!("Utf8 {s:?} -> Int64: {:?}", cast_with_options(&a, &DataType::Int64, &strict).map(|a| format!("{:?}", a)));
    }
}
