//! Source alphabets: the type's own extremes plus the target type's range boundaries +-1 mapped into
//! the source's value space.
use crate::grid::*;
use crate::model::{Rat, f64_to_rat};
use arrow_schema::{DataType, IntervalUnit};
use half::f16;
use num_bigint::BigInt;

pub const GARBAGE_TEXT: &str = "not a value, 13+";

fn i(x: i128) -> V {
    V::I(x)
}

/// days since epoch of 0001-01-01 and 9999-12-31
pub const DAY_0001: i64 = -719_162;
pub const DAY_9999: i64 = 2_932_896;

/// the type's own alphabet (non-null letters)
pub fn base(dt: &DataType) -> Vec<V> {
    use DataType::*;
    match dt {
        Null => vec![],
        Boolean => vec![V::Bool(false), V::Bool(true)],
        Int8 | Int16 | Int32 | Int64 => {
            let (lo, hi) = int_range(dt).unwrap();
            vec![i(lo), i(-1), i(0), i(1), i(hi)]
        }
        UInt8 | UInt16 | UInt32 | UInt64 => {
            let (_, hi) = int_range(dt).unwrap();
            vec![i(0), i(1), i(hi)]
        }
        Float16 => [0x7E00u16, 0xFC00, 0xBE00, 0x8000, 0x3C00, 0x0001, 0x7BFF].iter().map(|b| V::F16(*b)).collect(), // NaN -inf -1.5 -0 1 minsub MAX
        Float32 => [f32::NAN, f32::NEG_INFINITY, -1.5, -0.0, 1.0, f32::from_bits(1), f32::MAX].iter().map(|x| V::F32(x.to_bits())).collect(),
        Float64 => [f64::NAN, f64::NEG_INFINITY, -1.5, -0.0, 1.0, f64::from_bits(1), f64::MAX].iter().map(|x| V::F64(x.to_bits())).collect(),
        Decimal32(p, s) | Decimal64(p, s) | Decimal128(p, s) | Decimal256(p, s) => {
            let max: BigInt = pow10(*p as u32) - 1;
            let mut v = vec![-max.clone(), BigInt::from(-1), BigInt::from(0), BigInt::from(1), max.clone()];
            if *s >= 1 {
                v.push(BigInt::from(5) * pow10(*s as u32 - 1)); // 0.5
                if *p as i32 > *s as i32 {
                    v.push(pow10(*s as u32)); // 1.0
                    v.push(-(pow10(*s as u32) + BigInt::from(5) * pow10(*s as u32 - 1))); // -1.5
                }
            }
            v.retain(|b| b.magnitude() <= max.magnitude());
            v.sort();
            v.dedup();
            v.iter().map(|b| V::D(big_to_i256(b).unwrap())).collect()
        }
        Date32 => vec![i(i32::MIN as i128), i(DAY_0001 as i128), i(-1), i(0), i(19_000), i(DAY_9999 as i128), i(i32::MAX as i128)],
        Date64 => vec![i(i64::MIN as i128), i(DAY_0001 as i128 * 86_400_000), i(-1), i(0), i(86_400_000), i(86_400_001), i(DAY_9999 as i128 * 86_400_000), i(i64::MAX as i128)],
        Time32(u) | Time64(u) => {
            let per = unit_per_sec(u) as i128;
            let mut v = vec![i(0), i(1), i(43_200 * per + if per > 1 { 1 } else { 0 }), i(86_400 * per - 1)];
            v.dedup();
            v
        }
        Timestamp(u, _) => {
            let per = unit_per_sec(u) as i128;
            let mut v = vec![i(i64::MIN as i128), i(-1), i(0), i(1), i(1_600_000_000 * per + if per > 1 { 1 } else { 0 }), i(i64::MAX as i128)];
            // calendar boundaries 0001-01-01T00:00:00 and 9999-12-31T23:59:59 when representable
            for b in [DAY_0001 as i128 * 86_400 * per, (DAY_9999 as i128 * 86_400 + 86_399) * per] {
                if b >= i64::MIN as i128 && b <= i64::MAX as i128 {
                    v.push(i(b));
                }
            }
            v
        }
        Duration(_) => vec![i(i64::MIN as i128), i(-1), i(0), i(1), i(1_000), i(i64::MAX as i128)],
        Interval(IntervalUnit::YearMonth) => vec![i(i32::MIN as i128), i(-1), i(0), i(1), i(14), i(i32::MAX as i128)],
        Interval(IntervalUnit::DayTime) => vec![V::DT(0, 0), V::DT(1, 0), V::DT(0, 1), V::DT(-1, -1), V::DT(1, 3_600_001), V::DT(i32::MAX, i32::MAX), V::DT(i32::MIN, i32::MIN)],
        Interval(IntervalUnit::MonthDayNano) => {
            vec![V::MDN(0, 0, 0), V::MDN(1, 2, 3), V::MDN(0, 0, -1), V::MDN(-1, -1, -1), V::MDN(0, 0, 1_000_000), V::MDN(i32::MAX, i32::MAX, i64::MAX), V::MDN(i32::MIN, i32::MIN, i64::MIN)]
        }
        Utf8 | LargeUtf8 | Utf8View => ["", "a", "\u{e9}", "1", GARBAGE_TEXT].iter().map(|s| V::s(s)).collect(),
        Binary | LargeBinary | BinaryView => vec![V::B(vec![]), V::B(vec![0x61]), V::B(vec![0xFF]), V::B(vec![0xC3, 0xA9]), V::B(vec![0, 1, 2]), V::B(b"thirteen+ bytes".to_vec())],
        FixedSizeBinary(n) => vec![V::B(vec![0; *n as usize]), V::B((0..*n).map(|k| 0x61 + k as u8).collect()), V::B(vec![0xFF; *n as usize])],
        _ => unreachable!("base alphabet of nested type is built by letters()"),
    }
}

/// dst numeric range as rationals (lo, hi, ulp exponent: ulp = 10^-e)
fn range_rat(dst: &DataType) -> Option<(Rat, Rat, i32)> {
    if let Some((lo, hi)) = int_range(dst) {
        return Some((Rat::int(lo), Rat::int(hi), 0));
    }
    if let Some((p, s, _)) = dec_parts(dst) {
        let max = Rat::int(pow10(p as u32) - 1).shift10(-(s as i32));
        let min = Rat { num: -max.num.clone(), den: max.den };
        return Some((min, max, s as i32));
    }
    match dst {
        DataType::Float16 => Some((Rat::int(-65504), Rat::int(65504), 0)),
        DataType::Float32 => Some((f64_to_rat(f32::MIN as f64).unwrap(), f64_to_rat(f32::MAX as f64).unwrap(), 0)),
        _ => None,
    }
}

fn time_unit(dt: &DataType) -> Option<i64> {
    match dt {
        DataType::Time32(u) | DataType::Time64(u) | DataType::Timestamp(u, _) | DataType::Duration(u) => Some(unit_per_sec(u)),
        DataType::Date32 => None,
        DataType::Date64 => Some(1000),
        _ => None,
    }
}

/// rational values in the SOURCE's numeric space that sit on the target's range boundaries
fn boundary_rats(src: &DataType, dst: &DataType) -> Vec<Rat> {
    let Some((lo, hi, e)) = range_rat(dst) else { return vec![] };
    // temporal unit scaling: src value v maps to v * m / d
    let (m, d): (i128, i128) = match (src, dst) {
        (DataType::Date32, DataType::Date64) => (86_400_000, 1),
        (DataType::Date64, DataType::Date32) => (1, 86_400_000),
        (DataType::Date32, DataType::Timestamp(u, _)) => (86_400 * unit_per_sec(u) as i128, 1),
        (DataType::Timestamp(u, _), DataType::Date32) => (1, 86_400 * unit_per_sec(u) as i128),
        _ => match (time_unit(src), time_unit(dst)) {
            (Some(a), Some(b)) if src.is_temporal() && dst.is_temporal() => {
                if b >= a { ((b / a) as i128, 1) } else { (1, (a / b) as i128) }
            }
            _ => (1, 1),
        },
    };
    let ulp = Rat::int(1).shift10(-e);
    let mut out = vec![];
    for b in [&lo, &hi] {
        for k in [-1i32, 0, 1] {
            // b + k*ulp, then * d / m
            let den = b.den.max(ulp.den);
            let bn = &b.num * pow10(den - b.den);
            let un = &ulp.num * pow10(den - ulp.den) * k;
            let r = Rat { num: (bn + un) * BigInt::from(d), den };
            // divide by m: keep as rational by representing floor and ceil of the division
            if m == 1 {
                out.push(r);
            } else {
                let scaled = Rat { num: r.num.clone(), den: r.den };
                let fl = {
                    let q = scaled.floor();
                    let (qq, rr) = (&q / BigInt::from(m), &q % BigInt::from(m));
                    if rr.sign() == num_bigint::Sign::Minus { qq - 1 } else { qq }
                };
                out.push(Rat::int(fl.clone()));
                out.push(Rat::int(fl + 1));
            }
        }
    }
    out
}

fn float_letters(kind: &DataType, r: &Rat) -> Vec<V> {
    let s = format!("{}e-{}", r.num, r.den);
    let Ok(x) = s.parse::<f64>() else { return vec![] };
    match kind {
        DataType::Float64 => {
            let b = x.to_bits();
            [b.wrapping_sub(1), b, b.wrapping_add(1)].iter().map(|b| V::F64(*b)).filter(|v| matches!(v, V::F64(b) if f64::from_bits(*b).is_finite())).collect()
        }
        DataType::Float32 => {
            let b = (x as f32).to_bits();
            [b.wrapping_sub(1), b, b.wrapping_add(1)].iter().map(|b| V::F32(*b)).filter(|v| matches!(v, V::F32(b) if f32::from_bits(*b).is_finite())).collect()
        }
        DataType::Float16 => {
            let b = f16::from_f64(x).to_bits();
            [b.wrapping_sub(1), b, b.wrapping_add(1)].iter().map(|b| V::F16(*b)).filter(|v| matches!(v, V::F16(b) if f16::from_bits(*b).is_finite())).collect()
        }
        _ => vec![],
    }
}

fn rat_text(r: &Rat) -> String {
    // canonical decimal text -?digits[.digits]
    let neg = r.num.sign() == num_bigint::Sign::Minus;
    let mag = r.num.magnitude().to_string();
    let den = r.den as usize;
    let body = if den == 0 {
        mag
    } else {
        let padded = if mag.len() <= den { format!("{}{}", "0".repeat(den + 1 - mag.len()), mag) } else { mag };
        let (ip, fp) = padded.split_at(padded.len() - den);
        format!("{ip}.{fp}")
    };
    if neg { format!("-{body}") } else { body }
}

/// leaf letters of `src` for a cast to `dst` (dst may be nested: its innermost value type is used for boundaries)
fn leaf_letters(src: &DataType, dst: &DataType, max_letters: usize) -> Vec<V> {
    use DataType::*;
    let mut out = base(src);
    let target = innermost(dst);
    match src {
        Utf8 | LargeUtf8 | Utf8View => {
            let mut extra: Vec<String> = vec![];
            if target.is_numeric() || int_range(target).is_some() && !target.is_temporal() && !matches!(target, Interval(_)) {
                extra.extend(["-1", "1.5", " 1 ", "+1", "1e2", "-0"].iter().map(|s| s.to_string()));
                for r in boundary_rats(&Int64, target).iter().chain(boundary_rats(target, target).iter()) {
                    if r.num.to_string().len() <= 90 {
                        extra.push(rat_text(r));
                    }
                }
                if let Some((_, s, _)) = dec_parts(target) {
                    if s >= 0 {
                        // a value with one digit more than the scale, on a rounding tie
                        extra.push(rat_text(&Rat { num: BigInt::from(15), den: s as u32 + 1 }));
                        extra.push(rat_text(&Rat { num: BigInt::from(-25), den: s as u32 + 1 }));
                    }
                }
            }
            match target {
                Boolean => extra.extend(["true", "false", "yes", "off", "0", "T", "2"].iter().map(|s| s.to_string())),
                Date32 | Date64 => extra.extend(["2020-02-29", "0001-01-01", "9999-12-31", "2021-02-29", "1969-12-31T23:59:59.999", "2020-1-1"].iter().map(|s| s.to_string())),
                Time32(_) | Time64(_) => extra.extend(["00:00:00", "23:59:59.999999999", "12:00:00.5", "24:00:00", "11:59 PM", "23:59:60"].iter().map(|s| s.to_string())),
                Timestamp(_, _) => extra.extend(
                    ["1970-01-01T00:00:00", "1969-12-31T23:59:59.999999999Z", "2020-02-29 12:34:56.5+05:30", "0001-01-01T00:00:00", "9999-12-31T23:59:59.999999999", "1677-09-21T00:12:43", "2262-04-11T23:47:16.854775808", "2021-02-29T00:00:00"]
                        .iter()
                        .map(|s| s.to_string()),
                ),
                Interval(_) => extra.extend(["1 year 2 months", "3 days 4 hours", "0.5 mons", "-1.000000001 secs", "1 day 1 day", "2147483648 months"].iter().map(|s| s.to_string())),
                Binary | LargeBinary | BinaryView | Utf8 | LargeUtf8 | Utf8View => extra.push("aa\u{e9}\u{1F600} long enough".to_string()),
                _ => {}
            }
            out.extend(extra.into_iter().map(V::S));
        }
        Float16 | Float32 | Float64 => {
            for r in boundary_rats(src, target) {
                out.extend(float_letters(src, &r));
            }
            if target.is_integer() || int_range(target).is_some() {
                out.extend(float_letters(src, &Rat { num: BigInt::from(25), den: 1 }).into_iter().skip(1).take(1)); // 2.5
            }
        }
        _ if int_range(src).is_some() => {
            let (lo, hi) = int_range(src).unwrap();
            let valid_time = |x: i128| match src {
                Time32(u) | Time64(u) => x >= 0 && x < 86_400 * unit_per_sec(u) as i128,
                _ => true,
            };
            for r in boundary_rats(src, target) {
                for c in [r.floor(), r.ceil()] {
                    if let Ok(x) = i128::try_from(&c) {
                        if x >= lo && x <= hi && valid_time(x) {
                            out.push(V::I(x));
                        }
                    }
                }
            }
            // calendar-range boundaries for timestamp -> date / text
            if let (Timestamp(_, Some(tz)), true) = (src, matches!(target, Utf8 | LargeUtf8 | Utf8View | Date32)) {
                let per = time_unit(src).unwrap() as i128;
                let off = tz_offset_secs(tz) as i128;
                for b in [(DAY_0001 as i128 * 86_400 - off) * per, ((DAY_9999 as i128 * 86_400 + 86_399) - off) * per] {
                    if b >= lo && b <= hi {
                        out.push(V::I(b));
                    }
                }
            }
        }
        Decimal32(_, s) | Decimal64(_, s) | Decimal128(_, s) | Decimal256(_, s) => {
            let (p, _, _) = dec_parts(src).unwrap();
            let max: BigInt = pow10(p as u32) - 1;
            for r in boundary_rats(src, target) {
                let u = r.shift10(*s as i32);
                for c in [u.floor(), u.ceil()] {
                    if c.magnitude() <= max.magnitude() {
                        out.push(V::D(big_to_i256(&c).unwrap()));
                    }
                }
            }
        }
        _ => {}
    }
    // dedup preserving order, cap
    let mut seen = std::collections::BTreeSet::new();
    out.retain(|v| seen.insert(v.clone()));
    out.truncate(max_letters);
    out
}

pub fn innermost(dt: &DataType) -> &DataType {
    use DataType::*;
    match dt {
        Dictionary(_, v) => innermost(v),
        RunEndEncoded(_, v) => innermost(v.data_type()),
        List(f) | LargeList(f) | ListView(f) | LargeListView(f) | FixedSizeList(f, _) => innermost(f.data_type()),
        _ => dt,
    }
}

/// element type seen by a cast from a wrapper of `src_elem` to `dst`
fn elem_target<'a>(dst: &'a DataType) -> &'a DataType {
    use DataType::*;
    match dst {
        List(f) | LargeList(f) | ListView(f) | LargeListView(f) | FixedSizeList(f, _) => f.data_type(),
        Dictionary(_, v) => elem_target(v),
        RunEndEncoded(_, v) => elem_target(v.data_type()),
        _ => dst,
    }
}

/// Non-null letters of the source type for the ordered pair (src, dst).
pub fn letters(src: &DataType, dst: &DataType, max_letters: usize) -> Vec<V> {
    use DataType::*;
    match src {
        Dictionary(_, v) => letters(v, dst, max_letters),
        RunEndEncoded(_, v) => letters(v.data_type(), dst, max_letters),
        List(f) | LargeList(f) | ListView(f) | LargeListView(f) => {
            let e = letters(f.data_type(), elem_target(dst), 8);
            let mut out = vec![V::L(vec![])];
            for x in e.iter().take(3) {
                out.push(V::L(vec![x.clone()]));
            }
            if let (Some(a), Some(b)) = (e.first(), e.last()) {
                out.push(V::L(vec![a.clone(), V::Null]));
                out.push(V::L(vec![b.clone(), a.clone()]));
                if e.len() > 3 {
                    out.push(V::L(vec![e[3].clone(), b.clone(), a.clone()]));
                }
            }
            out.push(V::L(vec![V::Null]));
            let mut seen = std::collections::BTreeSet::new();
            out.retain(|v| seen.insert(v.clone()));
            out.truncate(max_letters);
            out
        }
        FixedSizeList(f, n) => {
            let e = letters(f.data_type(), elem_target(dst), 8);
            let n = *n as usize;
            let mut out = vec![];
            for k in 0..e.len().min(4) {
                out.push(V::L((0..n).map(|j| e[(k + j) % e.len()].clone()).collect()));
            }
            out.push(V::L((0..n).map(|j| if j == 0 { V::Null } else { e[0].clone() }).collect()));
            if let Some(b) = e.last() {
                out.push(V::L(vec![b.clone(); n]));
            }
            let mut seen = std::collections::BTreeSet::new();
            out.retain(|v| seen.insert(v.clone()));
            out.truncate(max_letters);
            out
        }
        Struct(fs) => {
            let cols: Vec<Vec<V>> = fs
                .iter()
                .enumerate()
                .map(|(k, f)| {
                    let t = match dst {
                        Struct(g) => g.iter().find(|x| x.name() == f.name()).or_else(|| g.get(k)).map(|x| x.data_type().clone()).unwrap_or(f.data_type().clone()),
                        _ => f.data_type().clone(),
                    };
                    letters(f.data_type(), &t, 6)
                })
                .collect();
            let mut out = vec![];
            let depth = cols.iter().map(|c| c.len()).max().unwrap_or(0).min(5);
            for k in 0..depth {
                out.push(V::St(cols.iter().map(|c| c[k % c.len()].clone()).collect()));
            }
            out.push(V::St(cols.iter().enumerate().map(|(j, c)| if j == 0 { V::Null } else { c[0].clone() }).collect()));
            out.push(V::St(cols.iter().enumerate().map(|(j, c)| if j == 1 { V::Null } else { c.last().unwrap().clone() }).collect()));
            out.truncate(max_letters);
            out
        }
        Map(f, _) => {
            let DataType::Struct(kv) = f.data_type() else { unreachable!() };
            let (tk, tv) = match dst {
                Map(g, _) => {
                    let DataType::Struct(gkv) = g.data_type() else { unreachable!() };
                    (gkv[0].data_type().clone(), gkv[1].data_type().clone())
                }
                _ => (kv[0].data_type().clone(), kv[1].data_type().clone()),
            };
            let ks = letters(kv[0].data_type(), &tk, 6);
            let vs = letters(kv[1].data_type(), &tv, 6);
            let mut out = vec![V::M(vec![])];
            out.push(V::M(vec![(ks[0].clone(), vs[0].clone())]));
            out.push(V::M(vec![(ks[1 % ks.len()].clone(), V::Null), (ks[0].clone(), vs[vs.len() - 1].clone())]));
            out.push(V::M(vec![(ks[ks.len() - 1].clone(), vs[1 % vs.len()].clone())]));
            out.truncate(max_letters);
            out
        }
        _ => leaf_letters(src, dst, max_letters),
    }
}
