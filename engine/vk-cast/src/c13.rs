//! C13 - casts preserve representable values; strict/safe agree; text round-trips.
use crate::{dtype, exhaustive, matrix, text};
use vcore::{Ctx, Level, Stats};

pub fn run(ctx: &Ctx) -> ! {
    let mut st = Stats::new();
    if let Some(case) = vcore::load_replay(ctx) {
        println!("replay case: {case}");
        match case["sub"].as_str().unwrap_or("") {
            "matrix" => matrix::replay(&case),
            "exhaustive" => exhaustive::replay(&case),
            "text" => text::replay(&case),
            "dtype" => dtype::replay(&case),
            other => println!("replay: unknown sub-engine {other:?}"),
        }
        std::process::exit(0);
    }
    let only = |name: &str| ctx.extra_args.iter().all(|a| !a.starts_with("--only=")) || ctx.has_flag(&format!("--only={name}"));
    if only("matrix") {
        matrix::run(ctx, &mut st);
    }
    if only("exhaustive") {
        exhaustive::run(ctx, &mut st);
    }
    if only("text") {
        text::run(ctx, &mut st);
    }
    if only("dtype") {
        dtype::run(ctx, &mut st);
    }
    vcore::finish(
        ctx,
        Level {
            category: "exploration",
            rule: "cases are enumerated, never sampled".into(),
            assumptions: vec![],
            exhaustive_space: "".into(),
        },
        st,
    )
}
