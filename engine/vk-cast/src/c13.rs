//! C13 - casts preserve representable values; strict/safe agree; text round-trips.
use crate::{dtype, exhaustive, matrix, text};
use vcore::{Ctx, Level, Stats};

pub fn run(ctx: &Ctx) -> ! {
    let mut st = Stats::new();
    if let Some(case) = vcore::load_replay(ctx) {
        println!("replay case: {case}");
        match case["sub"].as_str().unwrap_or("") {
            "matrix" => matrix::replay(&case),
            "exhaustive" => exhaustive::replay(&case),
            "text" => text::replay(&case),
            "dtype" => dtype::replay(&case),
            other => println!("replay: unknown sub-engine {other:?}"),
        }
        std::process::exit(0);
    }
    let only = |name: &str| ctx.extra_args.iter().all(|a| !a.starts_with("--only=")) || ctx.has_flag(&format!("--only={name}"));
    // cheapest first, so that a wall-clock budget hit on an oversubscribed machine trims only the tail
    if only("dtype") {
        dtype::run(ctx, &mut st);
    }
    if only("text") {
        text::run(ctx, &mut st);
    }
    if only("matrix") {
        matrix::run(ctx, &mut st);
    }
    if only("exhaustive") {
        exhaustive::run(ctx, &mut st);
    }
    vcore::finish(
        ctx,
        Level {
            category: "exploration",
            rule: "cases are enumerated, never sampled. matrix: the complete ordered-pair product of the type grid (grid_types x grid_types); per castable pair the empty column, every column of length 1..=L over (all letters + null) for L = all_letters_up_to_length and over the core letters (null + <=4 castable + <=3 failing letters) up to max_column_length, x 3 layouts x both safe values; letters = the type's own extremes + the target's range boundaries +-1 mapped into the source space. exhaustive: every value of Int8/UInt8/Int16/UInt16 and every Float16 bit pattern x every castable grid target x both modes. text: every Date32 day of years 0001-9999; timestamps of 4 units x 4 zones on the stated calendar lattice; scalar lattices; every FormatOptions field within one deviation. dtype: every DataType of the stated grammar up to depth 2. A case is non-trivial when its column holds at least one non-null value (matrix), per value (exhaustive, text), per type (dtype); all enumerated cases are distinct by construction."
                .into(),
            assumptions: vec![
                "inputs are valid arrays: decimals within their declared precision, Time32/Time64 values inside one day (out-of-spec payload appears only under nulls and outside slices)".into(),
                "O3 demands a value only where a documentation sentence pins it (cited in model.rs); rounding directions that are not documented are accepted either way; everything else is checked relationally (O2 strict/safe duality against 1-row strict casts, O4 inverses)".into(),
                "text round trip is demanded for calendar years 0001-9999 in the displayed zone (property statement); calendar arithmetic between temporal types is demanded inside chrono's range (about +-262000 years)".into(),
                "decimal -> decimal pairs whose scale increase exceeds the target's maximum precision are documented (rescale_decimal) to overflow for every value and are recorded, not explored".into(),
                "a safe cast may fail when the failing element sits in a non-nullable child (map keys): recorded, not a finding".into(),
                "named IANA zones are out of scope (chrono-tz feature off); unions are not in the grid; field metadata is outside the DataType grammar (documented TODO in datatype_parse.rs)".into(),
            ],
            exhaustive_space: "property quantifier: all ordered pairs of a finite type grid accepted by can_cast_types; all values of the 8/16-bit sources; boundary alphabets otherwise; both CastOptions.safe values; FormatOptions within one deviation".into(),
        },
        st,
    )
}
