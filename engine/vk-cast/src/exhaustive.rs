//! Exhaustive sources: every value of Int8 / UInt8 / Int16 / UInt16 and every Float16 bit pattern, cast to
//! every target of the grid that `can_cast_types` accepts, both modes.
//! Oracles: O3 per value against the safe result; O2 by partition (the strict cast of exactly the rows the
//! safe cast kept must succeed with the same values, the strict cast of every other row alone must fail,
//! the strict cast of the full column fails iff some row failed).
use crate::grid::*;
use crate::matrix::{CastOut, do_cast, is_unsupported, kind, null_image, same_value, wf};
use crate::model::{Exp, expect};
use arrow_cast::can_cast_types;
use arrow_schema::DataType;
use vcore::serde_json::{Value, json};
use vcore::{Ctx, Stats, par_for};

pub fn sources() -> Vec<DataType> {
    vec![DataType::Int8, DataType::UInt8, DataType::Int16, DataType::UInt16, DataType::Float16]
}

pub fn all_values(src: &DataType) -> Vec<V> {
    match src {
        DataType::Float16 => (0..=u16::MAX).map(V::F16).collect(),
        _ => {
            let (lo, hi) = int_range(src).unwrap();
            (lo..=hi).map(V::I).collect()
        }
    }
}

fn nested(dt: &DataType) -> bool {
    use DataType::*;
    match dt {
        List(_) | LargeList(_) | ListView(_) | LargeListView(_) | FixedSizeList(_, _) | Struct(_) | Map(_, _) => true,
        Dictionary(_, v) => nested(v),
        RunEndEncoded(_, v) => nested(v.data_type()),
        _ => false,
    }
}

pub struct Found {
    pub fp: String,
    pub msg: String,
    pub value: String,
}

/// evaluate one (src, dst) over the given values; returns findings (at most a few per class)
pub fn eval_pair(src: &DataType, dst: &DataType, vals: &[V], st: Option<&mut Stats>) -> Vec<Found> {
    let mut out: Vec<Found> = vec![];
    let push = |out: &mut Vec<Found>, fp: String, msg: String, value: String| {
        if out.iter().filter(|f| f.fp == fp).count() < 2 {
            out.push(Found { fp, msg, value });
        }
    };
    let kinds = format!("{}->{}", kind(src), kind(crate::alpha::innermost(dst)));
    let arr = realise(src, vals, Layout::Compact);
    let nimg = null_image(src, dst);
    let _ = nimg;
    let got = match do_cast(arr.as_ref(), dst, true) {
        CastOut::Ok(r) => {
            if let Some((f, m)) = wf(&r, dst, vals.len()) {
                push(&mut out, f, format!("{m}; safe cast of all values {src} -> {dst}"), String::new());
                return out;
            }
            extract(r.as_ref())
        }
        CastOut::Err(e) => {
            let class = if is_unsupported(&e) { "c13:o1:unsupported" } else { "c13:o2:safe-returned-err" };
            push(&mut out, format!("{class}:{kinds}"), format!("safe cast of all {} values {src} -> {dst} returned Err({}: {})", vals.len(), e.variant, e.msg), String::new());
            return out;
        }
        CastOut::Panic(p) => {
            push(&mut out, format!("c13:panic:{}:{kinds}", p.fingerprint()), format!("safe cast of all values {src} -> {dst} panicked: {p:?}"), String::new());
            return out;
        }
    };
    let is_nested = nested(dst);
    let mut kept: Vec<usize> = vec![];
    let mut dropped: Vec<usize> = vec![];
    let (mut n_exact, mut n_fail, mut n_free) = (0u64, 0u64, 0u64);
    for (i, x) in vals.iter().enumerate() {
        let g = &got[i];
        let (e, family) = expect(src, dst, x);
        let bad = match &e {
            Exp::Exact(w) => {
                n_exact += 1;
                !same_value(g, w)
            }
            Exp::OneOf(ws) => {
                n_exact += 1;
                !ws.iter().any(|w| same_value(g, w))
            }
            Exp::Fail => {
                n_fail += 1;
                !is_nested && !g.is_null()
            }
            Exp::StrictFail => {
                n_fail += 1;
                false
            }
            Exp::Free => {
                n_free += 1;
                false
            }
        };
        if bad {
            let what = match &e {
                Exp::Fail => "ok-on-unrepresentable",
                _ if g.is_null() => "null-on-representable",
                _ => "wrong-value",
            };
            push(
                &mut out,
                format!("c13:o3:{family}:{what}:{kinds}"),
                format!("safe cast of {} gave {} but the documentation pins {:?}; {src} -> {dst}", x.show(), g.show(), e),
                x.show(),
            );
        }
        let failed_row = if is_nested { matches!(e, Exp::Fail | Exp::StrictFail) } else { g.is_null() };
        if failed_row { dropped.push(i) } else { kept.push(i) }
    }
    if let Some(st) = st {
        st.count("exhaustive:values-pinned-exact", n_exact);
        st.count("exhaustive:values-pinned-fail", n_fail);
        st.count("exhaustive:values-free", n_free);
    }
    // O2 by partition
    let kept_vals: Vec<V> = kept.iter().map(|i| vals[*i].clone()).collect();
    let karr = realise(src, &kept_vals, Layout::Compact);
    match do_cast(karr.as_ref(), dst, false) {
        CastOut::Ok(r) => {
            let sg = extract(r.as_ref());
            for (k, i) in kept.iter().enumerate() {
                if !same_value(&sg[k], &got[*i]) {
                    push(
                        &mut out,
                        format!("c13:o2:strict-value-differs-from-safe:{kinds}"),
                        format!("value {}: strict cast gave {} but the safe cast gave {}; {src} -> {dst}", vals[*i].show(), sg[k].show(), got[*i].show()),
                        vals[*i].show(),
                    );
                    break;
                }
            }
        }
        CastOut::Err(e) => push(
            &mut out,
            format!("c13:o2:strict-err-on-rows-safe-kept:{kinds}"),
            format!("strict cast of the {} rows the safe cast kept returned Err({}: {}); {src} -> {dst}", kept.len(), e.variant, e.msg),
            String::new(),
        ),
        CastOut::Panic(p) => push(&mut out, format!("c13:panic:{}:{kinds}", p.fingerprint()), format!("strict cast panicked: {p:?}; {src} -> {dst}"), String::new()),
    }
    for i in &dropped {
        let one = realise(src, std::slice::from_ref(&vals[*i]), Layout::Compact);
        match do_cast(one.as_ref(), dst, false) {
            CastOut::Err(e) => {
                if is_unsupported(&e) {
                    push(&mut out, format!("c13:o1:unsupported:{kinds}"), format!("{}: {}; {src} -> {dst} value {}", e.variant, e.msg, vals[*i].show()), vals[*i].show());
                }
            }
            CastOut::Ok(r) => {
                let g = extract(r.as_ref());
                if !(g.len() == 1 && g[0].is_null() && !is_nested) {
                    push(
                        &mut out,
                        format!("c13:o2:safe-null-but-strict-ok:{kinds}"),
                        format!("safe cast nulled {} but its strict 1-row cast succeeds with {}; {src} -> {dst}", vals[*i].show(), show_col(&g)),
                        vals[*i].show(),
                    );
                }
            }
            CastOut::Panic(p) => push(&mut out, format!("c13:panic:{}:{kinds}", p.fingerprint()), format!("strict 1-row cast panicked: {p:?}"), vals[*i].show()),
        }
    }
    if !dropped.is_empty() {
        if let CastOut::Ok(_) = do_cast(arr.as_ref(), dst, false) {
            push(&mut out, format!("c13:o2:strict-ok-but-row-errs:{kinds}"), format!("strict cast of all values succeeded although {} rows fail alone; {src} -> {dst}", dropped.len()), String::new());
        }
    }
    // O4 through text for the lossless pairs
    if crate::matrix::lossless(src, dst) {
        if let CastOut::Ok(fwd) = do_cast(karr.as_ref(), dst, false) {
            match do_cast(fwd.as_ref(), src, false) {
                CastOut::Ok(back) => {
                    let b = extract(back.as_ref());
                    for (k, i) in kept.iter().enumerate() {
                        if !same_value(&b[k], &vals[*i]) {
                            push(&mut out, format!("c13:o4:round-trip-differs:{kinds}"), format!("{} -> {} -> {} returned {} for {}", src, dst, src, b[k].show(), vals[*i].show()), vals[*i].show());
                            break;
                        }
                    }
                }
                CastOut::Err(e) => push(&mut out, format!("c13:o4:inverse-errs:{kinds}"), format!("{src} -> {dst} -> {src}: inverse fails with {}: {}", e.variant, e.msg), String::new()),
                CastOut::Panic(p) => push(&mut out, format!("c13:panic:{}:{kinds}", p.fingerprint()), format!("inverse cast panicked: {p:?}"), String::new()),
            }
        }
    }
    out
}

pub fn run(ctx: &Ctx, st: &mut Stats) {
    let g = grid();
    let srcs = sources();
    let n = (srcs.len() * g.len()) as u64;
    let base = 1u64 << 60;
    let r = par_for(ctx, "exhaustive", n, 1, |idx, st| {
        let (si, gj) = ((idx as usize) / g.len(), (idx as usize) % g.len());
        let (src, dst) = (&srcs[si], &g[gj]);
        if !can_cast_types(src, dst) {
            st.add("exhaustive", 1, 0);
            return;
        }
        let vals = all_values(src);
        // structural capacity of the target encoding (not a value property): a Dictionary with Int8 keys holds
        // at most 128 distinct values, a run-end array with Int16 run ends at most 32767 rows -> cast in blocks
        let block = match dst {
            DataType::Dictionary(k, _) if **k == DataType::Int8 => 100,
            DataType::RunEndEncoded(k, _) if k.data_type() == &DataType::Int16 => 30_000,
            _ => vals.len(),
        };
        let mut fs = vec![];
        for chunk in vals.chunks(block) {
            fs.extend(eval_pair(src, dst, chunk, Some(st)));
            if fs.len() > 8 {
                break;
            }
        }
        st.add("exhaustive", vals.len() as u64 * 2, vals.len() as u64);
        st.outcome("exhaustive:pair-explored");
        for (k, f) in fs.into_iter().enumerate() {
            if std::env::var_os("VK_CAST_DUMP").is_some() {
                eprintln!("DUMP\t{}\t{}\t{}\t{}", f.fp, src, dst, f.msg);
            }
            st.violate(base + idx * 16 + k as u64, f.fp, f.msg, || json!({"sub":"exhaustive","from":src.to_string(),"to":dst.to_string(),"src_idx":si,"to_idx":gj,"value":f.value}));
        }
        if idx == 7 {
            st.sample("exhaustive", || json!({"from": src.to_string(), "to": dst.to_string(), "values": vals.len()}));
        }
    });
    st.merge(r);
}

pub fn replay(case: &Value) {
    let g = grid();
    let srcs = sources();
    let (si, gj) = (case["src_idx"].as_u64().unwrap() as usize, case["to_idx"].as_u64().unwrap() as usize);
    let vals = all_values(&srcs[si]);
    println!("exhaustive pair {} -> {} over {} values", srcs[si], g[gj], vals.len());
    let fs = eval_pair(&srcs[si], &g[gj], &vals, None);
    if fs.is_empty() {
        println!("replay outcome: no finding");
    }
    for f in fs {
        println!("replay outcome: FINDING {}\n  {}", f.fp, f.msg);
    }
}
