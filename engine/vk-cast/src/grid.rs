//! Type grid, logical values (`V`), physical realisation in three layouts and logical extraction.
//!
//! `V` is the logical value tree of one row; `build` turns a logical column into an Arrow array
//! using only validating constructors; `extract` reads a column back through typed accessors.
//! Nothing in here uses `cast`, `take`, `equal` or any kernel under test.
use arrow_array::cast::AsArray;
use arrow_array::types::*;
use arrow_array::*;
use arrow_buffer::{BooleanBuffer, Buffer, IntervalDayTime, IntervalMonthDayNano, NullBuffer, OffsetBuffer, ScalarBuffer, i256};
use arrow_schema::{DataType, Field, Fields, IntervalUnit, TimeUnit};
use half::f16;
use num_bigint::BigInt;
use std::sync::Arc;

#[derive(Clone, Debug, PartialEq, Eq, Hash, PartialOrd, Ord)]
pub enum V {
    Null,
    Bool(bool),
    /// every integer-backed type: (u)intN, date, time, timestamp, duration, interval year-month
    I(i128),
    F16(u16),
    F32(u32),
    F64(u64),
    /// decimal unscaled value
    D(i256),
    /// interval day-time (days, ms)
    DT(i32, i32),
    /// interval month-day-nano
    MDN(i32, i32, i64),
    S(String),
    B(Vec<u8>),
    L(Vec<V>),
    St(Vec<V>),
    M(Vec<(V, V)>),
}

impl V {
    pub fn is_null(&self) -> bool {
        matches!(self, V::Null)
    }
    pub fn s(x: &str) -> V {
        V::S(x.to_string())
    }
    /// compact printable form for replay descriptors
    pub fn show(&self) -> String {
        match self {
            V::Null => "null".into(),
            V::Bool(b) => format!("{b}"),
            V::I(i) => format!("{i}"),
            V::F16(b) => format!("f16:{:#06x}({})", b, f16::from_bits(*b)),
            V::F32(b) => format!("f32:{:#010x}({:e})", b, f32::from_bits(*b)),
            V::F64(b) => format!("f64:{:#018x}({:e})", b, f64::from_bits(*b)),
            V::D(d) => format!("dec:{d}"),
            V::DT(d, m) => format!("dt:{d}d{m}ms"),
            V::MDN(m, d, n) => format!("mdn:{m}m{d}d{n}ns"),
            V::S(s) => format!("{s:?}"),
            V::B(b) => format!("x{}", b.iter().map(|x| format!("{x:02x}")).collect::<String>()),
            V::L(l) => format!("[{}]", l.iter().map(|x| x.show()).collect::<Vec<_>>().join(",")),
            V::St(l) => format!("{{{}}}", l.iter().map(|x| x.show()).collect::<Vec<_>>().join(",")),
            V::M(l) => format!("map{{{}}}", l.iter().map(|(k, v)| format!("{}:{}", k.show(), v.show())).collect::<Vec<_>>().join(",")),
        }
    }
}

pub fn show_col(c: &[V]) -> String {
    format!("[{}]", c.iter().map(|x| x.show()).collect::<Vec<_>>().join(", "))
}

// ---------------------------------------------------------------------------------------------
// bigint helpers

pub fn i256_to_big(x: i256) -> BigInt {
    BigInt::from_signed_bytes_le(&x.to_le_bytes())
}
pub fn big_to_i256(b: &BigInt) -> Option<i256> {
    let bytes = b.to_signed_bytes_le();
    if bytes.len() > 32 {
        return None;
    }
    let fill = if b.sign() == num_bigint::Sign::Minus { 0xFFu8 } else { 0 };
    let mut out = [fill; 32];
    out[..bytes.len()].copy_from_slice(&bytes);
    Some(i256::from_le_bytes(out))
}
pub fn pow10(n: u32) -> BigInt {
    BigInt::from(10).pow(n)
}

// ---------------------------------------------------------------------------------------------
// layouts

#[derive(Clone, Copy, Debug, PartialEq, Eq)]
pub enum Layout {
    Compact,
    /// two extra leading rows and one trailing row (adversarial values), then `slice(2, len)`
    Sliced,
    /// payload under every null slot is an adversarial value instead of the type default
    Garbage,
    /// offset 0 but shorter than the buffers: one more copy of the last row (so that a run-end array is
    /// cut inside its last run) and one adversarial row follow, then `slice(0, len)`
    Truncated,
    /// dictionary sources only: dense keys, `2 * len + 3` unreferenced (adversarial / default) dictionary values
    DictExtras,
    /// dictionary sources only: nulls are valid keys that refer to a NULL dictionary value
    DictNullValue,
    /// dictionary sources only: both of the above (sparse dictionary whose referenced null value sits among
    /// adversarial unreferenced values)
    DictExtrasNullValue,
}
pub const DICT_LAYOUTS: [Layout; 3] = [Layout::DictExtras, Layout::DictNullValue, Layout::DictExtrasNullValue];
impl Layout {
    pub fn null_is_dictionary_value(&self) -> bool {
        matches!(self, Layout::DictNullValue | Layout::DictExtrasNullValue)
    }
    pub fn name(&self) -> &'static str {
        match self {
            Layout::Compact => "compact",
            Layout::Sliced => "sliced",
            Layout::Garbage => "garbage-under-nulls",
            Layout::Truncated => "truncated",
            Layout::DictExtras => "dict-unreferenced-values",
            Layout::DictNullValue => "dict-null-value",
            Layout::DictExtrasNullValue => "dict-unreferenced-values+null-value",
        }
    }
    pub fn parse(s: &str) -> Layout {
        match s {
            "sliced" => Layout::Sliced,
            "garbage-under-nulls" => Layout::Garbage,
            "truncated" => Layout::Truncated,
            "dict-unreferenced-values" => Layout::DictExtras,
            "dict-null-value" => Layout::DictNullValue,
            "dict-unreferenced-values+null-value" => Layout::DictExtrasNullValue,
            _ => Layout::Compact,
        }
    }
}

pub fn tz_offset_secs(tz: &str) -> i64 {
    // only fixed offsets "+HH:MM" are in the grid
    let sign = if tz.starts_with('-') { -1 } else { 1 };
    let h: i64 = tz[1..3].parse().unwrap();
    let m: i64 = tz[4..6].parse().unwrap();
    sign * (h * 3600 + m * 60)
}

pub fn unit_per_sec(u: &TimeUnit) -> i64 {
    match u {
        TimeUnit::Second => 1,
        TimeUnit::Millisecond => 1_000,
        TimeUnit::Microsecond => 1_000_000,
        TimeUnit::Nanosecond => 1_000_000_000,
    }
}

pub fn dec_parts(dt: &DataType) -> Option<(u8, i8, u8)> {
    match dt {
        DataType::Decimal32(p, s) => Some((*p, *s, 32)),
        DataType::Decimal64(p, s) => Some((*p, *s, 64)),
        DataType::Decimal128(p, s) => Some((*p, *s, 128)),
        DataType::Decimal256(p, s) => Some((*p, *s, 0)),
        _ => None,
    }
}

/// (min, max) of an integer-backed type's native storage
pub fn int_range(dt: &DataType) -> Option<(i128, i128)> {
    use DataType::*;
    Some(match dt {
        Int8 => (i8::MIN as i128, i8::MAX as i128),
        Int16 => (i16::MIN as i128, i16::MAX as i128),
        Int32 | Date32 | Time32(_) | Interval(IntervalUnit::YearMonth) => (i32::MIN as i128, i32::MAX as i128),
        Int64 | Date64 | Time64(_) | Timestamp(_, _) | Duration(_) => (i64::MIN as i128, i64::MAX as i128),
        UInt8 => (0, u8::MAX as i128),
        UInt16 => (0, u16::MAX as i128),
        UInt32 => (0, u32::MAX as i128),
        UInt64 => (0, u64::MAX as i128),
        _ => return None,
    })
}

/// type default used as payload under nulls in the compact layout
pub fn default_value(dt: &DataType) -> V {
    use DataType::*;
    match dt {
        Null => V::Null,
        Boolean => V::Bool(false),
        Float16 => V::F16(0),
        Float32 => V::F32(0),
        Float64 => V::F64(0),
        Decimal32(..) | Decimal64(..) | Decimal128(..) | Decimal256(..) => V::D(i256::ZERO),
        Interval(IntervalUnit::DayTime) => V::DT(0, 0),
        Interval(IntervalUnit::MonthDayNano) => V::MDN(0, 0, 0),
        Utf8 | LargeUtf8 | Utf8View => V::S(String::new()),
        Binary | LargeBinary | BinaryView => V::B(vec![]),
        FixedSizeBinary(n) => V::B(vec![0; *n as usize]),
        List(_) | LargeList(_) | ListView(_) | LargeListView(_) => V::L(vec![]),
        FixedSizeList(f, n) => V::L(vec![default_value(f.data_type()); *n as usize]),
        Struct(fs) => V::St(fs.iter().map(|f| default_value(f.data_type())).collect()),
        Map(_, _) => V::M(vec![]),
        Dictionary(_, v) => default_value(v),
        RunEndEncoded(_, v) => default_value(v.data_type()),
        _ => V::I(0),
    }
}

/// adversarial payload: extreme / unparsable values that must stay invisible under a null or outside a slice
pub fn garbage_value(dt: &DataType) -> V {
    use DataType::*;
    match dt {
        Null => V::Null,
        Boolean => V::Bool(true),
        Float16 => V::F16(0x7E01), // NaN with payload
        Float32 => V::F32(0x7FC0_0001),
        Float64 => V::F64(0x7FF8_0000_0000_0001),
        Decimal32(p, _) | Decimal64(p, _) | Decimal128(p, _) | Decimal256(p, _) => V::D(big_to_i256(&(pow10(*p as u32) - 1)).unwrap()),
        Interval(IntervalUnit::DayTime) => V::DT(i32::MAX, i32::MIN),
        Interval(IntervalUnit::MonthDayNano) => V::MDN(i32::MAX, i32::MIN, i64::MAX),
        Utf8 | LargeUtf8 | Utf8View => V::s("zz\u{e9}-not-a-number-13+"),
        Binary | LargeBinary | BinaryView => V::B(vec![0xFF, 0xFE, 0x80, 0x00, 0xC3, 0x28, 9, 9, 9, 9, 9, 9, 9, 9]),
        FixedSizeBinary(n) => V::B(vec![0xFF; *n as usize]),
        List(f) | LargeList(f) | ListView(f) | LargeListView(f) => V::L(vec![garbage_value(f.data_type()), garbage_value(f.data_type())]),
        FixedSizeList(f, n) => V::L(vec![garbage_value(f.data_type()); *n as usize]),
        Struct(fs) => V::St(fs.iter().map(|f| garbage_value(f.data_type())).collect()),
        Map(f, _) => {
            let DataType::Struct(kv) = f.data_type() else { unreachable!() };
            V::M(vec![(garbage_value(kv[0].data_type()), garbage_value(kv[1].data_type()))])
        }
        Dictionary(_, v) => garbage_value(v),
        RunEndEncoded(_, v) => garbage_value(v.data_type()),
        other => V::I(int_range(other).unwrap().1),
    }
}

// ---------------------------------------------------------------------------------------------
// build

fn nulls_of(rows: &[V]) -> Option<NullBuffer> {
    if rows.iter().any(|r| r.is_null()) {
        Some(NullBuffer::new(BooleanBuffer::collect_bool(rows.len(), |i| !rows[i].is_null())))
    } else {
        None
    }
}

fn prim<T: ArrowPrimitiveType>(vals: Vec<T::Native>, nulls: Option<NullBuffer>, dt: &DataType) -> ArrayRef {
    Arc::new(PrimitiveArray::<T>::new(ScalarBuffer::from(vals), nulls).with_data_type(dt.clone()))
}

fn payloads<'a>(rows: &'a [V], fill: &'a V) -> impl Iterator<Item = &'a V> + 'a {
    rows.iter().map(move |r| if r.is_null() { fill } else { r })
}

fn as_i(v: &V) -> i128 {
    match v {
        V::I(i) => *i,
        other => panic!("harness: expected integer value, got {other:?}"),
    }
}

/// Build the rows of type `dt`; `garbage` selects the payload written under null slots.
pub fn build(dt: &DataType, rows: &[V], garbage: bool) -> ArrayRef {
    use DataType::*;
    let fill = if garbage { garbage_value(dt) } else { default_value(dt) };
    let nulls = nulls_of(rows);
    macro_rules! ints {
        ($t:ty, $n:ty) => {
            prim::<$t>(payloads(rows, &fill).map(|v| as_i(v) as $n).collect(), nulls, dt)
        };
    }
    match dt {
        Null => Arc::new(NullArray::new(rows.len())),
        Boolean => {
            let vals: Vec<bool> = payloads(rows, &fill).map(|v| matches!(v, V::Bool(true))).collect();
            Arc::new(BooleanArray::new(BooleanBuffer::from(vals), nulls))
        }
        Int8 => ints!(Int8Type, i8),
        Int16 => ints!(Int16Type, i16),
        Int32 => ints!(Int32Type, i32),
        Int64 => ints!(Int64Type, i64),
        UInt8 => ints!(UInt8Type, u8),
        UInt16 => ints!(UInt16Type, u16),
        UInt32 => ints!(UInt32Type, u32),
        UInt64 => ints!(UInt64Type, u64),
        Date32 => ints!(Date32Type, i32),
        Date64 => ints!(Date64Type, i64),
        Time32(TimeUnit::Second) => ints!(Time32SecondType, i32),
        Time32(TimeUnit::Millisecond) => ints!(Time32MillisecondType, i32),
        Time64(TimeUnit::Microsecond) => ints!(Time64MicrosecondType, i64),
        Time64(TimeUnit::Nanosecond) => ints!(Time64NanosecondType, i64),
        Timestamp(TimeUnit::Second, _) => ints!(TimestampSecondType, i64),
        Timestamp(TimeUnit::Millisecond, _) => ints!(TimestampMillisecondType, i64),
        Timestamp(TimeUnit::Microsecond, _) => ints!(TimestampMicrosecondType, i64),
        Timestamp(TimeUnit::Nanosecond, _) => ints!(TimestampNanosecondType, i64),
        Duration(TimeUnit::Second) => ints!(DurationSecondType, i64),
        Duration(TimeUnit::Millisecond) => ints!(DurationMillisecondType, i64),
        Duration(TimeUnit::Microsecond) => ints!(DurationMicrosecondType, i64),
        Duration(TimeUnit::Nanosecond) => ints!(DurationNanosecondType, i64),
        Interval(IntervalUnit::YearMonth) => ints!(IntervalYearMonthType, i32),
        Interval(IntervalUnit::DayTime) => {
            let vals = payloads(rows, &fill)
                .map(|v| match v {
                    V::DT(d, m) => IntervalDayTime::new(*d, *m),
                    o => panic!("harness: {o:?}"),
                })
                .collect();
            prim::<IntervalDayTimeType>(vals, nulls, dt)
        }
        Interval(IntervalUnit::MonthDayNano) => {
            let vals = payloads(rows, &fill)
                .map(|v| match v {
                    V::MDN(m, d, n) => IntervalMonthDayNano::new(*m, *d, *n),
                    o => panic!("harness: {o:?}"),
                })
                .collect();
            prim::<IntervalMonthDayNanoType>(vals, nulls, dt)
        }
        Float16 => prim::<Float16Type>(payloads(rows, &fill).map(|v| if let V::F16(b) = v { f16::from_bits(*b) } else { panic!("harness") }).collect(), nulls, dt),
        Float32 => prim::<Float32Type>(payloads(rows, &fill).map(|v| if let V::F32(b) = v { f32::from_bits(*b) } else { panic!("harness") }).collect(), nulls, dt),
        Float64 => prim::<Float64Type>(payloads(rows, &fill).map(|v| if let V::F64(b) = v { f64::from_bits(*b) } else { panic!("harness") }).collect(), nulls, dt),
        Decimal32(..) => prim::<Decimal32Type>(payloads(rows, &fill).map(|v| if let V::D(d) = v { d.to_i128().unwrap() as i32 } else { panic!("harness") }).collect(), nulls, dt),
        Decimal64(..) => prim::<Decimal64Type>(payloads(rows, &fill).map(|v| if let V::D(d) = v { d.to_i128().unwrap() as i64 } else { panic!("harness") }).collect(), nulls, dt),
        Decimal128(..) => prim::<Decimal128Type>(payloads(rows, &fill).map(|v| if let V::D(d) = v { d.to_i128().unwrap() } else { panic!("harness") }).collect(), nulls, dt),
        Decimal256(..) => prim::<Decimal256Type>(payloads(rows, &fill).map(|v| if let V::D(d) = v { *d } else { panic!("harness") }).collect(), nulls, dt),
        Utf8 => build_bytes::<Utf8Type>(rows, &fill, nulls),
        LargeUtf8 => build_bytes::<LargeUtf8Type>(rows, &fill, nulls),
        Binary => build_bytes::<BinaryType>(rows, &fill, nulls),
        LargeBinary => build_bytes::<LargeBinaryType>(rows, &fill, nulls),
        Utf8View => {
            let mut b = builder::StringViewBuilder::new();
            for v in payloads(rows, &fill) {
                let V::S(s) = v else { panic!("harness") };
                b.append_value(s);
            }
            let a = b.finish();
            Arc::new(StringViewArray::new(a.views().clone(), a.data_buffers().to_vec(), nulls))
        }
        BinaryView => {
            let mut b = builder::BinaryViewBuilder::new();
            for v in payloads(rows, &fill) {
                let V::B(s) = v else { panic!("harness") };
                b.append_value(s);
            }
            let a = b.finish();
            Arc::new(BinaryViewArray::new(a.views().clone(), a.data_buffers().to_vec(), nulls))
        }
        FixedSizeBinary(n) => {
            let mut bytes = vec![];
            for v in payloads(rows, &fill) {
                let V::B(s) = v else { panic!("harness") };
                assert_eq!(s.len(), *n as usize);
                bytes.extend_from_slice(s);
            }
            if *n == 0 {
                // zero-width: length is carried by the null buffer / explicit constructor
                let mut b = builder::FixedSizeBinaryBuilder::new(0);
                for r in rows {
                    if r.is_null() { b.append_null() } else { b.append_value([]).unwrap() }
                }
                return Arc::new(b.finish());
            }
            Arc::new(FixedSizeBinaryArray::new(*n, Buffer::from(bytes), nulls))
        }
        List(f) => build_list::<i32>(f, rows, &fill, nulls, garbage),
        LargeList(f) => build_list::<i64>(f, rows, &fill, nulls, garbage),
        ListView(f) => build_list_view::<i32>(f, rows, &fill, nulls, garbage),
        LargeListView(f) => build_list_view::<i64>(f, rows, &fill, nulls, garbage),
        FixedSizeList(f, n) => {
            let mut flat = vec![];
            // compact: the slots under a null row are null children (what the builders produce)
            let fill = if garbage { fill } else { V::L(vec![V::Null; *n as usize]) };
            for v in payloads(rows, &fill) {
                let V::L(items) = v else { panic!("harness") };
                assert_eq!(items.len(), *n as usize);
                flat.extend(items.iter().cloned());
            }
            let child = build(f.data_type(), &flat, garbage);
            Arc::new(FixedSizeListArray::try_new_with_length(f.clone(), *n, child, nulls, rows.len()).unwrap())
        }
        Struct(fs) => {
            let mut cols = vec![];
            let fill = if garbage { fill } else { V::St(vec![V::Null; fs.len()]) };
            for (k, f) in fs.iter().enumerate() {
                let col: Vec<V> = payloads(rows, &fill)
                    .map(|v| {
                        let V::St(items) = v else { panic!("harness") };
                        items[k].clone()
                    })
                    .collect();
                cols.push(build(f.data_type(), &col, garbage));
            }
            if fs.is_empty() {
                Arc::new(StructArray::new_empty_fields(rows.len(), nulls))
            } else {
                Arc::new(StructArray::new(fs.clone(), cols, nulls))
            }
        }
        Map(f, ordered) => {
            let DataType::Struct(kv) = f.data_type() else { unreachable!() };
            let (mut ks, mut vs, mut lens) = (vec![], vec![], vec![]);
            for v in payloads(rows, &fill) {
                let V::M(items) = v else { panic!("harness") };
                lens.push(items.len());
                for (k, x) in items {
                    ks.push(k.clone());
                    vs.push(x.clone());
                }
            }
            let karr = build(kv[0].data_type(), &ks, garbage);
            let varr = build(kv[1].data_type(), &vs, garbage);
            let entries = StructArray::new(kv.clone(), vec![karr, varr], None);
            Arc::new(MapArray::new(f.clone(), OffsetBuffer::from_lengths(lens), entries, nulls, *ordered))
        }
        Dictionary(k, vt) => build_dict(k, vt, rows, garbage, false, false),
        RunEndEncoded(k, vf) => {
            // maximal runs of equal logical values (nulls live in the values child)
            let mut ends: Vec<V> = vec![];
            let mut vals: Vec<V> = vec![];
            for (i, r) in rows.iter().enumerate() {
                if i > 0 && vals.last() == Some(r) {
                    *ends.last_mut().unwrap() = V::I(i as i128 + 1);
                } else {
                    vals.push(r.clone());
                    ends.push(V::I(i as i128 + 1));
                }
            }
            let values = build(vf.data_type(), &vals, garbage);
            let ends = build(k.data_type(), &ends, false);
            match k.data_type() {
                Int16 => Arc::new(RunArray::<Int16Type>::try_new(ends.as_primitive(), &values).unwrap()),
                Int32 => Arc::new(RunArray::<Int32Type>::try_new(ends.as_primitive(), &values).unwrap()),
                Int64 => Arc::new(RunArray::<Int64Type>::try_new(ends.as_primitive(), &values).unwrap()),
                _ => unreachable!(),
            }
        }
        other => panic!("harness: build does not support {other}"),
    }
}

/// Dictionary realisations of one logical column.
/// * dense (`extras == false`, `null_value == false`): values = the distinct non-null payloads in first-occurrence
///   order; a null row is a null KEY whose payload points at entry 0 (or, with `garbage`, at an otherwise unused
///   adversarial entry);
/// * `extras`: `2 * len + 3` unreferenced entries follow the referenced ones (adversarial value, type default,
///   adversarial, ...), so that `values.len() > 2 * keys.len()` (the library's "sparse dictionary" paths) and the
///   values contain out-of-range numbers / unparsable text / invalid UTF-8 that no row refers to;
/// * `null_value`: a null row is a VALID key that refers to a NULL dictionary value (no validity buffer on the keys).
fn build_dict(k: &DataType, vt: &DataType, rows: &[V], garbage: bool, extras: bool, null_value: bool) -> ArrayRef {
    use DataType::*;
    let mut dict: Vec<V> = vec![];
    let mut keys: Vec<i128> = vec![];
    for r in rows {
        if r.is_null() {
            keys.push(-1);
        } else {
            let pos = dict.iter().position(|d| d == r).unwrap_or_else(|| {
                dict.push(r.clone());
                dict.len() - 1
            });
            keys.push(pos as i128);
        }
    }
    let has_null = rows.iter().any(|r| r.is_null());
    let null_key = if null_value && has_null {
        dict.push(V::Null);
        (dict.len() - 1) as i128
    } else if garbage && has_null {
        dict.push(garbage_value(vt));
        (dict.len() - 1) as i128
    } else {
        0
    };
    if extras {
        for j in 0..2 * rows.len() + 3 {
            dict.push(if j % 2 == 0 { garbage_value(vt) } else { default_value(vt) });
        }
    }
    let keys: Vec<V> = keys.into_iter().map(|k| V::I(if k < 0 { null_key } else { k })).collect();
    let nulls = if null_value { None } else { nulls_of(rows) };
    let values = build(vt, &dict, garbage);
    macro_rules! dict {
        ($t:ty) => {{
            let karr = build(k, &keys, false);
            let karr = karr.as_primitive::<$t>().clone();
            let karr = PrimitiveArray::<$t>::new(karr.values().clone(), nulls);
            Arc::new(DictionaryArray::<$t>::try_new(karr, values).unwrap()) as ArrayRef
        }};
    }
    match *k {
        Int8 => dict!(Int8Type),
        Int16 => dict!(Int16Type),
        Int32 => dict!(Int32Type),
        Int64 => dict!(Int64Type),
        UInt8 => dict!(UInt8Type),
        UInt16 => dict!(UInt16Type),
        UInt32 => dict!(UInt32Type),
        UInt64 => dict!(UInt64Type),
        _ => unreachable!(),
    }
}

fn build_bytes<T: ByteArrayType>(rows: &[V], fill: &V, nulls: Option<NullBuffer>) -> ArrayRef {
    let mut bytes: Vec<u8> = vec![];
    let mut lens = vec![];
    for v in payloads(rows, fill) {
        let b: &[u8] = match v {
            V::S(s) => s.as_bytes(),
            V::B(b) => b,
            o => panic!("harness: {o:?}"),
        };
        lens.push(b.len());
        bytes.extend_from_slice(b);
    }
    Arc::new(GenericByteArray::<T>::new(OffsetBuffer::from_lengths(lens), Buffer::from(bytes), nulls))
}

fn build_list<O: OffsetSizeTrait>(f: &Arc<Field>, rows: &[V], fill: &V, nulls: Option<NullBuffer>, garbage: bool) -> ArrayRef {
    let mut flat = vec![];
    let mut lens = vec![];
    for v in payloads(rows, fill) {
        let V::L(items) = v else { panic!("harness") };
        lens.push(items.len());
        flat.extend(items.iter().cloned());
    }
    let child = build(f.data_type(), &flat, garbage);
    Arc::new(GenericListArray::<O>::new(f.clone(), OffsetBuffer::from_lengths(lens), child, nulls))
}

fn build_list_view<O: OffsetSizeTrait>(f: &Arc<Field>, rows: &[V], fill: &V, nulls: Option<NullBuffer>, garbage: bool) -> ArrayRef {
    let mut flat = vec![];
    let (mut offs, mut sizes) = (vec![], vec![]);
    for v in payloads(rows, fill) {
        let V::L(items) = v else { panic!("harness") };
        offs.push(O::usize_as(flat.len()));
        sizes.push(O::usize_as(items.len()));
        flat.extend(items.iter().cloned());
    }
    let child = build(f.data_type(), &flat, garbage);
    Arc::new(GenericListViewArray::<O>::new(f.clone(), ScalarBuffer::from(offs), ScalarBuffer::from(sizes), child, nulls))
}

/// Physical realisation of a logical column in one of the three layouts.
pub fn realise(dt: &DataType, rows: &[V], layout: Layout) -> ArrayRef {
    match layout {
        Layout::Compact => build(dt, rows, false),
        Layout::Garbage => build(dt, rows, true),
        Layout::Sliced => {
            let g = garbage_value(dt);
            let mut all = Vec::with_capacity(rows.len() + 3);
            all.push(g.clone());
            all.push(if matches!(dt, DataType::Null) { V::Null } else { g.clone() });
            all.extend(rows.iter().cloned());
            all.push(g);
            let a = build(dt, &all, false);
            a.slice(2, rows.len())
        }
        Layout::Truncated => {
            let g = garbage_value(dt);
            let mut all = rows.to_vec();
            all.push(rows.last().cloned().unwrap_or_else(|| g.clone()));
            all.push(if matches!(dt, DataType::Null) { V::Null } else { g });
            let a = build(dt, &all, false);
            a.slice(0, rows.len())
        }
        Layout::DictExtras | Layout::DictNullValue | Layout::DictExtrasNullValue => match dt {
            DataType::Dictionary(k, vt) => build_dict(k, vt, rows, false, layout != Layout::DictNullValue, layout.null_is_dictionary_value()),
            _ => build(dt, rows, false),
        },
    }
}

// ---------------------------------------------------------------------------------------------
// extract

pub fn extract(a: &dyn Array) -> Vec<V> {
    use DataType::*;
    let n = a.len();
    macro_rules! ints {
        ($t:ty) => {{
            let p = a.as_primitive::<$t>();
            (0..n).map(|i| if p.is_null(i) { V::Null } else { V::I(p.value(i) as i128) }).collect()
        }};
    }
    match a.data_type() {
        Null => vec![V::Null; n],
        Boolean => {
            let p = a.as_boolean();
            (0..n).map(|i| if p.is_null(i) { V::Null } else { V::Bool(p.value(i)) }).collect()
        }
        Int8 => ints!(Int8Type),
        Int16 => ints!(Int16Type),
        Int32 => ints!(Int32Type),
        Int64 => ints!(Int64Type),
        UInt8 => ints!(UInt8Type),
        UInt16 => ints!(UInt16Type),
        UInt32 => ints!(UInt32Type),
        UInt64 => ints!(UInt64Type),
        Date32 => ints!(Date32Type),
        Date64 => ints!(Date64Type),
        Time32(TimeUnit::Second) => ints!(Time32SecondType),
        Time32(TimeUnit::Millisecond) => ints!(Time32MillisecondType),
        Time64(TimeUnit::Microsecond) => ints!(Time64MicrosecondType),
        Time64(TimeUnit::Nanosecond) => ints!(Time64NanosecondType),
        Timestamp(TimeUnit::Second, _) => ints!(TimestampSecondType),
        Timestamp(TimeUnit::Millisecond, _) => ints!(TimestampMillisecondType),
        Timestamp(TimeUnit::Microsecond, _) => ints!(TimestampMicrosecondType),
        Timestamp(TimeUnit::Nanosecond, _) => ints!(TimestampNanosecondType),
        Duration(TimeUnit::Second) => ints!(DurationSecondType),
        Duration(TimeUnit::Millisecond) => ints!(DurationMillisecondType),
        Duration(TimeUnit::Microsecond) => ints!(DurationMicrosecondType),
        Duration(TimeUnit::Nanosecond) => ints!(DurationNanosecondType),
        Interval(IntervalUnit::YearMonth) => ints!(IntervalYearMonthType),
        Interval(IntervalUnit::DayTime) => {
            let p = a.as_primitive::<IntervalDayTimeType>();
            (0..n).map(|i| if p.is_null(i) { V::Null } else { V::DT(p.value(i).days, p.value(i).milliseconds) }).collect()
        }
        Interval(IntervalUnit::MonthDayNano) => {
            let p = a.as_primitive::<IntervalMonthDayNanoType>();
            (0..n).map(|i| if p.is_null(i) { V::Null } else { V::MDN(p.value(i).months, p.value(i).days, p.value(i).nanoseconds) }).collect()
        }
        Float16 => {
            let p = a.as_primitive::<Float16Type>();
            (0..n).map(|i| if p.is_null(i) { V::Null } else { V::F16(p.value(i).to_bits()) }).collect()
        }
        Float32 => {
            let p = a.as_primitive::<Float32Type>();
            (0..n).map(|i| if p.is_null(i) { V::Null } else { V::F32(p.value(i).to_bits()) }).collect()
        }
        Float64 => {
            let p = a.as_primitive::<Float64Type>();
            (0..n).map(|i| if p.is_null(i) { V::Null } else { V::F64(p.value(i).to_bits()) }).collect()
        }
        Decimal32(..) => {
            let p = a.as_primitive::<Decimal32Type>();
            (0..n).map(|i| if p.is_null(i) { V::Null } else { V::D(i256::from_i128(p.value(i) as i128)) }).collect()
        }
        Decimal64(..) => {
            let p = a.as_primitive::<Decimal64Type>();
            (0..n).map(|i| if p.is_null(i) { V::Null } else { V::D(i256::from_i128(p.value(i) as i128)) }).collect()
        }
        Decimal128(..) => {
            let p = a.as_primitive::<Decimal128Type>();
            (0..n).map(|i| if p.is_null(i) { V::Null } else { V::D(i256::from_i128(p.value(i))) }).collect()
        }
        Decimal256(..) => {
            let p = a.as_primitive::<Decimal256Type>();
            (0..n).map(|i| if p.is_null(i) { V::Null } else { V::D(p.value(i)) }).collect()
        }
        Utf8 => {
            let p = a.as_string::<i32>();
            (0..n).map(|i| if p.is_null(i) { V::Null } else { V::s(p.value(i)) }).collect()
        }
        LargeUtf8 => {
            let p = a.as_string::<i64>();
            (0..n).map(|i| if p.is_null(i) { V::Null } else { V::s(p.value(i)) }).collect()
        }
        Utf8View => {
            let p = a.as_string_view();
            (0..n).map(|i| if p.is_null(i) { V::Null } else { V::s(p.value(i)) }).collect()
        }
        Binary => {
            let p = a.as_binary::<i32>();
            (0..n).map(|i| if p.is_null(i) { V::Null } else { V::B(p.value(i).to_vec()) }).collect()
        }
        LargeBinary => {
            let p = a.as_binary::<i64>();
            (0..n).map(|i| if p.is_null(i) { V::Null } else { V::B(p.value(i).to_vec()) }).collect()
        }
        BinaryView => {
            let p = a.as_binary_view();
            (0..n).map(|i| if p.is_null(i) { V::Null } else { V::B(p.value(i).to_vec()) }).collect()
        }
        FixedSizeBinary(_) => {
            let p = a.as_fixed_size_binary();
            (0..n).map(|i| if p.is_null(i) { V::Null } else { V::B(p.value(i).to_vec()) }).collect()
        }
        List(_) => {
            let p = a.as_list::<i32>();
            let child = extract(p.values().as_ref());
            (0..n)
                .map(|i| if p.is_null(i) { V::Null } else { V::L(child[p.value_offsets()[i] as usize..p.value_offsets()[i + 1] as usize].to_vec()) })
                .collect()
        }
        LargeList(_) => {
            let p = a.as_list::<i64>();
            let child = extract(p.values().as_ref());
            (0..n)
                .map(|i| if p.is_null(i) { V::Null } else { V::L(child[p.value_offsets()[i] as usize..p.value_offsets()[i + 1] as usize].to_vec()) })
                .collect()
        }
        ListView(_) => {
            let p = a.as_list_view::<i32>();
            let child = extract(p.values().as_ref());
            (0..n)
                .map(|i| {
                    if p.is_null(i) {
                        V::Null
                    } else {
                        let o = p.value_offsets()[i] as usize;
                        V::L(child[o..o + p.value_sizes()[i] as usize].to_vec())
                    }
                })
                .collect()
        }
        LargeListView(_) => {
            let p = a.as_list_view::<i64>();
            let child = extract(p.values().as_ref());
            (0..n)
                .map(|i| {
                    if p.is_null(i) {
                        V::Null
                    } else {
                        let o = p.value_offsets()[i] as usize;
                        V::L(child[o..o + p.value_sizes()[i] as usize].to_vec())
                    }
                })
                .collect()
        }
        FixedSizeList(_, k) => {
            let p = a.as_fixed_size_list();
            let k = *k as usize;
            let child = extract(p.values().as_ref());
            (0..n).map(|i| if p.is_null(i) { V::Null } else { V::L(child[i * k..(i + 1) * k].to_vec()) }).collect()
        }
        Struct(_) => {
            let p = a.as_struct();
            let cols: Vec<Vec<V>> = p.columns().iter().map(|c| extract(c.as_ref())).collect();
            (0..n).map(|i| if p.is_null(i) { V::Null } else { V::St(cols.iter().map(|c| c[i].clone()).collect()) }).collect()
        }
        Map(_, _) => {
            let p = a.as_map();
            let ks = extract(p.keys().as_ref());
            let vs = extract(p.values().as_ref());
            (0..n)
                .map(|i| {
                    if p.is_null(i) {
                        V::Null
                    } else {
                        let (s, e) = (p.value_offsets()[i] as usize, p.value_offsets()[i + 1] as usize);
                        V::M((s..e).map(|j| (ks[j].clone(), vs[j].clone())).collect())
                    }
                })
                .collect()
        }
        Dictionary(k, _) => {
            let d = a.as_any_dictionary();
            let vals = extract(d.values().as_ref());
            let keys = extract(d.keys());
            let _ = k;
            keys.iter()
                .map(|k| match k {
                    V::Null => V::Null,
                    V::I(i) => vals[*i as usize].clone(),
                    _ => unreachable!(),
                })
                .collect()
        }
        RunEndEncoded(k, _) => {
            macro_rules! ree {
                ($t:ty) => {{
                    let r = a.as_any().downcast_ref::<RunArray<$t>>().unwrap();
                    let vals = extract(r.values().as_ref());
                    (0..n).map(|i| vals[r.get_physical_index(i)].clone()).collect()
                }};
            }
            match k.data_type() {
                Int16 => ree!(Int16Type),
                Int32 => ree!(Int32Type),
                Int64 => ree!(Int64Type),
                _ => unreachable!(),
            }
        }
        other => panic!("harness: extract does not support {other}"),
    }
}

// ---------------------------------------------------------------------------------------------
// the type grid

pub const ZONES: [Option<&str>; 4] = [None, Some("+00:00"), Some("-05:30"), Some("+14:00")];
pub const UNITS: [TimeUnit; 4] = [TimeUnit::Second, TimeUnit::Millisecond, TimeUnit::Microsecond, TimeUnit::Nanosecond];

fn fld(dt: DataType) -> Arc<Field> {
    Arc::new(Field::new_list_field(dt, true))
}

pub fn map_type(k: DataType, v: DataType) -> DataType {
    let entries = Field::new("entries", DataType::Struct(Fields::from(vec![Field::new("keys", k, false), Field::new("values", v, true)])), false);
    DataType::Map(Arc::new(entries), false)
}
pub fn ree_type(k: DataType, v: DataType) -> DataType {
    DataType::RunEndEncoded(Arc::new(Field::new("run_ends", k, false)), Arc::new(Field::new("values", v, true)))
}

pub fn grid() -> Vec<DataType> {
    use DataType::*;
    let mut g = vec![Null, Boolean, Int8, Int16, Int32, Int64, UInt8, UInt16, UInt32, UInt64, Float16, Float32, Float64];
    // decimals: 6 (precision, scale) points per width incl. minimum precision, max precision with scale
    // 0 / max / half, a mid point and a negative scale
    for (p, s) in [(1, 0), (5, 2), (9, 0), (9, 9), (5, -3), (9, 4)] {
        g.push(Decimal32(p, s));
    }
    for (p, s) in [(1, 0), (10, 2), (18, 0), (18, 18), (10, -3), (18, 9)] {
        g.push(Decimal64(p, s));
    }
    for (p, s) in [(1, 0), (10, 2), (38, 0), (38, 38), (20, -5), (38, 19)] {
        g.push(Decimal128(p, s));
    }
    for (p, s) in [(1, 0), (10, 2), (76, 0), (76, 76), (40, -5), (76, 38)] {
        g.push(Decimal256(p, s));
    }
    g.extend([Date32, Date64, Time32(TimeUnit::Second), Time32(TimeUnit::Millisecond), Time64(TimeUnit::Microsecond), Time64(TimeUnit::Nanosecond)]);
    for u in UNITS {
        for z in ZONES {
            g.push(Timestamp(u, z.map(|z| z.into())));
        }
    }
    for u in UNITS {
        g.push(Duration(u));
    }
    g.extend([Interval(IntervalUnit::YearMonth), Interval(IntervalUnit::DayTime), Interval(IntervalUnit::MonthDayNano)]);
    g.extend([Utf8, LargeUtf8, Utf8View, Binary, LargeBinary, BinaryView, FixedSizeBinary(3)]);
    // wrappers of Int32 and Utf8
    g.push(Dictionary(Box::new(Int8), Box::new(Utf8)));
    g.push(Dictionary(Box::new(UInt16), Box::new(Utf8)));
    g.push(Dictionary(Box::new(Int32), Box::new(Int32)));
    g.push(Dictionary(Box::new(Int8), Box::new(Binary)));
    g.push(Dictionary(Box::new(Int32), Box::new(LargeBinary)));
    g.push(ree_type(Int16, Int32));
    g.push(ree_type(Int32, Utf8));
    for inner in [Int32, Utf8] {
        g.push(List(fld(inner.clone())));
        g.push(LargeList(fld(inner.clone())));
        g.push(ListView(fld(inner.clone())));
        g.push(FixedSizeList(fld(inner.clone()), 2));
    }
    g.push(LargeListView(fld(Int32)));
    g.push(FixedSizeList(fld(Int32), 1));
    g.push(Struct(Fields::from(vec![Field::new("a", Int32, true), Field::new("b", Utf8, true)])));
    g.push(Struct(Fields::from(vec![Field::new("b", LargeUtf8, true), Field::new("a", Int64, true)])));
    g.push(map_type(Utf8, Int32));
    g.push(map_type(Int32, Utf8));
    g
}
