mod alpha;
mod c13;
mod dtype;
mod exhaustive;
mod text;
mod grid;
mod matrix;
mod model;
fn main() {
    let ctx = vcore::Ctx::from_args();
    match ctx.prop.as_str() {
        "C13" => c13::run(&ctx),
        other => {
            eprintln!("MACHINERY: vk-cast does not serve property {other:?}");
            std::process::exit(2)
        }
    }
}
