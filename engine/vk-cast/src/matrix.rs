//! The ordered-pair matrix: O1 (can_cast => never unsupported), O2 (strict/safe duality, row-wise),
//! O3 (documented reference per letter), O4 (inverse identities on lossless pairs), well-formedness.
use crate::alpha::letters;
use crate::grid::*;
use crate::model::{Exp, expect};
use arrow_array::{Array, ArrayRef};
use arrow_cast::display::FormatOptions;
use arrow_cast::{CastOptions, can_cast_types, cast_with_options};
use arrow_schema::{ArrowError, DataType};
use vcore::serde_json::{Value, json};
use vcore::{Ctx, PanicInfo, Stats, catch, par_for};

#[derive(Clone, Debug)]
pub struct ErrInfo {
    pub variant: &'static str,
    pub msg: String,
}

pub fn err_info(e: &ArrowError) -> ErrInfo {
    let variant = match e {
        ArrowError::NotYetImplemented(_) => "NotYetImplemented",
        ArrowError::CastError(_) => "CastError",
        ArrowError::ComputeError(_) => "ComputeError",
        ArrowError::InvalidArgumentError(_) => "InvalidArgumentError",
        ArrowError::ParseError(_) => "ParseError",
        ArrowError::ArithmeticOverflow(_) => "ArithmeticOverflow",
        ArrowError::DivideByZero => "DivideByZero",
        ArrowError::SchemaError(_) => "SchemaError",
        ArrowError::ExternalError(_) => "ExternalError",
        _ => "Other",
    };
    ErrInfo { variant, msg: e.to_string() }
}

/// "not supported"-class error: says the type pair / type is not handled (as opposed to a value error)
pub fn is_unsupported(e: &ErrInfo) -> bool {
    let m = e.msg.to_ascii_lowercase();
    e.variant == "NotYetImplemented" || m.contains("not supported") || m.contains("unsupported") || m.contains("not yet") || m.contains("not implemented")
}

pub fn opts(safe: bool) -> CastOptions<'static> {
    CastOptions { safe, format_options: FormatOptions::default() }
}

pub enum CastOut {
    Ok(ArrayRef),
    Err(ErrInfo),
    Panic(PanicInfo),
}

pub fn do_cast(a: &dyn Array, dst: &DataType, safe: bool) -> CastOut {
    match catch(|| cast_with_options(a, dst, &opts(safe))) {
        Ok(Ok(r)) => CastOut::Ok(r),
        Ok(Err(e)) => CastOut::Err(err_info(&e)),
        Err(p) => CastOut::Panic(p),
    }
}

/// C01-style monitor on every returned array
pub fn wf(a: &ArrayRef, dst: &DataType, len: usize) -> Option<(String, String)> {
    if a.data_type() != dst {
        return Some(("wf:result-type-differs".into(), format!("result type {} != requested {}", a.data_type(), dst)));
    }
    if a.len() != len {
        return Some(("wf:result-length-differs".into(), format!("result length {} != input length {}", a.len(), len)));
    }
    match catch(|| a.to_data().validate_full()) {
        Ok(Ok(())) => None,
        Ok(Err(e)) => Some(("wf:validate_full".into(), format!("validate_full failed: {e}"))),
        Err(p) => Some((format!("wf:{}", p.fingerprint()), format!("validate_full panicked: {p:?}"))),
    }
}

pub fn kind(dt: &DataType) -> &'static str {
    use DataType::*;
    match dt {
        Null => "null",
        Boolean => "bool",
        Int8 | Int16 | Int32 | Int64 => "int",
        UInt8 | UInt16 | UInt32 | UInt64 => "uint",
        Float16 | Float32 | Float64 => "float",
        Decimal32(..) | Decimal64(..) | Decimal128(..) | Decimal256(..) => "decimal",
        Date32 | Date64 => "date",
        Time32(_) | Time64(_) => "time",
        Timestamp(_, _) => "timestamp",
        Duration(_) => "duration",
        Interval(_) => "interval",
        Utf8 | LargeUtf8 | Utf8View => "string",
        Binary | LargeBinary | BinaryView => "binary",
        FixedSizeBinary(_) => "fsb",
        List(_) | LargeList(_) => "list",
        ListView(_) | LargeListView(_) => "listview",
        FixedSizeList(_, _) => "fsl",
        Struct(_) => "struct",
        Map(_, _) => "map",
        Dictionary(_, _) => "dictionary",
        RunEndEncoded(_, _) => "ree",
        Union(_, _) => "union",
    }
}

fn nested_target(dt: &DataType) -> bool {
    use DataType::*;
    match dt {
        List(_) | LargeList(_) | ListView(_) | LargeListView(_) | FixedSizeList(_, _) | Struct(_) | Map(_, _) => true,
        Dictionary(_, v) => nested_target(v),
        RunEndEncoded(_, v) => nested_target(v.data_type()),
        _ => false,
    }
}

/// DOC (rescale_decimal): "When the scaling factor exceeds the precision table of the destination type,
/// the value is treated as an overflow for upscaling" - such decimal pairs fail for every input by design.
fn documented_always_overflow(src: &DataType, dst: &DataType) -> bool {
    if let (Some((_, s1, _)), Some((_, s2, _))) = (dec_parts(src), dec_parts(dst)) {
        let max_p = match dst {
            DataType::Decimal32(..) => 9,
            DataType::Decimal64(..) => 18,
            DataType::Decimal128(..) => 38,
            _ => 76,
        };
        return (s2 as i32 - s1 as i32) > max_p;
    }
    false
}

#[derive(Clone)]
pub enum Row1 {
    Ok(V, ArrayRef),
    Err(ErrInfo),
    Panic(String),
}

pub struct Pair {
    pub gi: usize,
    pub gj: usize,
    pub src: DataType,
    pub dst: DataType,
    pub letters: Vec<V>,
    /// strict cast of the compact 1-row array [letter]
    pub s: Vec<Row1>,
    pub nested_dst: bool,
    pub null_img: V,
    /// image of a null row that is expressed as a valid key referring to a NULL dictionary value: the value
    /// array is cast first, so the row follows the value type's rule ([NULL] for value -> list targets)
    pub null_img_value: V,
}

#[derive(Debug, Clone)]
pub struct Finding {
    pub fp: String,
    pub msg: String,
    /// O2 sub-kind (empty for the other oracles); used to re-class layout-dependent findings
    pub what: &'static str,
}

/// strip the encodings that delegate to the value type (dictionary / run-end)
fn through_encoding(dt: &DataType) -> &DataType {
    match dt {
        DataType::Dictionary(_, v) => through_encoding(v),
        DataType::RunEndEncoded(_, v) => through_encoding(v.data_type()),
        _ => dt,
    }
}
fn is_nested(dt: &DataType) -> bool {
    use DataType::*;
    matches!(dt, List(_) | LargeList(_) | ListView(_) | LargeListView(_) | FixedSizeList(_, _) | Struct(_) | Map(_, _))
}
/// class-level kinds of a pair: encodings are transparent; value->list wrappers are transparent;
/// genuinely nested sources / targets keep their own kind
fn pair_kinds(src: &DataType, dst: &DataType) -> (&'static str, &'static str) {
    let (a, b) = (through_encoding(src), through_encoding(dst));
    if !is_nested(a) && is_nested(b) {
        // value -> single-element list delegates to the element cast
        return (kind(a), kind(crate::alpha::innermost(b)));
    }
    (kind(a), kind(b))
}
fn fp(oracle: &str, what: &str, p: &Pair) -> String {
    let (a, b) = pair_kinds(&p.src, &p.dst);
    format!("c13:{oracle}:{what}:{a}->{b}")
}
/// numeric families see temporal storage as the integer it is
fn fp_o3(family: &str, what: &str, p: &Pair) -> String {
    let (mut a, mut b) = pair_kinds(&p.src, &p.dst);
    let numeric = ["int-to-", "float-to-", "decimal-to-", "string-to-int", "string-to-float", "string-to-decimal"].iter().any(|x| family.starts_with(x));
    if numeric {
        let norm = |k: &'static str| if matches!(k, "date" | "time" | "timestamp" | "duration" | "interval" | "uint") { "int" } else { k };
        a = norm(a);
        b = norm(b);
    }
    format!("c13:o3:{family}:{what}:{a}->{b}")
}

/// Fingerprint of a finding that exists only in a non-compact layout (result depends on physically present
/// but logically absent values). Root-cause classes:
/// * the cast of the hidden values themselves fails in strict mode (dictionary values, list / struct / map
///   children, bytes outside a binary slice are converted wholesale)  -> one class per source kind;
/// * anything else (wrong values, nulls turning into values, offset arithmetic) -> (layout, source kind, target kind).
fn layout_fingerprint(p: &Pair, what: &str, msg: &str, layout: Layout) -> String {
    use DataType::*;
    let src = &p.src;
    if msg.contains("Invalid range") && matches!(through_encoding(&p.dst), FixedSizeList(_, _)) {
        // List -> FixedSizeList reads the child from position 0 instead of the first offset
        return format!("c13:layout:{}:list->fsl", layout.name());
    }
    if let (FixedSizeList(_, 1), false) = (through_encoding(src), is_nested(through_encoding(&p.dst))) {
        // flattening a single-element list ignores the list's own validity: one class whatever the symptom
        return format!("c13:layout:{}:fsl->value", layout.name());
    }
    let a = if is_nested(through_encoding(src)) { kind(through_encoding(src)) } else { kind(src) };
    let child_cast_can_fail =
        crate::alpha::innermost(src) != crate::alpha::innermost(&p.dst) || matches!(through_encoding(src), Struct(_) | Map(_, _));
    if what == "strict-err-but-all-rows-castable" && child_cast_can_fail {
        return format!("c13:layout:hidden-values-fail-strict-cast:{a}");
    }
    let b = match (through_encoding(src), through_encoding(&p.dst)) {
        (FixedSizeList(_, 1), d) if !is_nested(d) => "value",
        (_, d) => kind(d),
    };
    format!("c13:layout:{}:{a}->{b}", layout.name())
}

/// image of a null input row: DOC (cast_values_to_list): "`NULL`s in the original array become `[NULL]`"
pub fn null_image(src: &DataType, dst: &DataType) -> V {
    use DataType::*;
    // a Null-typed source is answered by new_null_array; a null dictionary KEY survives `take` as a null row
    if matches!(src, Null | Dictionary(_, _)) {
        return V::Null;
    }
    let s = through_encoding(src);
    match dst {
        Dictionary(_, v) => null_image(src, v),
        RunEndEncoded(_, v) => null_image(src, v.data_type()),
        List(f) | LargeList(f) | ListView(f) | LargeListView(f) if !is_nested(s) => V::L(vec![null_image(src, f.data_type())]),
        FixedSizeList(f, 1) if !is_nested(s) => V::L(vec![null_image(src, f.data_type())]),
        _ => V::Null,
    }
}

pub fn letter_cap(ctx_quick: bool) -> usize {
    if ctx_quick { 12 } else { 16 }
}

impl Pair {
    pub fn new(gi: usize, gj: usize, g: &[DataType], cap: usize) -> Pair {
        let (src, dst) = (g[gi].clone(), g[gj].clone());
        let letters = letters(&src, &dst, cap);
        let s = letters
            .iter()
            .map(|x| {
                let a = realise(&src, std::slice::from_ref(x), Layout::Compact);
                match do_cast(a.as_ref(), &dst, false) {
                    CastOut::Ok(r) => {
                        let v = catch(|| extract(r.as_ref()));
                        match v {
                            Ok(v) if v.len() == 1 => Row1::Ok(v[0].clone(), r),
                            Ok(_) => Row1::Ok(V::Null, r), // wrong length is reported by wf on the column path
                            Err(p) => Row1::Panic(p.fingerprint()),
                        }
                    }
                    CastOut::Err(e) => Row1::Err(e),
                    CastOut::Panic(p) => Row1::Panic(p.fingerprint()),
                }
            })
            .collect();
        Pair { gi, gj, nested_dst: nested_target(&dst), null_img: null_image(&src, &dst), null_img_value: null_image(through_encoding(&src), &dst), src, dst, letters, s }
    }

    pub fn column(&self, codes: &[i32]) -> Vec<V> {
        codes.iter().map(|c| if *c < 0 { V::Null } else { self.letters[*c as usize].clone() }).collect()
    }

    /// O2 + wf on one (column, layout): both safe values
    pub fn eval_column(&self, codes: &[i32], layout: Layout) -> Vec<Finding> {
        let mut out = vec![];
        let col = self.column(codes);
        let arr = match catch(|| realise(&self.src, &col, layout)) {
            Ok(a) => a,
            Err(p) => {
                out.push(Finding { what: "", fp: format!("harness:realise:{}", p.fingerprint()), msg: format!("harness failed to build the input: {p:?}") });
                return out;
            }
        };
        // expected per row from the 1-row strict casts
        let mut any_err = false;
        let mut any_panic = false;
        let exp: Vec<Option<V>> = codes
            .iter()
            .map(|c| {
                if *c < 0 {
                    Some(if layout.null_is_dictionary_value() { self.null_img_value.clone() } else { self.null_img.clone() })
                } else {
                    match &self.s[*c as usize] {
                        Row1::Ok(w, _) => Some(w.clone()),
                        Row1::Err(_) => {
                            any_err = true;
                            None
                        }
                        Row1::Panic(_) => {
                            any_panic = true;
                            None
                        }
                    }
                }
            })
            .collect();
        if any_panic {
            return out; // the panic is reported at letter level
        }
        let desc = || format!("{} -> {} column {} layout {}", self.src, self.dst, show_col(&col), layout.name());
        // ---- safe
        match do_cast(arr.as_ref(), &self.dst, true) {
            CastOut::Panic(p) => out.push(Finding { what: "", fp: fp("panic", &p.fingerprint(), self), msg: format!("safe cast panicked: {p:?}; {}", desc()) }),
            CastOut::Err(e) if e.msg.contains("non-nullable") => {
                // a failing element inside a non-nullable child (map keys) cannot be replaced by null: documented
                // constructor contract, not a cast defect
            }
            CastOut::Err(e) => out.push(Finding { what: "safe-returned-err", fp: fp("o2", "safe-returned-err", self),
                msg: format!("safe=true cast returned Err({}: {}) instead of nulls; {}", e.variant, e.msg, desc()),
            }),
            CastOut::Ok(r) => {
                if let Some((f, m)) = wf(&r, &self.dst, col.len()) {
                    out.push(Finding { what: "", fp: f, msg: format!("{m}; safe cast {}", desc()) });
                } else {
                    match catch(|| extract(r.as_ref())) {
                        Err(p) => out.push(Finding { what: "", fp: fp("panic", &p.fingerprint(), self), msg: format!("reading the safe result panicked: {p:?}; {}", desc()) }),
                        Ok(got) => {
                            for (i, g) in got.iter().enumerate() {
                                match &exp[i] {
                                    Some(w) => {
                                        if g != w {
                                            let what = if col[i].is_null() {
                                                "null-input-became-value"
                                            } else if g.is_null() {
                                                "safe-null-but-row-castable"
                                            } else {
                                                "safe-value-differs-from-row-cast"
                                            };
                                            out.push(Finding {
                                                what, fp: fp("o2", what, self),
                                                msg: format!("row {i}: safe column cast gave {} but the 1-row strict cast of {} gives {}; {}", g.show(), col[i].show(), w.show(), desc()),
                                            });
                                            break;
                                        }
                                    }
                                    None => {
                                        if !self.nested_dst && !g.is_null() {
                                            out.push(Finding { what: "safe-value-where-strict-errs", fp: fp("o2", "safe-value-where-strict-errs", self),
                                                msg: format!("row {i}: safe cast gave {} but the strict 1-row cast of {} errors; {}", g.show(), col[i].show(), desc()),
                                            });
                                            break;
                                        }
                                    }
                                }
                            }
                        }
                    }
                }
            }
        }
        // ---- strict
        match do_cast(arr.as_ref(), &self.dst, false) {
            CastOut::Panic(p) => out.push(Finding { what: "", fp: fp("panic", &p.fingerprint(), self), msg: format!("strict cast panicked: {p:?}; {}", desc()) }),
            CastOut::Err(e) => {
                if !any_err {
                    out.push(Finding { what: "strict-err-but-all-rows-castable", fp: fp("o2", "strict-err-but-all-rows-castable", self),
                        msg: format!("strict column cast returned Err({}: {}) although every row casts on its own; {}", e.variant, e.msg, desc()),
                    });
                }
            }
            CastOut::Ok(r) => {
                if any_err {
                    out.push(Finding { what: "strict-ok-but-row-errs", fp: fp("o2", "strict-ok-but-row-errs", self), msg: format!("strict column cast succeeded although a row fails on its own; {}", desc()) });
                } else if let Some((f, m)) = wf(&r, &self.dst, col.len()) {
                    out.push(Finding { what: "", fp: f, msg: format!("{m}; strict cast {}", desc()) });
                } else {
                    match catch(|| extract(r.as_ref())) {
                        Err(p) => out.push(Finding { what: "", fp: fp("panic", &p.fingerprint(), self), msg: format!("reading the strict result panicked: {p:?}; {}", desc()) }),
                        Ok(got) => {
                            for (i, g) in got.iter().enumerate() {
                                if Some(g) != exp[i].as_ref() {
                                    out.push(Finding { what: "strict-value-differs-from-row-cast", fp: fp("o2", "strict-value-differs-from-row-cast", self),
                                        msg: format!("row {i}: strict column cast gave {} but the 1-row cast of {} gives {}; {}", g.show(), col[i].show(), exp[i].as_ref().unwrap().show(), desc()),
                                    });
                                    break;
                                }
                            }
                        }
                    }
                }
            }
        }
        out
    }

    /// findings that exist only in a non-compact layout get the layout-class fingerprint
    pub fn classify(&self, fs: Vec<Finding>, compact_clean: bool, layout: Layout) -> Vec<Finding> {
        fs.into_iter()
            .map(|mut f| {
                if compact_clean && layout != Layout::Compact && !f.what.is_empty() {
                    f.fp = layout_fingerprint(self, f.what, &f.msg, layout);
                }
                f
            })
            .collect()
    }

    /// O1 on the empty and the all-null column in every layout and both modes
    pub fn eval_o1(&self) -> Vec<Finding> {
        let mut out = vec![];
        for (name, col) in [("empty", vec![]), ("all-null", vec![V::Null, V::Null])] {
            for layout in [Layout::Compact] {
                let arr = realise(&self.src, &col, layout);
                for safe in [true, false] {
                    match do_cast(arr.as_ref(), &self.dst, safe) {
                        CastOut::Panic(p) => out.push(Finding { what: "", fp: fp("panic", &p.fingerprint(), self), msg: format!("cast of the {name} array panicked: {p:?}") }),
                        CastOut::Err(e) => {
                            let class = if is_unsupported(&e) { "unsupported" } else { "type-level-error" };
                            out.push(Finding {
                                what: "",
                                fp: fp("o1", class, self),
                                msg: format!(
                                    "can_cast_types({}, {}) is true but casting the {name} array (layout {}, safe={safe}) fails with {}: {}",
                                    self.src,
                                    self.dst,
                                    layout.name(),
                                    e.variant,
                                    e.msg
                                ),
                            });
                        }
                        CastOut::Ok(r) => {
                            if let Some((f, m)) = wf(&r, &self.dst, col.len()) {
                                out.push(Finding { what: "", fp: f, msg: format!("{m}; cast of the {name} array {} -> {}", self.src, self.dst) });
                            } else if let Ok(got) = catch(|| extract(r.as_ref())) {
                                if got.iter().any(|g| *g != self.null_img) {
                                    out.push(Finding { what: "null-input-became-value", fp: fp("o2", "null-input-became-value", self), msg: format!("all-null input produced {}; {} -> {}", show_col(&got), self.src, self.dst) });
                                }
                            }
                        }
                    }
                    if !out.is_empty() {
                        return out;
                    }
                }
            }
        }
        out
    }

    /// O1 (message class on value errors) + O3 per letter
    pub fn eval_letter(&self, k: usize) -> Vec<Finding> {
        let mut out = vec![];
        let x = &self.letters[k];
        let (e, family) = expect(&self.src, &self.dst, x);
        let desc = || format!("{} -> {} value {}", self.src, self.dst, x.show());
        match &self.s[k] {
            Row1::Panic(p) => out.push(Finding { what: "", fp: fp("panic", p, self), msg: format!("strict cast panicked; {}", desc()) }),
            Row1::Err(er) => {
                if is_unsupported(er) {
                    out.push(Finding { what: "", fp: fp("o1", "unsupported", self), msg: format!("can_cast_types is true but the cast fails as unsupported: {}: {}; {}", er.variant, er.msg, desc()) });
                } else {
                    match e {
                        Exp::Exact(w) => out.push(Finding {
                            what: "",
                            fp: fp_o3(family, "err-on-representable", self),
                            msg: format!("documented result is {} but the strict cast errors with {}: {}; {}", w.show(), er.variant, er.msg, desc()),
                        }),
                        Exp::OneOf(ws) => out.push(Finding {
                            what: "",
                            fp: fp_o3(family, "err-on-representable", self),
                            msg: format!("documented result is one of {} but the strict cast errors with {}: {}; {}", show_col(&ws), er.variant, er.msg, desc()),
                        }),
                        _ => {}
                    }
                }
            }
            Row1::Ok(got, _) => {
                let bad = match &e {
                    Exp::Exact(w) => !same_value(got, w),
                    Exp::OneOf(ws) => !ws.iter().any(|w| same_value(got, w)),
                    Exp::Fail | Exp::StrictFail => true,
                    Exp::Free => false,
                };
                if bad {
                    let (what, want) = match &e {
                        Exp::Exact(w) => ("wrong-value", w.show()),
                        Exp::OneOf(ws) => ("wrong-value", format!("one of {}", show_col(ws))),
                        _ => ("ok-on-unrepresentable", "an error (value not representable)".to_string()),
                    };
                    out.push(Finding {
                        what: "",
                        fp: fp_o3(family, what, self),
                        msg: format!("strict cast gave {} but the documentation pins {want}; {}", got.show(), desc()),
                    });
                }
            }
        }
        out
    }

    /// O4: forward result cast back must reproduce the letter
    pub fn eval_inverse(&self, k: usize) -> Vec<Finding> {
        let mut out = vec![];
        let x = &self.letters[k];
        let Row1::Ok(w, arr) = &self.s[k] else { return out };
        if !o4_in_scope(&self.src, &self.dst, x) {
            return out;
        }
        let desc = || format!("{} -> {} -> {} value {} (intermediate {})", self.src, self.dst, self.src, x.show(), w.show());
        match do_cast(arr.as_ref(), &self.src, false) {
            CastOut::Panic(p) => out.push(Finding { what: "", fp: fp("panic", &p.fingerprint(), self), msg: format!("inverse cast panicked: {p:?}; {}", desc()) }),
            CastOut::Err(e) => out.push(Finding { what: "", fp: fp("o4", "inverse-errs", self), msg: format!("inverse cast fails with {}: {}; {}", e.variant, e.msg, desc()) }),
            CastOut::Ok(r) => {
                if let Some((f, m)) = wf(&r, &self.src, 1) {
                    out.push(Finding { what: "", fp: f, msg: format!("{m}; inverse cast {}", desc()) });
                } else if let Ok(got) = catch(|| extract(r.as_ref())) {
                    if !same_value(&got[0], x) {
                        out.push(Finding { what: "", fp: fp("o4", "round-trip-differs", self), msg: format!("round trip returned {}; {}", got[0].show(), desc()) });
                    }
                }
            }
        }
        out
    }
}

/// O4 scope: the text round trip is promised for calendar years 0001-9999 in the displayed zone (property
/// statement); calendar arithmetic between temporal types is only exercised inside chrono's date range.
pub fn o4_in_scope(src: &DataType, dst: &DataType, x: &V) -> bool {
    use DataType::*;
    let V::I(v) = x else { return true };
    let to_text = matches!(through_encoding(dst), Utf8 | LargeUtf8 | Utf8View);
    let (d1, d9) = (crate::alpha::DAY_0001 as i128, crate::alpha::DAY_9999 as i128);
    let secs = match src {
        Date32 => Some((*v * 86_400, 1)),
        Date64 => Some((*v, 1000)),
        Timestamp(u, tz) => {
            let per = unit_per_sec(u) as i128;
            let off = tz.as_ref().map(|t| tz_offset_secs(t) as i128).unwrap_or(0);
            Some((*v + off * per, per))
        }
        _ => None,
    };
    let Some((local, per)) = secs else { return true };
    if to_text {
        local >= d1 * 86_400 * per && local < (d9 + 1) * 86_400 * per
    } else if dst.is_temporal() {
        (local / per).abs() <= 8_000_000_000_000
    } else {
        true
    }
}

/// equality of logical values; any NaN equals any NaN of the same width (payloads are not pinned)
pub fn same_value(a: &V, b: &V) -> bool {
    match (a, b) {
        (V::F16(x), V::F16(y)) => x == y || (half::f16::from_bits(*x).is_nan() && half::f16::from_bits(*y).is_nan()),
        (V::F32(x), V::F32(y)) => x == y || (f32::from_bits(*x).is_nan() && f32::from_bits(*y).is_nan()),
        (V::F64(x), V::F64(y)) => x == y || (f64::from_bits(*x).is_nan() && f64::from_bits(*y).is_nan()),
        (V::L(x), V::L(y)) | (V::St(x), V::St(y)) => x.len() == y.len() && x.iter().zip(y).all(|(p, q)| same_value(p, q)),
        (V::M(x), V::M(y)) => x.len() == y.len() && x.iter().zip(y).all(|((k1, v1), (k2, v2))| same_value(k1, k2) && same_value(v1, v2)),
        _ => a == b,
    }
}

/// curated lossless relation for O4: every value whose forward strict cast succeeds must come back unchanged
pub fn lossless(a: &DataType, b: &DataType) -> bool {
    use DataType::*;
    if a == b || !can_cast_types(a, b) || !can_cast_types(b, a) {
        return false;
    }
    let is_str = |d: &DataType| matches!(d, Utf8 | LargeUtf8 | Utf8View);
    let is_bin = |d: &DataType| matches!(d, Binary | LargeBinary | BinaryView);
    let listish = |d: &DataType| match d {
        List(f) | LargeList(f) | ListView(f) | LargeListView(f) => Some(f.data_type().clone()),
        _ => None,
    };
    let unit = |d: &DataType| match d {
        Time32(u) | Time64(u) | Timestamp(u, _) | Duration(u) => Some(unit_per_sec(u)),
        _ => None,
    };
    match (a, b) {
        _ if a.is_integer() && b.is_integer() => {
            let (ra, rb) = (int_range(a).unwrap(), int_range(b).unwrap());
            ra.0 >= rb.0 && ra.1 <= rb.1
        }
        (Int8 | UInt8, Float16) => true,
        (Int8 | UInt8 | Int16 | UInt16, Float32 | Float64) => true,
        (Int32 | UInt32, Float64) => true,
        (Float16, Float32 | Float64) | (Float32, Float64) => true,
        // X -> text -> X
        (_, _) if is_str(b) && (a.is_integer() || a.is_floating() || matches!(a, Boolean | Date32 | Date64 | Time32(_) | Time64(_) | Timestamp(_, _) | Interval(_))) => true,
        (Decimal32(_, s) | Decimal64(_, s) | Decimal128(_, s) | Decimal256(_, s), _) if is_str(b) => *s >= 0,
        // re-encodings
        (_, Dictionary(_, v)) => **v == *a,
        (_, RunEndEncoded(_, v)) => v.data_type() == a,
        (_, _) if is_str(a) && (is_str(b) || is_bin(b)) => true,
        (_, _) if is_bin(a) && is_bin(b) => true,
        (FixedSizeBinary(_), _) if is_bin(b) => true,
        (_, _) if listish(a).is_some() && listish(b).is_some() => listish(a) == listish(b),
        (FixedSizeList(f, _), _) if listish(b).is_some() => Some(f.data_type().clone()) == listish(b),
        // temporal widenings
        (Date32, Date64) | (Date32, Timestamp(_, None)) => true,
        (Time32(_) | Time64(_), Time32(_) | Time64(_)) => unit(a) < unit(b),
        (Timestamp(_, z1), Timestamp(_, z2)) => z1 == z2 && unit(a) < unit(b),
        (Duration(_), Duration(_)) => unit(a) < unit(b),
        // temporal <-> storage
        (Int32, Date32 | Time32(_)) | (Date32 | Time32(_), Int32) => true,
        (Int64, Date64 | Time64(_) | Timestamp(_, _) | Duration(_)) | (Date64 | Time64(_) | Timestamp(_, _) | Duration(_), Int64) => true,
        // decimals
        (_, _) if dec_parts(a).is_some() && dec_parts(b).is_some() => {
            let ((p1, s1, _), (p2, s2, _)) = (dec_parts(a).unwrap(), dec_parts(b).unwrap());
            s2 >= s1 && (p2 as i32 - s2 as i32) >= (p1 as i32 - s1 as i32)
        }
        (_, _) if a.is_integer() && dec_parts(b).is_some() => dec_parts(b).unwrap().1 >= 0,
        (Struct(f1), Struct(f2)) => {
            f1.len() == f2.len()
                && f1.iter().all(|x| f2.iter().any(|y| y.name() == x.name() && (x.data_type() == y.data_type() || lossless(x.data_type(), y.data_type()))))
        }
        _ => false,
    }
}

// ---------------------------------------------------------------------------------------------
// enumeration

pub fn case_json(p: &Pair, what: &str, codes: &[i32], layout: Layout) -> Value {
    json!({
        "sub": "matrix", "what": what, "from": p.src.to_string(), "to": p.dst.to_string(),
        "from_idx": p.gi, "to_idx": p.gj, "column_codes": codes, "column": show_col(&p.column(codes)), "layout": layout.name(),
    })
}

/// All columns of length 1..=nmax. Lengths <= `full_upto` range over every letter (+ null); longer ones over
/// the core letters: null + up to 4 castable letters (first, two middle, last) + up to 3 failing letters.
fn columns(p: &Pair, nmax: usize, full_upto: usize) -> Vec<Vec<i32>> {
    let l = p.letters.len() as i32;
    let all: Vec<i32> = (-1..l).collect();
    let ok: Vec<i32> = (0..l).filter(|k| matches!(p.s[*k as usize], Row1::Ok(..))).collect();
    let er: Vec<i32> = (0..l).filter(|k| matches!(p.s[*k as usize], Row1::Err(..))).collect();
    let mut core = vec![-1];
    if !ok.is_empty() {
        core.extend([ok[0], ok[ok.len() / 3], ok[2 * ok.len() / 3], ok[ok.len() - 1]]);
    }
    if !er.is_empty() {
        core.extend([er[0], er[er.len() / 2], er[er.len() - 1]]);
    }
    core.sort();
    core.dedup();
    let mut out = vec![];
    for n in 1..=nmax {
        let alpha = if n <= full_upto || all.len() <= core.len() { &all } else { &core };
        let total = (alpha.len() as u64).pow(n as u32);
        for mut t in 0..total {
            let mut c = Vec::with_capacity(n);
            for _ in 0..n {
                c.push(alpha[(t % alpha.len() as u64) as usize]);
                t /= alpha.len() as u64;
            }
            out.push(c);
        }
    }
    out
}

pub fn run_pair(gi: usize, gj: usize, g: &[DataType], nmax: usize, full_upto: usize, cap: usize, order_base: u64, st: &mut Stats) {
    let (src, dst) = (&g[gi], &g[gj]);
    let sub = "matrix";
    if !can_cast_types(src, dst) {
        // outside the property's quantifier; only the panic monitor applies
        let arr = realise(src, &[], Layout::Compact);
        if let CastOut::Panic(p) = do_cast(arr.as_ref(), dst, true) {
            st.violate(order_base, format!("c13:panic:{}:{}->{}", p.fingerprint(), kind(src), kind(dst)), format!("cast of an empty array panicked for a pair can_cast_types rejects: {src} -> {dst}: {p:?}"), || {
                json!({"sub":"matrix","what":"reject","from_idx":gi,"to_idx":gj,"from":src.to_string(),"to":dst.to_string()})
            });
        }
        st.add(sub, 1, 0);
        st.outcome("pair:can_cast=false");
        return;
    }
    if documented_always_overflow(src, dst) {
        st.add(sub, 1, 0);
        st.outcome("pair:documented-decimal-upscale-always-overflows");
        return;
    }
    let p = Pair::new(gi, gj, g, cap);
    let mut n_eval = 0u64;
    let emit = |st: &mut Stats, f: Finding, what: &str, codes: &[i32], layout: Layout| {
        if std::env::var_os("VK_CAST_DUMP").is_some() {
            eprintln!("DUMP\t{}\t{}\t{}\t{}", f.fp, p.src, p.dst, f.msg);
        }
        let sub_order = codes.iter().fold(codes.len() as u64, |a, c| (a * 31 + (*c + 1) as u64) & 0xFFFFF);
        st.violate(order_base + sub_order, f.fp, f.msg, || case_json(&p, what, codes, layout));
    };
    // O1
    let o1 = p.eval_o1();
    n_eval += 12;
    let o1_failed = !o1.is_empty();
    for f in o1 {
        emit(st, f, "o1", &[], Layout::Compact);
    }
    if o1_failed {
        st.add(sub, n_eval, 1);
        st.outcome("pair:type-level-failure");
        return;
    }
    // letters: O3 (+ O1 message class)
    let mut fams = std::collections::BTreeSet::new();
    let mut unsupported_letter = false;
    for k in 0..p.letters.len() {
        let fs = p.eval_letter(k);
        n_eval += 1;
        let (e, family) = expect(&p.src, &p.dst, &p.letters[k]);
        fams.insert(family);
        st.outcome(&format!(
            "o3:{}:{}",
            match e {
                Exp::Exact(_) => "exact",
                Exp::OneOf(_) => "one-of",
                Exp::Fail | Exp::StrictFail => "fail",
                Exp::Free => "free",
            },
            match &p.s[k] {
                Row1::Ok(w, _) if w.is_null() => "null",
                Row1::Ok(..) => "value",
                Row1::Err(_) => "err",
                Row1::Panic(_) => "panic",
            }
        ));
        if let Row1::Err(er) = &p.s[k] {
            st.outcome(&format!("err-variant:{}", er.variant));
            unsupported_letter |= is_unsupported(er);
        }
        for f in fs {
            emit(st, f, "letter", &[k as i32], Layout::Compact);
        }
    }
    for f in fams {
        st.count(&format!("family:{f}"), 1);
    }
    // O4
    if lossless(&p.src, &p.dst) {
        for k in 0..p.letters.len() {
            let fs = p.eval_inverse(k);
            n_eval += 1;
            for f in fs {
                emit(st, f, "inverse", &[k as i32], Layout::Compact);
            }
        }
        st.count("o4:lossless-pairs", 1);
    }
    // O2 columns (the empty column first); non-compact layouts are compared with the compact outcome of the
    // same logical column: a finding that only exists in a non-compact layout is a dependence on physically
    // present but logically absent values and gets a layout-class fingerprint
    let mut nontrivial = 0u64;
    if !unsupported_letter {
        let mut cols = vec![vec![]];
        cols.extend(columns(&p, nmax, full_upto));
        for codes in &cols {
            let fc = p.eval_column(codes, Layout::Compact);
            n_eval += 2;
            let compact_clean = fc.is_empty();
            for f in fc {
                emit(st, f, "column", codes, Layout::Compact);
            }
            let dict_src = matches!(p.src, DataType::Dictionary(_, _));
            for layout in [Layout::Sliced, Layout::Garbage, Layout::Truncated].into_iter().chain(DICT_LAYOUTS.into_iter().filter(|_| dict_src)) {
                let fs = p.eval_column(codes, layout);
                n_eval += 2;
                for f in p.classify(fs, compact_clean, layout) {
                    emit(st, f, "column", codes, layout);
                }
            }
            if codes.iter().any(|c| *c >= 0) {
                nontrivial += 1;
            }
        }
        st.count("o2:columns", cols.len() as u64);
    }
    st.add(sub, n_eval, nontrivial);
    st.outcome("pair:explored");
    if gi * 7 + gj == 100 || (gi == 4 && gj == 20) {
        st.sample(sub, || json!({"from": p.src.to_string(), "to": p.dst.to_string(), "letters": show_col(&p.letters), "columns_max_len": nmax}));
    }
}

pub fn run(ctx: &Ctx, st: &mut Stats) {
    let g = grid();
    let n = g.len() as u64;
    let nmax = ctx.pick(3, 5);
    let full_upto = ctx.pick(2, 3);
    let cap = letter_cap(ctx.quick());
    st.extra.insert("matrix_bounds".into(), json!({"max_column_length": nmax, "all_letters_up_to_length": full_upto, "letter_cap": cap, "layouts": ["compact", "sliced", "garbage-under-nulls", "truncated"], "dictionary_source_layouts": ["dict-unreferenced-values", "dict-null-value", "dict-unreferenced-values+null-value"], "safe": [true, false]}));
    st.extra.insert("grid_types".into(), json!(g.iter().map(|d| d.to_string()).collect::<Vec<_>>()));
    st.extra.insert("grid_pairs".into(), json!(n * n));
    let r = par_for(ctx, "matrix", n * n, 4, |idx, st| {
        let (gi, gj) = ((idx / n) as usize, (idx % n) as usize);
        run_pair(gi, gj, &g, nmax, full_upto, cap, idx << 24, st);
    });
    st.merge(r);
}

pub fn replay(case: &Value) {
    let g = grid();
    let (gi, gj) = (case["from_idx"].as_u64().unwrap() as usize, case["to_idx"].as_u64().unwrap() as usize);
    println!("pair: {} -> {}   can_cast_types = {}", g[gi], g[gj], can_cast_types(&g[gi], &g[gj]));
    // letters are capped per tier; replay with the larger cap reproduces both
    for cap in [letter_cap(true), letter_cap(false)] {
        let p = Pair::new(gi, gj, &g, cap);
        let codes: Vec<i32> = case["column_codes"].as_array().map(|a| a.iter().map(|x| x.as_i64().unwrap() as i32).collect()).unwrap_or_default();
        if codes.iter().any(|c| *c >= p.letters.len() as i32) {
            continue;
        }
        if p.column(&codes).iter().map(|v| v.show()).collect::<Vec<_>>().join(", ") != case["column"].as_str().unwrap_or("").trim_matches(|c| c == '[' || c == ']') {
            continue;
        }
        let layout = Layout::parse(case["layout"].as_str().unwrap_or("compact"));
        let fs = match case["what"].as_str().unwrap_or("") {
            "o1" => p.eval_o1(),
            "letter" => p.eval_letter(codes[0] as usize),
            "inverse" => p.eval_inverse(codes[0] as usize),
            _ => {
                let compact_clean = p.eval_column(&codes, Layout::Compact).is_empty();
                p.classify(p.eval_column(&codes, layout), compact_clean, layout)
            }
        };
        println!("column: {}  layout: {}", show_col(&p.column(&codes)), layout.name());
        for (k, x) in p.letters.iter().enumerate() {
            if codes.contains(&(k as i32)) {
                let r = match &p.s[k] {
                    Row1::Ok(w, _) => format!("Ok({})", w.show()),
                    Row1::Err(e) => format!("Err({}: {})", e.variant, e.msg),
                    Row1::Panic(p) => format!("PANIC {p}"),
                };
                println!("  1-row strict cast of {} = {}   documented expectation: {:?}", x.show(), r, expect(&p.src, &p.dst, x));
            }
        }
        if fs.is_empty() {
            println!("replay outcome: no finding (all oracles hold)");
        }
        for f in fs {
            println!("replay outcome: FINDING {}\n  {}", f.fp, f.msg);
        }
        return;
    }
    println!("replay: could not rebuild the case from its descriptor");
}
