//! O3: exact reference for the unambiguous cast families.
//!
//! `expect(src, dst, v)` answers, for ONE non-null logical value, what the documentation pins down:
//! `Exact(w)`   – the result must be exactly `w`;
//! `OneOf(ws)`  – documentation says precision is lost / value is rounded but not in which direction;
//! `Fail`       – the value is not representable in `dst`: strict mode errors, safe mode yields null;
//! `StrictFail` – (nested targets) some inner element is not representable: strict errors, the safe
//!                result of the row is left to O2;
//! `Free`       – documentation silent: only the relational oracles (O2, O4) apply.
//! The reference never demands more than the cited sentence says (see the `// DOC:` comments).
use crate::grid::*;
use arrow_schema::{DataType, IntervalUnit, TimeUnit};
use half::f16;
use num_bigint::{BigInt, Sign};

#[derive(Clone, Debug, PartialEq)]
pub enum Exp {
    Exact(V),
    OneOf(Vec<V>),
    Fail,
    StrictFail,
    Free,
}

/// exact rational num / 10^den
#[derive(Clone, Debug)]
pub struct Rat {
    pub num: BigInt,
    pub den: u32,
}
impl Rat {
    pub fn int(i: impl Into<BigInt>) -> Rat {
        Rat { num: i.into(), den: 0 }
    }
    /// multiply by 10^k (k may be negative)
    pub fn shift10(&self, k: i32) -> Rat {
        if k >= 0 {
            let k = k as u32;
            if self.den >= k { Rat { num: self.num.clone(), den: self.den - k } } else { Rat { num: &self.num * pow10(k - self.den), den: 0 } }
        } else {
            Rat { num: self.num.clone(), den: self.den + (-k) as u32 }
        }
    }
    pub fn floor(&self) -> BigInt {
        let d = pow10(self.den);
        let q = &self.num / &d;
        let r = &self.num % &d;
        if r.sign() == Sign::Minus { q - 1 } else { q }
    }
    pub fn ceil(&self) -> BigInt {
        let d = pow10(self.den);
        let q = &self.num / &d;
        let r = &self.num % &d;
        if r.sign() == Sign::Plus { q + 1 } else { q }
    }
    pub fn trunc(&self) -> BigInt {
        &self.num / pow10(self.den)
    }
    pub fn is_integral(&self) -> bool {
        (&self.num % pow10(self.den)).sign() == Sign::NoSign
    }
    /// candidates of round-to-nearest; both neighbours on an exact tie
    pub fn nearest(&self) -> Vec<BigInt> {
        if self.is_integral() {
            return vec![self.trunc()];
        }
        let (lo, hi) = (self.floor(), self.ceil());
        // compare 2*num with (lo+hi)*10^den
        let twice: BigInt = &self.num * 2;
        let mid = (&lo + &hi) * pow10(self.den);
        match twice.cmp(&mid) {
            std::cmp::Ordering::Less => vec![lo],
            std::cmp::Ordering::Greater => vec![hi],
            std::cmp::Ordering::Equal => vec![lo, hi],
        }
    }
    /// round half away from zero
    pub fn round_half_away(&self) -> BigInt {
        let n = self.nearest();
        if n.len() == 1 {
            n[0].clone()
        } else if self.num.sign() == Sign::Minus {
            n[0].clone()
        } else {
            n[1].clone()
        }
    }
}

pub fn f64_to_rat(x: f64) -> Option<Rat> {
    if !x.is_finite() {
        return None;
    }
    if x == 0.0 {
        return Some(Rat::int(0));
    }
    let bits = x.to_bits();
    let neg = bits >> 63 == 1;
    let e = ((bits >> 52) & 0x7FF) as i32;
    let frac = bits & ((1u64 << 52) - 1);
    let (m, e2) = if e == 0 { (frac, -1074) } else { (frac | (1u64 << 52), e - 1075) };
    let mut num = BigInt::from(m);
    if neg {
        num = -num;
    }
    Some(if e2 >= 0 { Rat { num: num << (e2 as usize), den: 0 } } else { Rat { num: num * BigInt::from(5).pow((-e2) as u32), den: (-e2) as u32 } })
}

#[derive(Clone, Copy, PartialEq, Debug)]
enum FloatKind {
    F16,
    F32,
    F64,
}
fn float_kind(dt: &DataType) -> Option<FloatKind> {
    match dt {
        DataType::Float16 => Some(FloatKind::F16),
        DataType::Float32 => Some(FloatKind::F32),
        DataType::Float64 => Some(FloatKind::F64),
        _ => None,
    }
}
pub fn float_of(v: &V) -> Option<f64> {
    match v {
        V::F16(b) => Some(f16::from_bits(*b).to_f64()),
        V::F32(b) => Some(f32::from_bits(*b) as f64),
        V::F64(b) => Some(f64::from_bits(*b)),
        _ => None,
    }
}
fn mk_float(k: FloatKind, x: f64) -> V {
    match k {
        FloatKind::F16 => V::F16(f16::from_f64(x).to_bits()),
        FloatKind::F32 => V::F32((x as f32).to_bits()),
        FloatKind::F64 => V::F64(x.to_bits()),
    }
}
/// does `x` (an f64 holding an exact value) survive narrowing to kind `k` exactly?
fn float_exact_in(k: FloatKind, x: f64) -> bool {
    match k {
        FloatKind::F16 => f16::from_f64(x).to_f64() == x,
        FloatKind::F32 => (x as f32) as f64 == x,
        FloatKind::F64 => true,
    }
}

/// integer storage type behind an integer-backed logical type (DOC: "Temporal to/from backing
/// Primitive: zero-copy with data type change")
fn is_int_like(dt: &DataType) -> bool {
    int_range(dt).is_some()
}
fn is_plain_int(dt: &DataType) -> bool {
    dt.is_integer()
}

/// exact rational value of a numeric (int / decimal / finite float) logical value
fn rat_of(dt: &DataType, v: &V) -> Option<Rat> {
    match v {
        V::I(i) => Some(Rat::int(*i)),
        V::D(d) => {
            let (_, s, _) = dec_parts(dt)?;
            Some(Rat::int(i256_to_big(*d)).shift10(-(s as i32)))
        }
        V::F16(_) | V::F32(_) | V::F64(_) => f64_to_rat(float_of(v)?),
        V::Bool(b) => Some(Rat::int(*b as i32)),
        _ => None,
    }
}

fn to_int(dst: &DataType, r: &Rat) -> Exp {
    let (lo, hi) = int_range(dst).unwrap();
    let (lo, hi) = (BigInt::from(lo), BigInt::from(hi));
    if r.is_integral() {
        let t = r.trunc();
        if t >= lo && t <= hi { Exp::Exact(V::I(i128::try_from(&t).unwrap())) } else { Exp::Fail }
    } else {
        // not integral: rounding direction is undocumented; out of range under every convention => Fail
        if r.floor() > hi || r.ceil() < lo { Exp::Fail } else { Exp::Free }
    }
}

fn to_decimal(dst: &DataType, r: &Rat, mode: DecRound) -> Exp {
    let (p, s, _) = dec_parts(dst).unwrap();
    let u = r.shift10(s as i32);
    let max: BigInt = pow10(p as u32) - 1;
    let fits = |b: &BigInt| b.magnitude() <= max.magnitude();
    let cands: Vec<BigInt> = if u.is_integral() {
        vec![u.trunc()]
    } else {
        match mode {
            DecRound::Nearest => u.nearest(),
            DecRound::HalfAway => vec![u.round_half_away()],
            DecRound::Neighbours => vec![u.floor(), u.ceil()],
            DecRound::Undocumented => return if fits(&u.floor()) || fits(&u.ceil()) { Exp::Free } else { Exp::Fail },
        }
    };
    let ok: Vec<&BigInt> = cands.iter().filter(|b| fits(b)).collect();
    if ok.is_empty() {
        Exp::Fail
    } else if ok.len() < cands.len() {
        Exp::Free
    } else if ok.len() == 1 {
        Exp::Exact(V::D(big_to_i256(ok[0]).unwrap()))
    } else {
        Exp::OneOf(ok.iter().map(|b| V::D(big_to_i256(b).unwrap())).collect())
    }
}

#[derive(Clone, Copy)]
enum DecRound {
    /// DOC (rescale_decimal): "downscales (dividing with rounding)" - nearest, tie direction unstated
    Nearest,
    /// DOC (parse_string_to_decimal_native): "round it half away from zero"
    HalfAway,
    /// DOC (cast_with_options): float -> decimal "rounds to the `scale` decimals"; computed in f64, so
    /// only the two neighbours are demanded
    Neighbours,
    Undocumented,
}

fn to_float(k: FloatKind, r: &Rat) -> Exp {
    // exactly representable iff an f64 close to it converts back to the same rational
    // use a decimal string round trip for the candidate
    let s = format!("{}e-{}", r.num, r.den);
    let Ok(x) = s.parse::<f64>() else { return Exp::Free };
    if !x.is_finite() {
        return Exp::Free;
    }
    let back = f64_to_rat(x).unwrap();
    // compare back == r : back.num * 10^r.den == r.num * 10^back.den
    let same = &back.num * pow10(r.den) == &r.num * pow10(back.den);
    if same && float_exact_in(k, x) { Exp::Exact(mk_float(k, x)) } else { Exp::Free }
}

fn unit_ratio(from: &TimeUnit, to: &TimeUnit) -> (i64, i64) {
    let (f, t) = (unit_per_sec(from), unit_per_sec(to));
    if t >= f { (t / f, 1) } else { (1, f / t) }
}

/// integer rescale by mul/div. DOC: "precision lost when going to higher interval" (cast_with_options
/// for Date32/Date64, Time32/Time64, Timestamp); finer direction must be exact or overflow.
fn rescale_int(v: i128, mul: i64, div: i64, range: (i128, i128)) -> Exp {
    let x = v * mul as i128;
    let d = div as i128;
    let in_range = |y: i128| y >= range.0 && y <= range.1;
    if x % d == 0 {
        let y = x / d;
        if in_range(y) { Exp::Exact(V::I(y)) } else { Exp::Fail }
    } else {
        let (t, f) = (x / d, x.div_euclid(d));
        let c: Vec<i128> = if t == f { vec![t] } else { vec![f, t] };
        if c.iter().all(|y| in_range(*y)) {
            if c.len() == 1 { Exp::Exact(V::I(c[0])) } else { Exp::OneOf(c.into_iter().map(V::I).collect()) }
        } else {
            Exp::Free
        }
    }
}

const CHRONO_SAFE_SECS: i128 = 8_000_000_000_000; // ~ +-253k years, inside chrono's NaiveDateTime range

fn valid_time_of_day(dt: &DataType, v: i128) -> bool {
    let per_day = match dt {
        DataType::Time32(u) | DataType::Time64(u) => 86_400i128 * unit_per_sec(u) as i128,
        _ => return true,
    };
    v >= 0 && v < per_day
}

fn canonical_int_text(s: &str) -> bool {
    let b = s.strip_prefix('-').unwrap_or(s);
    !b.is_empty() && b.len() <= 60 && b.bytes().all(|c| c.is_ascii_digit())
}
/// `-?digits[.digits]` (DOC parse_string_to_decimal_native: "optionally signed sequence of digits
/// containing at most one decimal point")
fn canonical_decimal_text(s: &str) -> Option<Rat> {
    let (neg, b) = match s.strip_prefix('-') {
        Some(r) => (true, r),
        None => (false, s),
    };
    let (ip, fp) = match b.split_once('.') {
        Some((i, f)) => (i, f),
        None => (b, ""),
    };
    if ip.is_empty() && fp.is_empty() {
        return None;
    }
    if !ip.bytes().all(|c| c.is_ascii_digit()) || !fp.bytes().all(|c| c.is_ascii_digit()) || b.len() > 200 {
        return None;
    }
    let digits = format!("{ip}{fp}");
    let mut num = BigInt::parse_bytes(digits.as_bytes(), 10)?;
    if neg {
        num = -num;
    }
    Some(Rat { num, den: fp.len() as u32 })
}
/// text that no parser in the library documents as acceptable for numbers / temporals / booleans
fn clearly_garbage_text(s: &str) -> bool {
    matches!(s, "" | "a" | "\u{e9}" | "zz\u{e9}-not-a-number-13+" | "not a value, 13+")
}

fn is_string(dt: &DataType) -> bool {
    matches!(dt, DataType::Utf8 | DataType::LargeUtf8 | DataType::Utf8View)
}
fn is_binary(dt: &DataType) -> bool {
    matches!(dt, DataType::Binary | DataType::LargeBinary | DataType::BinaryView)
}
fn is_listish(dt: &DataType) -> Option<&DataType> {
    match dt {
        DataType::List(f) | DataType::LargeList(f) | DataType::ListView(f) | DataType::LargeListView(f) => Some(f.data_type()),
        _ => None,
    }
}

/// What the documentation pins down for casting the non-null value `v` of type `src` to `dst`.
/// Returns the expectation and the family name (used in fingerprints and coverage counters).
pub fn expect(src: &DataType, dst: &DataType, v: &V) -> (Exp, &'static str) {
    use DataType::*;
    debug_assert!(!v.is_null());
    if src == dst {
        // DOC cast_with_options: "clone array if types are the same"
        return (Exp::Exact(v.clone()), "identity");
    }
    match (src, dst) {
        // ---------- wrappers (re-encodings preserve the logical values) ----------
        // encodings are transparent: the family of the value cast is reported
        (Dictionary(_, vt), _) => return expect(vt, dst, v),
        (RunEndEncoded(_, vf), _) => return expect(vf.data_type(), dst, v),
        (_, Dictionary(_, vt)) => return expect(src, vt, v),
        (_, RunEndEncoded(_, vf)) => return expect(src, vf.data_type(), v),
        _ => {}
    }
    // list-like -> list-like (DOC: "`List` to `List`: the underlying data type is cast")
    if let (Some(x), Some(y)) = (is_listish(src), is_listish(dst)) {
        let V::L(items) = v else { return (Exp::Free, "list") };
        return (elementwise(x, y, items), "list-to-list");
    }
    match (src, dst) {
        (FixedSizeList(xf, _), _) if is_listish(dst).is_some() => {
            let V::L(items) = v else { return (Exp::Free, "list") };
            return (elementwise(xf.data_type(), is_listish(dst).unwrap(), items), "fsl-to-list");
        }
        (FixedSizeList(xf, n), FixedSizeList(yf, m)) if n == m => {
            let V::L(items) = v else { return (Exp::Free, "list") };
            return (elementwise(xf.data_type(), yf.data_type(), items), "fsl-to-fsl");
        }
        (_, FixedSizeList(yf, n)) if is_listish(src).is_some() => {
            // DOC: "`List` to `FixedSizeList`: the underlying data type is cast. If safe is true and a
            // list element has the wrong length it will be replaced with NULL, otherwise an error"
            let V::L(items) = v else { return (Exp::Free, "list") };
            if items.len() != *n as usize {
                return (Exp::Fail, "list-to-fsl");
            }
            return (elementwise(is_listish(src).unwrap(), yf.data_type(), items), "list-to-fsl");
        }
        (FixedSizeList(_, _), _) => return (Exp::Free, "fsl-flatten"),
        (_, _) if is_listish(src).is_some() => return (Exp::Free, "list-to-text"),
        (Struct(_), _) | (_, Struct(_)) | (Map(_, _), _) | (_, Map(_, _)) => return (Exp::Free, "struct-map"),
        _ => {}
    }
    // value -> single element list (DOC: "Primitive to `List`: a list array with 1 value per slot is created")
    if let Some(y) = is_listish(dst) {
        let (e, f) = expect(src, y, v);
        return (wrap1(e), f);
    }
    if let FixedSizeList(yf, 1) = dst {
        let (e, f) = expect(src, yf.data_type(), v);
        return (wrap1(e), f);
    }

    // ---------- strings and binaries ----------
    if is_string(src) {
        let V::S(s) = v else { return (Exp::Free, "string") };
        if is_string(dst) {
            return (Exp::Exact(v.clone()), "string-reencode");
        }
        if is_binary(dst) {
            return (Exp::Exact(V::B(s.as_bytes().to_vec())), "string-to-binary");
        }
        if dst.is_integer() {
            // DOC: "`Utf8` to Numeric: strings that can't be parsed to numbers return null, float strings
            // in integer casts return null"
            if canonical_int_text(s) {
                let b = BigInt::parse_bytes(s.as_bytes(), 10).unwrap();
                return (to_int(dst, &Rat::int(b)), "string-to-int");
            }
            if clearly_garbage_text(s) || (canonical_decimal_text(s).is_some() && s.contains('.')) {
                return (Exp::Fail, "string-to-int");
            }
            return (Exp::Free, "string-to-int");
        }
        if let Some(k) = float_kind(dst) {
            if canonical_decimal_text(s).is_some() && s.bytes().any(|c| c.is_ascii_digit()) && !s.ends_with('.') && !s.starts_with('.') && !s.starts_with("-.") {
                if let Ok(x) = s.parse::<f64>() {
                    // correctly rounded decimal -> binary conversion is unique for f64/f32; f16 goes through f32 in
                    // the library (documented nowhere) so only f32/f64 are pinned
                    return match k {
                        FloatKind::F64 => (Exp::Exact(V::F64(x.to_bits())), "string-to-float"),
                        FloatKind::F32 => (Exp::Exact(V::F32(s.parse::<f32>().unwrap().to_bits())), "string-to-float"),
                        FloatKind::F16 => (Exp::Free, "string-to-float"),
                    };
                }
            }
            if clearly_garbage_text(s) {
                return (Exp::Fail, "string-to-float");
            }
            return (Exp::Free, "string-to-float");
        }
        if dec_parts(dst).is_some() {
            let (_, sc, _) = dec_parts(dst).unwrap();
            if sc < 0 {
                return (Exp::Free, "string-to-decimal");
            }
            if let Some(r) = canonical_decimal_text(s) {
                return (to_decimal(dst, &r, DecRound::HalfAway), "string-to-decimal");
            }
            if clearly_garbage_text(s) {
                return (Exp::Fail, "string-to-decimal");
            }
            return (Exp::Free, "string-to-decimal");
        }
        if matches!(dst, Boolean) {
            // DOC: "`Utf8` to `Boolean`: `true`, `yes`, `on`, `1` => `true`, `false`, `no`, `off`, `0` => `false`,
            // short variants are accepted, other strings return null or error"
            return match s.as_str() {
                "true" | "yes" | "on" | "1" => (Exp::Exact(V::Bool(true)), "string-to-bool"),
                "false" | "no" | "off" | "0" => (Exp::Exact(V::Bool(false)), "string-to-bool"),
                x if clearly_garbage_text(x) || canonical_int_text(x) || x.contains('.') || x.contains('-') => (Exp::Fail, "string-to-bool"),
                _ => (Exp::Free, "string-to-bool"),
            };
        }
        if clearly_garbage_text(s) && (dst.is_temporal() || matches!(dst, Interval(_))) {
            return (Exp::Fail, "string-to-temporal");
        }
        return (Exp::Free, "string-to-other");
    }
    if is_binary(src) || matches!(src, FixedSizeBinary(_)) {
        let V::B(b) = v else { return (Exp::Free, "binary") };
        if is_binary(dst) {
            return (Exp::Exact(v.clone()), "binary-reencode");
        }
        if let FixedSizeBinary(n) = dst {
            return (if b.len() == *n as usize { Exp::Exact(v.clone()) } else { Exp::Fail }, "binary-to-fsb");
        }
        if is_string(dst) {
            return (
                match std::str::from_utf8(b) {
                    Ok(s) => Exp::Exact(V::s(s)),
                    Err(_) => Exp::Fail,
                },
                "binary-to-string",
            );
        }
        return (Exp::Free, "binary-other");
    }
    if is_string(dst) {
        if is_plain_int(src) {
            // decimal digits of an integer are unambiguous ("numeric to and from text")
            if let V::I(i) = v {
                return (Exp::Exact(V::S(i.to_string())), "int-to-string");
            }
        }
        return (Exp::Free, "to-string");
    }
    if is_binary(dst) {
        return (Exp::Free, "to-binary");
    }

    // ---------- booleans ----------
    if matches!(dst, Boolean) {
        // DOC: "Numeric to `Boolean`: 0 returns `false`, any other value returns `true`"
        return match v {
            V::I(i) => (Exp::Exact(V::Bool(*i != 0)), "numeric-to-bool"),
            V::F16(_) | V::F32(_) | V::F64(_) => {
                let x = float_of(v).unwrap();
                (Exp::Exact(V::Bool(x != 0.0)), "numeric-to-bool")
            }
            _ => (Exp::Free, "to-bool"),
        };
    }
    if matches!(src, Boolean) {
        // DOC (cast_bool_to_numeric): "`false` returns 0 while `true` returns 1"
        let V::Bool(b) = v else { return (Exp::Free, "bool") };
        let r = Rat::int(*b as i32);
        if dst.is_integer() {
            return (to_int(dst, &r), "bool-to-numeric");
        }
        if let Some(k) = float_kind(dst) {
            return (to_float(k, &r), "bool-to-numeric");
        }
        return (Exp::Free, "bool-other");
    }

    // ---------- temporal unit changes ----------
    match (src, dst) {
        (Date32, Date64) => return (rescale_int(as_i128(v), 86_400_000, 1, int_range(dst).unwrap()), "date-unit"),
        (Date64, Date32) => return (rescale_int(as_i128(v), 1, 86_400_000, int_range(dst).unwrap()), "date-unit"),
        (Time32(a) | Time64(a), Time32(b) | Time64(b)) => {
            if !valid_time_of_day(src, as_i128(v)) {
                return (Exp::Free, "time-unit");
            }
            let (m, d) = unit_ratio(a, b);
            return (rescale_int(as_i128(v), m, d, int_range(dst).unwrap()), "time-unit");
        }
        (Duration(a), Duration(b)) => {
            let (m, d) = unit_ratio(a, b);
            return (rescale_int(as_i128(v), m, d, int_range(dst).unwrap()), "duration-unit");
        }
        (Timestamp(a, tza), Timestamp(b, tzb)) => {
            let (m, d) = unit_ratio(a, b);
            let e = rescale_int(as_i128(v), m, d, int_range(dst).unwrap());
            return match (tza, tzb) {
                // DOC: "When casting from a timestamp without timezone to a timestamp with timezone, the cast
                // kernel interprets the timestamp values as being in the destination timezone and then adjusts
                // the underlying value to UTC as required"
                (None, Some(tz)) => {
                    let off = tz_offset_secs(tz) as i128 * unit_per_sec(b) as i128;
                    let secs = as_i128(v) / unit_per_sec(a) as i128;
                    if secs.abs() > CHRONO_SAFE_SECS {
                        return (Exp::Free, "timestamp-tz-adjust");
                    }
                    let adj = |w: &V| {
                        let y = as_i128(w) - off;
                        if y >= i64::MIN as i128 && y <= i64::MAX as i128 { Some(V::I(y)) } else { None }
                    };
                    let e = match e {
                        Exp::Exact(w) => adj(&w).map(Exp::Exact).unwrap_or(Exp::Fail),
                        Exp::OneOf(ws) => {
                            let c: Vec<V> = ws.iter().filter_map(adj).collect();
                            if c.len() == ws.len() { Exp::OneOf(c) } else { Exp::Free }
                        }
                        o => o,
                    };
                    (e, "timestamp-tz-adjust")
                }
                // DOC: "when casting from a timestamp with timezone BACK to a timestamp without timezone the
                // cast kernel does not adjust the values" (Some -> Some: values are UTC in both)
                _ => (e, "timestamp-unit"),
            };
        }
        (Timestamp(a, tz), Date32) => {
            // DOC: "`Timestamp` and `Date{32|64}`: precision lost when going to higher interval"; the day is taken
            // in the timestamp's own zone (as display does)
            let per_day = 86_400i128 * unit_per_sec(a) as i128;
            let off = tz.as_ref().map(|t| tz_offset_secs(t) as i128).unwrap_or(0) * unit_per_sec(a) as i128;
            let local = as_i128(v) + off;
            if (as_i128(v) / unit_per_sec(a) as i128).abs() > CHRONO_SAFE_SECS {
                return (Exp::Free, "timestamp-to-date");
            }
            let (f, t) = (local.div_euclid(per_day), local / per_day);
            return (if local % per_day == 0 { Exp::Exact(V::I(f)) } else if f == t { Exp::Exact(V::I(f)) } else { Exp::OneOf(vec![V::I(f), V::I(t)]) }, "timestamp-to-date");
        }
        (Timestamp(a, None), Date64) => {
            let (m, d) = unit_ratio(a, &TimeUnit::Millisecond);
            return (rescale_int(as_i128(v), m, d, int_range(dst).unwrap()), "timestamp-to-date");
        }
        (Date32, Timestamp(b, None)) => return (rescale_int(as_i128(v), 86_400 * unit_per_sec(b), 1, int_range(dst).unwrap()), "date-to-timestamp"),
        (Date64, Timestamp(b, None)) => {
            let (m, d) = unit_ratio(&TimeUnit::Millisecond, b);
            return (rescale_int(as_i128(v), m, d, int_range(dst).unwrap()), "date-to-timestamp");
        }
        (Duration(a), Interval(IntervalUnit::MonthDayNano)) => {
            // DOC (Durations and Intervals): "first convert to a Duration type, and then cast that to the desired
            // interval type" - the duration becomes the nanosecond component
            let n = as_i128(v) * (1_000_000_000 / unit_per_sec(a)) as i128;
            return (if n >= i64::MIN as i128 && n <= i64::MAX as i128 { Exp::Exact(V::MDN(0, 0, n as i64)) } else { Exp::Fail }, "duration-to-interval");
        }
        (Interval(IntervalUnit::MonthDayNano), Duration(b)) => {
            let V::MDN(m, d, n) = v else { return (Exp::Free, "interval") };
            if *m != 0 || *d != 0 {
                return (Exp::Fail, "interval-to-duration");
            }
            return (rescale_int(*n as i128, 1, 1_000_000_000 / unit_per_sec(b), int_range(dst).unwrap()), "interval-to-duration");
        }
        (Interval(IntervalUnit::YearMonth), Interval(IntervalUnit::MonthDayNano)) => return (Exp::Exact(V::MDN(as_i128(v) as i32, 0, 0)), "interval-widen"),
        (Interval(IntervalUnit::DayTime), Interval(IntervalUnit::MonthDayNano)) => {
            let V::DT(d, ms) = v else { return (Exp::Free, "interval") };
            return (Exp::Exact(V::MDN(0, *d, *ms as i64 * 1_000_000)), "interval-widen");
        }
        // days-as-integers corner: Int32 -> Date64 multiplies by a day (undocumented)
        (Int32, Date64) => return (Exp::Free, "int-to-date64"),
        _ => {}
    }

    // ---------- numeric <-> numeric, including integer-backed temporals seen through their storage ----------
    let src_num = src.is_numeric() || is_int_like(src);
    let dst_num = dst.is_numeric() || is_int_like(dst);
    if src_num && dst_num {
        // temporal <-> temporal pairs not handled above have no documented meaning
        if (src.is_temporal() || matches!(src, Interval(_))) && (dst.is_temporal() || matches!(dst, Interval(_))) {
            return (Exp::Free, "temporal-other");
        }
        let family = match (dec_parts(src).is_some(), dec_parts(dst).is_some(), float_kind(src).is_some(), float_kind(dst).is_some()) {
            (true, true, _, _) => "decimal-to-decimal",
            (true, false, _, true) => "decimal-to-float",
            (true, false, _, false) => "decimal-to-int",
            (false, true, true, _) => "float-to-decimal",
            (false, true, false, _) => "int-to-decimal",
            (false, false, true, true) => "float-to-float",
            (false, false, true, false) => "float-to-int",
            (false, false, false, true) => "int-to-float",
            (false, false, false, false) => "int-to-int",
        };
        if let (Some(_), Some(x)) = (float_kind(src), float_of(v)) {
            if !x.is_finite() {
                return match float_kind(dst) {
                    // non-finite floats survive float -> float exactly (NaN payloads are not pinned)
                    Some(k) => (if x.is_nan() { Exp::Free } else { Exp::Exact(mk_float(k, x)) }, family),
                    // DOC CastOptions.safe: a value that has no representation is a cast failure
                    None => (Exp::Fail, family),
                };
            }
        }
        let Some(r) = rat_of(src, v) else { return (Exp::Free, family) };
        if let Some(k) = float_kind(dst) {
            if dec_parts(src).is_some() {
                // DOC: "`Decimal` to `Float16/Float32/Float64` is lossy and values outside the representable range
                // become `INFINITY` or `-INFINITY` without error": only exactly representable small values are pinned
                let (_, s, _) = dec_parts(src).unwrap();
                let V::D(d) = v else { unreachable!() };
                let small = i256_to_big(*d).magnitude() < BigInt::from(1u64 << 53).magnitude();
                if !(0..=22).contains(&s) || !small {
                    return (Exp::Free, family);
                }
            }
            if float_kind(src).is_some() {
                let x = float_of(v).unwrap();
                return (if float_exact_in(k, x) { Exp::Exact(mk_float(k, x)) } else { Exp::Free }, family);
            }
            return (to_float(k, &r), family);
        }
        if dec_parts(dst).is_some() {
            let (_, s, _) = dec_parts(dst).unwrap();
            let mode = if dec_parts(src).is_some() {
                DecRound::Nearest
            } else if float_kind(src).is_some() {
                // the library computes round(x * 10^s) in f64: pinned only while that arithmetic is exact
                let u = r.shift10(s as i32);
                let small = u.floor().magnitude() < BigInt::from(1u64 << 52).magnitude();
                if !small || !(0..=22).contains(&s) {
                    if s < 0 && u.is_integral() && u.trunc().magnitude() < BigInt::from(1u64 << 31).magnitude() {
                        DecRound::Neighbours
                    } else {
                        return (Exp::Free, family);
                    }
                } else {
                    DecRound::Neighbours
                }
            } else {
                DecRound::Undocumented
            };
            return (to_decimal(dst, &r, mode), family);
        }
        return (to_int(dst, &r), family);
    }
    (Exp::Free, "other")
}

fn as_i128(v: &V) -> i128 {
    match v {
        V::I(i) => *i,
        _ => 0,
    }
}

fn wrap1(e: Exp) -> Exp {
    match e {
        Exp::Exact(w) => Exp::Exact(V::L(vec![w])),
        Exp::OneOf(ws) => Exp::OneOf(ws.into_iter().map(|w| V::L(vec![w])).collect()),
        Exp::Fail | Exp::StrictFail => Exp::StrictFail,
        Exp::Free => Exp::Free,
    }
}

fn elementwise(x: &DataType, y: &DataType, items: &[V]) -> Exp {
    let mut out = vec![];
    let mut strict_fail = false;
    let mut free = false;
    for it in items {
        if it.is_null() {
            out.push(V::Null);
            continue;
        }
        match expect(x, y, it).0 {
            Exp::Exact(w) => out.push(w),
            Exp::Fail | Exp::StrictFail => strict_fail = true,
            Exp::OneOf(_) | Exp::Free => free = true,
        }
    }
    if strict_fail {
        Exp::StrictFail
    } else if free {
        Exp::Free
    } else {
        Exp::Exact(V::L(out))
    }
}
