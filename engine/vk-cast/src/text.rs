//! O5: parse(format(x)) == x through `ArrayFormatter` / `FormatOptions`, `Parser` and the Utf8 casts.
//!
//! * every Date32 day of the years 0001-9999 (3 652 059 days), text checked against an independent civil
//!   calendar computation, then parsed back three ways (cast, `Parser::parse`, `parse_formatted` with a custom format);
//! * timestamps of every unit x zone on a lattice of year / month / day / second / sub-second boundaries of the
//!   years 0001-9999 *in the displayed zone*;
//! * times of day, floats (every f16, exponent x mantissa lattice of f32 / f64), decimals at precision
//!   boundaries, intervals; every `FormatOptions` field within one deviation from the default.
use crate::grid::*;
use crate::matrix::{CastOut, do_cast};
use arrow_array::types::*;
use arrow_array::ArrayRef;
use arrow_cast::display::{ArrayFormatter, DurationFormat, FormatOptions};
use arrow_cast::parse::Parser;
use arrow_cast::{CastOptions, cast_with_options};
use arrow_schema::{DataType, TimeUnit};
use vcore::serde_json::{Value, json};
use vcore::{Ctx, Stats, catch, par_for};

// ---- independent proleptic Gregorian calendar (Hinnant's algorithms) ----
pub fn days_from_civil(y: i64, m: i64, d: i64) -> i64 {
    let y = if m <= 2 { y - 1 } else { y };
    let era = y.div_euclid(400);
    let yoe = y - era * 400;
    let doy = (153 * (if m > 2 { m - 3 } else { m + 9 }) + 2) / 5 + d - 1;
    let doe = yoe * 365 + yoe / 4 - yoe / 100 + doy;
    era * 146_097 + doe - 719_468
}
pub fn civil_from_days(z: i64) -> (i64, i64, i64) {
    let z = z + 719_468;
    let era = z.div_euclid(146_097);
    let doe = z - era * 146_097;
    let yoe = (doe - doe / 1460 + doe / 36_524 - doe / 146_096) / 365;
    let y = yoe + era * 400;
    let doy = doe - (365 * yoe + yoe / 4 - yoe / 100);
    let mp = (5 * doy + 2) / 153;
    let d = doy - (153 * mp + 2) / 5 + 1;
    let m = if mp < 10 { mp + 3 } else { mp - 9 };
    (if m <= 2 { y + 1 } else { y }, m, d)
}
fn is_leap(y: i64) -> bool {
    (y % 4 == 0 && y % 100 != 0) || y % 400 == 0
}
fn days_in_month(y: i64, m: i64) -> i64 {
    match m {
        1 | 3 | 5 | 7 | 8 | 10 | 12 => 31,
        4 | 6 | 9 | 11 => 30,
        _ => {
            if is_leap(y) { 29 } else { 28 }
        }
    }
}

fn strict() -> CastOptions<'static> {
    CastOptions { safe: false, format_options: FormatOptions::default() }
}

struct Rep<'a> {
    st: &'a mut Stats,
    order: u64,
}
impl Rep<'_> {
    fn bad(&mut self, fp: &str, msg: String, case: Value) {
        if std::env::var_os("VK_CAST_DUMP").is_some() {
            eprintln!("DUMP\t{fp}\t-\t-\t{msg}");
        }
        self.st.violate(self.order, fp.to_string(), msg, || case);
    }
}

fn strings_of(a: &ArrayRef) -> Vec<Option<String>> {
    extract(a.as_ref()).into_iter().map(|v| if let V::S(s) = v { Some(s) } else { None }).collect()
}
fn ints_of(a: &ArrayRef) -> Vec<Option<i128>> {
    extract(a.as_ref()).into_iter().map(|v| if let V::I(s) = v { Some(s) } else { None }).collect()
}

// ---------------------------------------------------------------------------------------------
// T1: every Date32 day of one year

pub fn check_date_year(year: i64, rep_st: &mut Stats, order: u64) -> u64 {
    let mut rep = Rep { st: rep_st, order };
    let first = days_from_civil(year, 1, 1);
    let n = if is_leap(year) { 366 } else { 365 };
    let days: Vec<V> = (0..n).map(|k| V::I((first + k) as i128)).collect();
    let arr = build(&DataType::Date32, &days, false);
    let case = |d: i64| json!({"sub":"text","what":"date32","year":year,"day":d});
    // DOC (FormatOptions): "temporal types formatted according to RFC3339" => full-date = YYYY-MM-DD
    let expected: Vec<String> = (0..n)
        .map(|k| {
            let (y, m, d) = civil_from_days(first + k);
            format!("{y:04}-{m:02}-{d:02}")
        })
        .collect();
    let texts = match catch(|| cast_with_options(arr.as_ref(), &DataType::Utf8, &strict())) {
        Ok(Ok(t)) => strings_of(&t),
        Ok(Err(e)) => {
            rep.bad("c13:o5:format-fails:date", format!("Date32 -> Utf8 failed for year {year}: {e}"), case(first));
            return n as u64;
        }
        Err(p) => {
            rep.bad(&format!("c13:panic:{}", p.fingerprint()), format!("Date32 -> Utf8 panicked for year {year}: {p:?}"), case(first));
            return n as u64;
        }
    };
    let opts = FormatOptions::default();
    let fmt = ArrayFormatter::try_new(arr.as_ref(), &opts).unwrap();
    let custom = FormatOptions::default().with_date_format(Some("%d/%m/%Y"));
    let cfmt = ArrayFormatter::try_new(arr.as_ref(), &custom).unwrap();
    for k in 0..n as usize {
        let day = first + k as i64;
        let t = texts[k].clone().unwrap_or_default();
        if t != expected[k] {
            rep.bad("c13:o5:wrong-text:date", format!("Date32 {day} formats as {t:?}, RFC3339 full-date is {:?}", expected[k]), case(day));
            return n as u64;
        }
        let f = fmt.value(k).to_string();
        if f != t {
            rep.bad("c13:o5:formatter-differs-from-cast:date", format!("Date32 {day}: ArrayFormatter gives {f:?}, cast gives {t:?}"), case(day));
            return n as u64;
        }
        if Date32Type::parse(&t) != Some(day as i32) {
            rep.bad("c13:o5:parser-round-trip:date", format!("Date32Type::parse({t:?}) = {:?}, expected {day}", Date32Type::parse(&t)), case(day));
            return n as u64;
        }
        let c = cfmt.value(k).to_string();
        if Date32Type::parse_formatted(&c, "%d/%m/%Y") != Some(day as i32) {
            rep.bad("c13:o5:custom-format-round-trip:date", format!("Date32 {day} with date_format %d/%m/%Y prints {c:?} which parse_formatted reads as {:?}", Date32Type::parse_formatted(&c, "%d/%m/%Y")), case(day));
            return n as u64;
        }
    }
    // cast back (the whole year at once), Utf8 and Utf8View
    for sdt in [DataType::Utf8, DataType::Utf8View] {
        let tarr = build(&sdt, &expected.iter().map(|s| V::s(s)).collect::<Vec<_>>(), false);
        match do_cast(tarr.as_ref(), &DataType::Date32, false) {
            CastOut::Ok(b) => {
                let back = ints_of(&b);
                for k in 0..n as usize {
                    if back[k] != Some((first + k as i64) as i128) {
                        rep.bad("c13:o5:cast-round-trip:date", format!("{sdt} {:?} -> Date32 gives {:?}, expected {}", expected[k], back[k], first + k as i64), case(first + k as i64));
                        return n as u64;
                    }
                }
            }
            CastOut::Err(e) => {
                rep.bad("c13:o5:cast-round-trip:date", format!("{sdt} -> Date32 failed in year {year}: {}", e.msg), case(first));
                return n as u64;
            }
            CastOut::Panic(p) => {
                rep.bad(&format!("c13:panic:{}", p.fingerprint()), format!("{sdt} -> Date32 panicked: {p:?}"), case(first));
                return n as u64;
            }
        }
    }
    n as u64
}

// ---------------------------------------------------------------------------------------------
// T2: timestamp lattice

const TIMES: [(i64, i64, i64); 8] = [(0, 0, 0), (0, 0, 1), (0, 59, 59), (1, 0, 0), (11, 59, 59), (12, 0, 0), (23, 59, 58), (23, 59, 59)];

fn subsecs(u: &TimeUnit) -> Vec<i64> {
    match u {
        TimeUnit::Second => vec![0],
        TimeUnit::Millisecond => vec![0, 1, 500, 999],
        TimeUnit::Microsecond => vec![0, 1, 999, 1_000, 500_000, 999_999],
        TimeUnit::Nanosecond => vec![0, 1, 999, 1_000, 999_999, 1_000_000, 999_999_999],
    }
}

pub fn lattice_years(quick: bool) -> Vec<i64> {
    if quick {
        vec![1, 2, 3, 4, 5, 99, 100, 101, 399, 400, 401, 1582, 1677, 1678, 1899, 1900, 1901, 1969, 1970, 1971, 1999, 2000, 2001, 2037, 2038, 2039, 2099, 2100, 2101, 2261, 2262, 2263, 2399, 2400, 2401, 9998, 9999]
    } else {
        (1..=9999).collect()
    }
}

/// all lattice instants of one local calendar year for (unit, zone); returns (values, local wall clock text prefix)
fn year_lattice(year: i64, unit: &TimeUnit, off: i64) -> (Vec<i64>, Vec<String>) {
    let per = unit_per_sec(unit) as i128;
    let (mut vals, mut prefixes) = (vec![], vec![]);
    for m in 1..=12 {
        let dim = days_in_month(year, m);
        let mut ds = vec![1, dim];
        if m == 2 {
            ds.push(28);
        }
        ds.dedup();
        for d in ds {
            for (h, mi, s) in TIMES {
                for sub in subsecs(unit) {
                    let local_secs = days_from_civil(year, m, d) as i128 * 86_400 + (h * 3600 + mi * 60 + s) as i128;
                    let v = (local_secs - off as i128) * per + sub as i128;
                    if v < i64::MIN as i128 || v > i64::MAX as i128 {
                        continue;
                    }
                    vals.push(v as i64);
                    prefixes.push(format!("{year:04}-{m:02}-{d:02}T{h:02}:{mi:02}:{s:02}"));
                }
            }
        }
    }
    (vals, prefixes)
}

pub fn check_ts_year(year: i64, ui: usize, zi: usize, st: &mut Stats, order: u64) -> u64 {
    let mut rep = Rep { st, order };
    let unit = UNITS[ui];
    let zone = ZONES[zi];
    let off = zone.map(tz_offset_secs).unwrap_or(0);
    let dt = DataType::Timestamp(unit, zone.map(|z| z.into()));
    let (vals, prefixes) = year_lattice(year, &unit, off);
    if vals.is_empty() {
        return 0;
    }
    let n = vals.len();
    let case = |v: i64| json!({"sub":"text","what":"timestamp","year":year,"unit":ui,"zone":zi,"value":v});
    let arr = build(&dt, &vals.iter().map(|v| V::I(*v as i128)).collect::<Vec<_>>(), false);
    let texts = match catch(|| cast_with_options(arr.as_ref(), &DataType::Utf8, &strict())) {
        Ok(Ok(t)) => strings_of(&t),
        Ok(Err(e)) => {
            rep.bad("c13:o5:format-fails:timestamp", format!("{dt} -> Utf8 failed in local year {year}: {e}"), case(vals[0]));
            return n as u64;
        }
        Err(p) => {
            rep.bad(&format!("c13:panic:{}", p.fingerprint()), format!("{dt} -> Utf8 panicked: {p:?}"), case(vals[0]));
            return n as u64;
        }
    };
    for k in 0..n {
        let t = texts[k].clone().unwrap_or_default();
        // DOC (FormatOptions): RFC3339: date-time starts with the wall clock of the displayed zone
        if !t.starts_with(&prefixes[k]) {
            rep.bad("c13:o5:wrong-text:timestamp", format!("{dt} value {} formats as {t:?}; the wall clock in the displayed zone is {}", vals[k], prefixes[k]), case(vals[k]));
            return n as u64;
        }
        // the zone-less Parser impls read the text as UTC: equal to the value for zone-less and for offset-carrying text
        let parsed = match unit {
            TimeUnit::Second => TimestampSecondType::parse(&t),
            TimeUnit::Millisecond => TimestampMillisecondType::parse(&t),
            TimeUnit::Microsecond => TimestampMicrosecondType::parse(&t),
            TimeUnit::Nanosecond => TimestampNanosecondType::parse(&t),
        };
        if parsed != Some(vals[k]) {
            // the Parser impls go through nanoseconds: values outside 1677-09-21 .. 2262-04-11 are documented
            // ("The dates that can be represented as nanoseconds have to be between ...") as unsupported
            let in_ns_range = (vals[k] as i128 * (1_000_000_000 / unit_per_sec(&unit)) as i128).abs() < i64::MAX as i128;
            if in_ns_range {
                rep.bad("c13:o5:parser-round-trip:timestamp", format!("Timestamp parser reads {t:?} as {parsed:?}, the value is {} ({dt})", vals[k]), case(vals[k]));
                return n as u64;
            } else {
                rep.st.outcome("text:parser-outside-documented-ns-range");
            }
        }
    }
    // cast back
    let tarr = build(&DataType::Utf8, &texts.iter().map(|s| V::s(s.as_deref().unwrap_or(""))).collect::<Vec<_>>(), false);
    match do_cast(tarr.as_ref(), &dt, false) {
        CastOut::Ok(b) => {
            let back = ints_of(&b);
            for k in 0..n {
                if back[k] != Some(vals[k] as i128) {
                    rep.bad("c13:o5:cast-round-trip:timestamp", format!("{dt}: {} prints as {:?} which casts back to {:?}", vals[k], texts[k], back[k]), case(vals[k]));
                    return n as u64;
                }
            }
        }
        CastOut::Err(e) => rep.bad("c13:o5:cast-round-trip:timestamp", format!("Utf8 -> {dt} failed in local year {year}: {}", e.msg), case(vals[0])),
        CastOut::Panic(p) => rep.bad(&format!("c13:panic:{}", p.fingerprint()), format!("Utf8 -> {dt} panicked: {p:?}"), case(vals[0])),
    }
    // custom formats (one deviation): timestamp_format / timestamp_tz_format
    let custom = if zone.is_some() { FormatOptions::default().with_timestamp_tz_format(Some("%Y-%m-%d %H:%M:%S%.9f %:z")) } else { FormatOptions::default().with_timestamp_format(Some("%Y-%m-%d %H:%M:%S%.9f")) };
    let co = CastOptions { safe: false, format_options: custom };
    if let Ok(Ok(t2)) = catch(|| cast_with_options(arr.as_ref(), &DataType::Utf8, &co)) {
        match do_cast(t2.as_ref(), &dt, false) {
            CastOut::Ok(b) => {
                let back = ints_of(&b);
                for k in 0..n {
                    if back[k] != Some(vals[k] as i128) {
                        rep.bad("c13:o5:custom-format-round-trip:timestamp", format!("{dt}: {} prints with the custom format as {:?} which casts back to {:?}", vals[k], strings_of(&t2)[k], back[k]), case(vals[k]));
                        break;
                    }
                }
            }
            CastOut::Err(e) => rep.bad("c13:o5:custom-format-round-trip:timestamp", format!("{dt}: custom-format text does not cast back in local year {year}: {} (first text {:?})", e.msg, strings_of(&t2)[0]), case(vals[0])),
            CastOut::Panic(p) => rep.bad(&format!("c13:panic:{}", p.fingerprint()), format!("panicked: {p:?}"), case(vals[0])),
        }
    } else {
        rep.bad("c13:o5:format-fails:timestamp", format!("{dt} -> Utf8 with a custom format failed in local year {year}"), case(vals[0]));
    }
    n as u64
}

// ---------------------------------------------------------------------------------------------
// T3: scalar families through ArrayFormatter + Parser + cast

fn f32_lattice() -> Vec<V> {
    let mut v = vec![];
    for e in 0..=255u32 {
        for m in [0u32, 1, 0x2AAAAA, 0x7FFFFF] {
            for s in [0u32, 1] {
                v.push(V::F32((s << 31) | (e << 23) | m));
            }
        }
    }
    v
}
fn f64_lattice() -> Vec<V> {
    let mut v = vec![];
    for e in 0..=2047u64 {
        for m in [0u64, 1, 0x5_5555_5555_5555, 0xF_FFFF_FFFF_FFFF] {
            for s in [0u64, 1] {
                v.push(V::F64((s << 63) | (e << 52) | m));
            }
        }
    }
    v
}

fn time_lattice(dt: &DataType) -> Vec<V> {
    let (DataType::Time32(u) | DataType::Time64(u)) = dt else { unreachable!() };
    let per = unit_per_sec(u) as i128;
    let mut v = vec![];
    for h in [0, 1, 11, 12, 13, 23] {
        for m in [0, 1, 59] {
            for s in [0, 1, 59] {
                for sub in subsecs(u) {
                    v.push(V::I((h * 3600 + m * 60 + s) as i128 * per + sub as i128));
                }
            }
        }
    }
    v
}

type PFn = Box<dyn Fn(&str) -> Option<V>>;

/// cast X -> Utf8 -> X plus ArrayFormatter -> Parser for one whole column; `parse` is the matching Parser
fn round_trip_column(dt: &DataType, vals: &[V], parse: Option<&dyn Fn(&str) -> Option<V>>, fam: &str, rep: &mut Rep) {
    let case = |k: usize| json!({"sub":"text","what":"scalar","type":dt.to_string(),"value":vals[k].show()});
    let arr = build(dt, vals, false);
    let texts = match do_cast(arr.as_ref(), &DataType::Utf8, false) {
        CastOut::Ok(t) => strings_of(&t),
        CastOut::Err(e) => {
            rep.bad(&format!("c13:o5:format-fails:{fam}"), format!("{dt} -> Utf8 failed: {}", e.msg), case(0));
            return;
        }
        CastOut::Panic(p) => {
            rep.bad(&format!("c13:panic:{}", p.fingerprint()), format!("{dt} -> Utf8 panicked: {p:?}"), case(0));
            return;
        }
    };
    let opts = FormatOptions::default();
    let fmt = ArrayFormatter::try_new(arr.as_ref(), &opts).unwrap();
    for k in 0..vals.len() {
        let t = texts[k].clone().unwrap_or_default();
        let f = fmt.value(k).to_string();
        if f != t {
            rep.bad(&format!("c13:o5:formatter-differs-from-cast:{fam}"), format!("{dt} {}: ArrayFormatter gives {f:?}, the cast gives {t:?}", vals[k].show()), case(k));
            return;
        }
        if let Some(p) = parse {
            let got = p(&t);
            let ok = got.as_ref().map(|g| crate::matrix::same_value(g, &vals[k])).unwrap_or(false);
            if !ok {
                rep.bad(&format!("c13:o5:parser-round-trip:{fam}"), format!("{dt} {} prints as {t:?}, which the parser reads as {:?}", vals[k].show(), got.map(|g| g.show())), case(k));
                return;
            }
        }
    }
    for sdt in [DataType::Utf8, DataType::LargeUtf8, DataType::Utf8View] {
        let tarr = build(&sdt, &texts.iter().map(|s| V::s(s.as_deref().unwrap_or(""))).collect::<Vec<_>>(), false);
        match do_cast(tarr.as_ref(), dt, false) {
            CastOut::Ok(b) => {
                let back = extract(b.as_ref());
                for k in 0..vals.len() {
                    if !crate::matrix::same_value(&back[k], &vals[k]) {
                        rep.bad(&format!("c13:o5:cast-round-trip:{fam}"), format!("{dt} {} prints as {:?} which casts back ({sdt}) to {}", vals[k].show(), texts[k], back[k].show()), case(k));
                        return;
                    }
                }
            }
            CastOut::Err(e) => {
                rep.bad(&format!("c13:o5:cast-round-trip:{fam}"), format!("{sdt} -> {dt} failed on the library's own text: {}", e.msg), case(0));
                return;
            }
            CastOut::Panic(p) => {
                rep.bad(&format!("c13:panic:{}", p.fingerprint()), format!("{sdt} -> {dt} panicked: {p:?}"), case(0));
                return;
            }
        }
    }
}

fn dec_values(dt: &DataType) -> Vec<V> {
    let (p, s, _) = dec_parts(dt).unwrap();
    let mut v = crate::alpha::base(dt);
    // every power of ten boundary +-1 inside the precision
    for k in 0..p as u32 {
        for d in [-1i32, 0, 1] {
            for sign in [1i32, -1] {
                let b = (pow10(k) + d) * sign;
                if b.magnitude() < pow10(p as u32).magnitude() {
                    v.push(V::D(big_to_i256(&b).unwrap()));
                }
            }
        }
    }
    let _ = s;
    v.sort();
    v.dedup();
    v
}

pub fn scalar_jobs() -> Vec<DataType> {
    let mut v = vec![DataType::Float16, DataType::Float32, DataType::Float64];
    v.extend([DataType::Int8, DataType::UInt8, DataType::Int16, DataType::UInt16, DataType::Int32, DataType::UInt32, DataType::Int64, DataType::UInt64, DataType::Boolean]);
    v.extend([DataType::Time32(TimeUnit::Second), DataType::Time32(TimeUnit::Millisecond), DataType::Time64(TimeUnit::Microsecond), DataType::Time64(TimeUnit::Nanosecond)]);
    for dt in grid() {
        if let Some((_, s, _)) = dec_parts(&dt) {
            if s >= 0 {
                v.push(dt);
            }
        }
    }
    v.push(DataType::Date64);
    v
}

pub fn check_scalar(dt: &DataType, st: &mut Stats, order: u64) -> u64 {
    let mut rep = Rep { st, order };
    use DataType::*;
    macro_rules! ip {
        ($t:ty) => {
            Some(Box::new(|s: &str| <$t>::parse(s).map(|x| V::I(x as i128))) as PFn)
        };
    }
    let (vals, parse, fam): (Vec<V>, Option<PFn>, &str) = match dt {
        Float16 => ((0..=u16::MAX).map(V::F16).collect(), Some(Box::new(|s: &str| Float16Type::parse(s).map(|x| V::F16(x.to_bits()))) as PFn), "float"),
        Float32 => (f32_lattice(), Some(Box::new(|s: &str| Float32Type::parse(s).map(|x| V::F32(x.to_bits()))) as PFn), "float"),
        Float64 => (f64_lattice(), Some(Box::new(|s: &str| Float64Type::parse(s).map(|x| V::F64(x.to_bits()))) as PFn), "float"),
        Int8 => (crate::exhaustive::all_values(dt), ip!(Int8Type), "int"),
        UInt8 => (crate::exhaustive::all_values(dt), ip!(UInt8Type), "int"),
        Int16 => (crate::exhaustive::all_values(dt), ip!(Int16Type), "int"),
        UInt16 => (crate::exhaustive::all_values(dt), ip!(UInt16Type), "int"),
        Int32 => (pow2_ints(dt), ip!(Int32Type), "int"),
        UInt32 => (pow2_ints(dt), ip!(UInt32Type), "int"),
        Int64 => (pow2_ints(dt), ip!(Int64Type), "int"),
        UInt64 => (pow2_ints(dt), ip!(UInt64Type), "int"),
        Boolean => (vec![V::Bool(false), V::Bool(true)], None, "bool"),
        Time32(TimeUnit::Second) => (time_lattice(dt), ip!(Time32SecondType), "time"),
        Time32(TimeUnit::Millisecond) => (time_lattice(dt), ip!(Time32MillisecondType), "time"),
        Time64(TimeUnit::Microsecond) => (time_lattice(dt), ip!(Time64MicrosecondType), "time"),
        Time64(TimeUnit::Nanosecond) => (time_lattice(dt), ip!(Time64NanosecondType), "time"),
        Date64 => {
            // every lattice year, first / last day, with and without a millisecond part
            let mut v = vec![];
            for y in lattice_years(true) {
                for (m, d) in [(1, 1), (2, 28), (12, 31)] {
                    for ms in [0i64, 1, 86_399_999] {
                        v.push(V::I((days_from_civil(y, m, d) * 86_400_000 + ms) as i128));
                    }
                }
            }
            (v, ip!(Date64Type), "date64")
        }
        d if dec_parts(d).is_some() => (dec_values(d), None, "decimal"),
        _ => unreachable!(),
    };
    round_trip_column(dt, &vals, parse.as_deref(), fam, &mut rep);
    // decimals: the documented parser `parse_decimal` as well
    if let Some((p, s, w)) = dec_parts(dt) {
        let arr = build(dt, &vals, false);
        let opts = FormatOptions::default();
        let fmt = ArrayFormatter::try_new(arr.as_ref(), &opts).unwrap();
        for (k, v) in vals.iter().enumerate() {
            let t = fmt.value(k).to_string();
            let got = match w {
                32 => arrow_cast::parse::parse_decimal::<Decimal32Type>(&t, p, s).ok().map(|x| V::D(arrow_buffer::i256::from_i128(x as i128))),
                64 => arrow_cast::parse::parse_decimal::<Decimal64Type>(&t, p, s).ok().map(|x| V::D(arrow_buffer::i256::from_i128(x as i128))),
                128 => arrow_cast::parse::parse_decimal::<Decimal128Type>(&t, p, s).ok().map(|x| V::D(arrow_buffer::i256::from_i128(x))),
                _ => arrow_cast::parse::parse_decimal::<Decimal256Type>(&t, p, s).ok().map(V::D),
            };
            if got.as_ref() != Some(v) {
                rep.bad("c13:o5:parser-round-trip:decimal", format!("{dt} {} prints as {t:?}, parse_decimal reads it as {:?}", v.show(), got.map(|g| g.show())), json!({"sub":"text","what":"scalar","type":dt.to_string(),"value":v.show()}));
                break;
            }
        }
    }
    vals.len() as u64
}

fn pow2_ints(dt: &DataType) -> Vec<V> {
    let (lo, hi) = int_range(dt).unwrap();
    let mut v = vec![lo, hi, 0];
    for k in 0..64 {
        for d in [-1i128, 0, 1] {
            for s in [1i128, -1] {
                let x = s * ((1i128 << k) + d);
                if x >= lo && x <= hi {
                    v.push(x);
                }
            }
        }
    }
    // powers of ten (digit-count boundaries of the formatter)
    let mut p = 1i128;
    for _ in 0..20 {
        for d in [-1i128, 0] {
            for s in [1i128, -1] {
                let x = s * (p + d);
                if x >= lo && x <= hi {
                    v.push(x);
                }
            }
        }
        p *= 10;
    }
    v.sort();
    v.dedup();
    v.into_iter().map(V::I).collect()
}

// ---------------------------------------------------------------------------------------------
// T4: every FormatOptions field within one deviation

pub fn check_format_options(st: &mut Stats, order: u64) -> u64 {
    let mut rep = Rep { st, order };
    let mut n = 0u64;
    let case = |w: &str| json!({"sub":"text","what":"format-options","option":w});
    // columns with a null in the middle for every leaf type that can be formatted
    let g = grid();
    let deviations: Vec<(&str, FormatOptions<'static>)> = vec![
        ("default", FormatOptions::default()),
        ("null=NULL", FormatOptions::default().with_null("NULL")),
        ("display_error=false", FormatOptions::default().with_display_error(false)),
        ("date_format", FormatOptions::default().with_date_format(Some("%d/%m/%Y"))),
        ("datetime_format", FormatOptions::default().with_datetime_format(Some("%Y-%m-%d %H:%M:%S%.3f"))),
        ("timestamp_format", FormatOptions::default().with_timestamp_format(Some("%Y-%m-%d %H:%M:%S%.9f"))),
        ("timestamp_tz_format", FormatOptions::default().with_timestamp_tz_format(Some("%Y-%m-%d %H:%M:%S%.9f %:z"))),
        ("time_format", FormatOptions::default().with_time_format(Some("%H.%M.%S%.9f"))),
        ("duration_format=pretty", FormatOptions::default().with_duration_format(DurationFormat::Pretty)),
        ("types_info", FormatOptions::default().with_types_info(true)),
        ("quoted_strings", FormatOptions::default().with_quoted_strings(true)),
    ];
    for dt in &g {
        // in-range letters only (calendar years 0001-9999 for temporals)
        let letters: Vec<V> = crate::alpha::letters(dt, dt, 8).into_iter().filter(|x| crate::matrix::o4_in_scope(dt, &DataType::Utf8, x)).collect();
        if letters.is_empty() {
            continue;
        }
        let mut col = letters.clone();
        col.insert(1.min(col.len()), V::Null);
        let arr = build(dt, &col, false);
        let default_texts: Vec<Option<String>> = match catch(|| {
            let o = FormatOptions::default();
            let f = ArrayFormatter::try_new(arr.as_ref(), &o)?;
            (0..col.len()).map(|k| f.value(k).try_to_string().map(Some)).collect::<Result<Vec<_>, _>>()
        }) {
            Ok(Ok(t)) => t,
            _ => continue, // unformattable values are covered by the matrix (safe-mode findings)
        };
        for (name, o) in &deviations {
            n += 1;
            let r = catch(|| {
                let f = ArrayFormatter::try_new(arr.as_ref(), o)?;
                (0..col.len()).map(|k| f.value(k).try_to_string()).collect::<Result<Vec<_>, _>>()
            });
            let texts = match r {
                Ok(Ok(t)) => t,
                Ok(Err(e)) => {
                    rep.bad(&format!("c13:o5:format-option-fails:{name}"), format!("{dt} with option {name}: {e}"), case(name));
                    continue;
                }
                Err(p) => {
                    rep.bad(&format!("c13:panic:{}", p.fingerprint()), format!("{dt} with option {name} panicked: {p:?}"), case(name));
                    continue;
                }
            };
            rep.st.outcome(&format!("format-option:{name}"));
            // DOC with_null: "Overrides the string used to represent a null. Defaults to \"\""
            let null_text = if *name == "null=NULL" { "NULL" } else { "" };
            let top_null = col.iter().position(|v| v.is_null()).unwrap();
            if texts[top_null] != null_text {
                rep.bad("c13:o5:format-option:null-text", format!("{dt} option {name}: null row prints {:?}, expected {null_text:?}", texts[top_null]), case(name));
            }
            // options that do not apply to this type must not change the text
            let applies = match *name {
                "default" | "display_error=false" | "types_info" => false,
                "null=NULL" => true, // nested types print inner nulls
                "date_format" => matches!(crate::alpha::innermost(dt), DataType::Date32),
                "datetime_format" => matches!(crate::alpha::innermost(dt), DataType::Date64),
                "timestamp_format" => matches!(crate::alpha::innermost(dt), DataType::Timestamp(_, None)),
                "timestamp_tz_format" => matches!(crate::alpha::innermost(dt), DataType::Timestamp(_, Some(_))),
                "time_format" => matches!(crate::alpha::innermost(dt), DataType::Time32(_) | DataType::Time64(_)),
                "duration_format=pretty" => matches!(crate::alpha::innermost(dt), DataType::Duration(_)),
                "quoted_strings" => true,
                _ => true,
            };
            if !applies {
                for k in 0..col.len() {
                    if Some(&texts[k]) != default_texts[k].as_ref() {
                        rep.bad("c13:o5:format-option:unrelated-option-changes-text", format!("{dt} option {name}: row {k} prints {:?} but {:?} by default", texts[k], default_texts[k]), case(name));
                        break;
                    }
                }
            }
            // custom temporal formats parse back with the same format string
            for k in 0..col.len() {
                if col[k].is_null() {
                    continue;
                }
                let V::I(v) = &col[k] else { continue };
                let back: Option<Option<i128>> = match (*name, dt) {
                    ("date_format", DataType::Date32) => Some(Date32Type::parse_formatted(&texts[k], "%d/%m/%Y").map(|x| x as i128)),
                    ("datetime_format", DataType::Date64) => Some(Date64Type::parse_formatted(&texts[k], "%Y-%m-%d %H:%M:%S%.3f").map(|x| x as i128)),
                    ("time_format", DataType::Time32(TimeUnit::Second)) => Some(Time32SecondType::parse_formatted(&texts[k], "%H.%M.%S%.9f").map(|x| x as i128)),
                    ("time_format", DataType::Time32(TimeUnit::Millisecond)) => Some(Time32MillisecondType::parse_formatted(&texts[k], "%H.%M.%S%.9f").map(|x| x as i128)),
                    ("time_format", DataType::Time64(TimeUnit::Microsecond)) => Some(Time64MicrosecondType::parse_formatted(&texts[k], "%H.%M.%S%.9f").map(|x| x as i128)),
                    ("time_format", DataType::Time64(TimeUnit::Nanosecond)) => Some(Time64NanosecondType::parse_formatted(&texts[k], "%H.%M.%S%.9f").map(|x| x as i128)),
                    _ => None,
                };
                if let Some(b) = back {
                    if b != Some(*v) {
                        rep.bad("c13:o5:custom-format-round-trip:parse_formatted", format!("{dt} {v} prints as {:?} with option {name}; parse_formatted reads {:?}", texts[k], b), case(name));
                        break;
                    }
                }
            }
        }
    }
    n
}

// ---------------------------------------------------------------------------------------------

pub fn run(ctx: &Ctx, st: &mut Stats) {
    let base = 2u64 << 60;
    // T1
    let r = par_for(ctx, "text:date32", 9999, 16, |idx, st| {
        let n = check_date_year(idx as i64 + 1, st, base + idx);
        st.add("text:date32-every-day", n, n);
    });
    st.merge(r);
    // T2
    let years = lattice_years(ctx.quick());
    let ny = years.len() as u64;
    let r = par_for(ctx, "text:timestamp", ny * 16, 4, |idx, st| {
        let (yi, uz) = (idx / 16, idx % 16);
        let n = check_ts_year(years[yi as usize], (uz / 4) as usize, (uz % 4) as usize, st, base + (1 << 40) + idx);
        st.add("text:timestamp-lattice", n, n);
        if n > 0 {
            st.outcome("text:timestamp-year-explored");
        }
    });
    st.merge(r);
    // T3
    let jobs = scalar_jobs();
    let r = par_for(ctx, "text:scalars", jobs.len() as u64, 1, |idx, st| {
        let n = check_scalar(&jobs[idx as usize], st, base + (2 << 40) + idx);
        st.add("text:scalars", n, n);
    });
    st.merge(r);
    // T4
    let mut s4 = Stats::new();
    let n = check_format_options(&mut s4, base + (3 << 40));
    s4.add("text:format-options", n, n);
    st.merge(s4);
    st.sample("text:date32-every-day", || json!({"years": "0001..=9999", "days": 3_652_059, "formats": ["default RFC3339", "%d/%m/%Y"]}));
    st.sample("text:timestamp-lattice", || json!({"years": years.len(), "units": 4, "zones": ZONES.iter().map(|z| z.unwrap_or("none")).collect::<Vec<_>>()}));
}

pub fn replay(case: &Value) {
    let mut st = Stats::new();
    match case["what"].as_str().unwrap_or("") {
        "date32" => {
            check_date_year(case["year"].as_i64().unwrap(), &mut st, 0);
        }
        "timestamp" => {
            check_ts_year(case["year"].as_i64().unwrap(), case["unit"].as_u64().unwrap() as usize, case["zone"].as_u64().unwrap() as usize, &mut st, 0);
        }
        "scalar" => {
            let t = case["type"].as_str().unwrap();
            for dt in scalar_jobs() {
                if dt.to_string() == t {
                    check_scalar(&dt, &mut st, 0);
                }
            }
        }
        _ => {
            check_format_options(&mut st, 0);
        }
    }
    if st.violations.is_empty() {
        println!("replay outcome: no finding");
    }
    for v in &st.violations {
        println!("replay outcome: FINDING {}\n  {}", v.fingerprint, v.message);
    }
}
