//! Standalone reproductions (plain arrow-rs API, no harness) of the C02/C03 findings.
use arrow_array::builder::*;
use arrow_array::types::*;
use arrow_array::*;
use arrow_buffer::*;
use arrow_schema::*;
use std::sync::Arc;

fn show<T: std::fmt::Debug>(name: &str, f: impl FnOnce() -> T) {
    match std::panic::catch_unwind(std::panic::AssertUnwindSafe(f)) {
        Ok(v) => println!("{name}: {v:?}"),
        Err(e) => println!("{name}: PANIC {:?}", e.downcast_ref::<String>().map(|s| s.as_str()).or(e.downcast_ref::<&str>().copied())),
    }
}

fn main() {
    std::panic::set_hook(Box::new(|_| {}));
    // (i) list-view equality
    let f = Arc::new(Field::new("item", DataType::Int32, true));
    let lv = |offs: Vec<i32>, sizes: Vec<i32>, child: Vec<i32>, nulls: Vec<bool>| {
        ListViewArray::try_new(f.clone(), ScalarBuffer::from(offs), ScalarBuffer::from(sizes), Arc::new(Int32Array::from(child)), Some(NullBuffer::from(nulls))).unwrap()
    };
    let a = lv(vec![0, 0], vec![0, 0], vec![], vec![true, false]); // [[], null]
    let b = lv(vec![0, 1], vec![1, 0], vec![0], vec![true, false]); // [[0], null]
    show("(i) listview [[],null] == [[0],null]  (expected false)", || a == b);
    let c = lv(vec![0, 0], vec![0, 1], vec![0], vec![false, true]); // [null,[0]]
    let d = lv(vec![0, 0], vec![0, 0], vec![], vec![false, true]); // [null,[]]
    show("(i) listview [null,[0]] == [null,[]]  (expected false)", || c == d);

    // (ii) like(dict, dict) on empty dictionaries
    let e: DictionaryArray<Int8Type> = DictionaryArray::try_new(Int8Array::from(Vec::<i8>::new()), Arc::new(StringArray::from(Vec::<&str>::new()))).unwrap();
    let e2 = e.clone();
    show("(ii) like(empty dict, empty dict)", move || arrow_string::like::like(&e, &e2).map(|r| r.len()));

    // (iii) row converter on a dense union
    let uf = UnionFields::try_new(vec![0, 5], vec![Field::new("i", DataType::Int32, true), Field::new("s", DataType::Utf8, true)]).unwrap();
    let u = UnionArray::try_new(uf.clone(), ScalarBuffer::from(vec![5i8]), Some(ScalarBuffer::from(vec![0i32])), vec![Arc::new(Int32Array::from(Vec::<i32>::new())), Arc::new(StringArray::from(vec![""]))]).unwrap();
    let ut = u.data_type().clone();
    let u2: ArrayRef = Arc::new(u);
    show("(iii) RowConverter on dense union [5:'']", move || {
        let c = arrow_row::RowConverter::new(vec![arrow_row::SortField::new(ut)]).unwrap();
        c.convert_columns(&[u2]).map(|r| r.num_rows())
    });
    // (iv) take on an empty dense union with a null index
    let ue = UnionArray::try_new(uf.clone(), ScalarBuffer::from(Vec::<i8>::new()), Some(ScalarBuffer::from(Vec::<i32>::new())), vec![Arc::new(Int32Array::from(Vec::<i32>::new())), Arc::new(StringArray::from(Vec::<&str>::new()))]).unwrap();
    show("(iv) take(empty dense union, [null])", move || arrow_select::take::take(&ue, &UInt32Array::from(vec![None::<u32>]), None).map(|r| r.len()));

    // (v) take on zero-width types loses rows
    let z = FixedSizeBinaryArray::try_new_with_len(0, Buffer::from_vec(Vec::<u8>::new()), None, 2).unwrap();
    show("(v) take(FixedSizeBinary(0) len 2, [0,1,0]).len()  (expected 3)", move || arrow_select::take::take(&z, &UInt32Array::from(vec![0u32, 1, 0]), None).map(|r| r.len()));
    let zl = FixedSizeListArray::try_new_with_length(f.clone(), 0, Arc::new(Int32Array::from(Vec::<i32>::new())), None, 2).unwrap();
    show("(v) take(FixedSizeList(0) len 2, [0,1,0]).len()  (expected 3)", move || arrow_select::take::take(&zl, &UInt32Array::from(vec![0u32, 1, 0]), None).map(|r| r.len()));

    // (vi) strict Binary -> Utf8 cast depends on bytes outside the slice
    let bin = BinaryArray::from(vec![Some(&[0xFFu8][..]), Some(b"ok"), Some(&[0xFEu8][..])]);
    let sl = bin.slice(1, 1); // ["ok"]
    let strict = arrow_cast::CastOptions { safe: false, ..Default::default() };
    show("(vi) strict cast Binary['ok'] (slice of [FF,'ok',FE]) -> Utf8 (expected Ok)", move || arrow_cast::cast_with_options(&sl, &DataType::Utf8, &strict).map(|r| r.len()).map_err(|e| e.to_string()));

    // (vii) strict cast / substring of a dictionary evaluates unreferenced dictionary values
    let dv = DictionaryArray::<Int8Type>::try_new(Int8Array::from(vec![1i8]), Arc::new(StringArray::from(vec!["x", "7"]))).unwrap();
    let strict = arrow_cast::CastOptions { safe: false, ..Default::default() };
    show("(vii) strict cast dict(keys [1], values ['x','7']) -> Int64 (expected Ok [7])", move || arrow_cast::cast_with_options(&dv, &DataType::Int64, &strict).map(|r| r.len()).map_err(|e| e.to_string()));
    let dv2 = DictionaryArray::<Int8Type>::try_new(Int8Array::from(vec![1i8]), Arc::new(StringArray::from(vec!["é", "ab"]))).unwrap();
    show("(vii) substring(dict(keys [1], values ['é','ab']), 1, 2) (expected Ok ['b'])", move || arrow_string::substring::substring(&dv2, 1, Some(2)).map(|r| r.len()).map_err(|e| e.to_string()));

    // (viii) sparse union == compares unselected child slots
    let mk = |other: i32| UnionArray::try_new(uf.clone(), ScalarBuffer::from(vec![5i8]), None, vec![Arc::new(Int32Array::from(vec![other])) as ArrayRef, Arc::new(StringArray::from(vec!["v"]))]).unwrap();
    let (s1, s2) = (mk(0), mk(42));
    show("(viii) sparse union [5:'v'] == [5:'v'] with different unselected slot (expected true)", move || s1.to_data() == s2.to_data());
    let _ = (StringBuilder::new(), 0);
}
