//! C01 — every array returned by a safe API is a well-formed Arrow array.
//! Bounded exhaustive *program* enumeration: all pipelines of depth <= 2 (3 in thorough on a
//! sub-alphabet) over the kernel alphabet K, started from every array of the input universe
//! U = grid x small columns x layouts; every array any stage returns is checked with the independent
//! spec validator and `validate_full`, and is fed *as produced* to the next stage.
use crate::kernels::{Kernel, Obs, kernels};
use arrow_array::{ArrayRef, RecordBatch};
use arrow_schema::{DataType, Field, Schema};
use std::sync::Arc;
use vcore::serde_json::json;
use vcore::{Ctx, Level, Stats, catch};
use vmodel::build::{Layout, layouts_1, realise};
use vmodel::validate::{batch_validate, well_formed};
use vmodel::{Val, col_json, columns, grid_core};

fn kind(dt: &DataType) -> String {
    crate::c02::type_kind(dt)
}

/// run one stage; returns the arrays it produced (empty when it errored / returned text)
fn stage(k: &Kernel, args: &[ArrayRef]) -> Result<Vec<ArrayRef>, String> {
    match catch(|| (k.f)(args)) {
        Err(_) => Ok(vec![]), // a panic returns nothing (no array to validate)
        Ok(Err(_)) => Ok(vec![]),
        Ok(Ok(Obs::Text(_))) => Ok(vec![]),
        Ok(Ok(Obs::Cols(c))) => {
            for a in &c {
                well_formed(a.as_ref())?;
            }
            Ok(c)
        }
    }
}

pub fn run(ctx: &Ctx) -> ! {
    let mut st = Stats::new();
    let grid = grid_core();
    let ks = kernels();
    let unary: Vec<&Kernel> = ks.iter().filter(|k| k.arity == 1).collect();
    let binary: Vec<&Kernel> = ks.iter().filter(|k| k.arity == 2).collect();
    // first-stage sub-alphabet for depth 2: selection, cast and re-encoding kernels (they create the odd
    // but valid layouts: offsets, shared buffers, dictionaries)
    let is_shaper = |k: &Kernel| ["filter", "take", "concat", "shift", "slice", "nullif", "cast", "row:roundtrip", "sort", "gc_dictionary", "to_data"].iter().any(|p| k.name.starts_with(p));
    let n1 = ctx.pick(3, 4);
    let n2 = ctx.pick(2, 3);

    // ---- depth 1 on the full universe, depth 2 on the reduced one
    let mut cases: Vec<(usize, Vec<Val>, Layout, bool)> = vec![];
    for (ti, dt) in grid.iter().enumerate() {
        let lays = layouts_1(dt);
        for col in columns(dt, 4, n1, true) {
            let deep_ok = col.len() <= n2;
            for (li, l) in lays.iter().enumerate() {
                // depth 2: compact + every other layout for short columns
                let deep = deep_ok && (ctx.quick() && (li == 0 || li % 3 == 2) || !ctx.quick());
                cases.push((ti, col.clone(), l.clone(), deep));
            }
        }
    }
    st.merge(vcore::par_for_replayable(ctx, "pipelines", cases.len() as u64, 4, |idx, st| {
        let (ti, col, lay, deep) = &cases[idx as usize];
        let dt = &grid[*ti];
        let Ok(x) = realise(dt, col, lay) else { return };
        let rev: Vec<Val> = col.iter().rev().cloned().collect();
        let Ok(y) = realise(dt, &rev, &Layout { slice: Some((3, 1)), ..Default::default() }) else { return };
        let case = |prog: &str| json!({"sub":"pipelines","program":prog,"column":col_json(dt, col),"layout":lay.name()});
        let mut d1 = 0u64;
        let mut d2 = 0u64;
        let mut produced = 0u64;
        for k1 in unary.iter().map(|k| (*k, false)).chain(binary.iter().map(|k| (*k, true))) {
            let (k1, bin) = k1;
            let args: Vec<ArrayRef> = if bin { vec![x.clone(), y.clone()] } else { vec![x.clone()] };
            d1 += 1;
            let outs = match stage(k1, &args) {
                Ok(o) => o,
                Err(e) => {
                    st.violate(idx, format!("c01:malformed-output:{}:{}:{}", k1.name, e.split(':').next().unwrap_or(""), kind(dt)), e, || case(&k1.name));
                    continue;
                }
            };
            produced += outs.len() as u64;
            if !*deep || !is_shaper(k1) {
                continue;
            }
            for o in &outs {
                for k2 in &unary {
                    d2 += 1;
                    match stage(k2, &[o.clone()]) {
                        Ok(o2) => produced += o2.len() as u64,
                        Err(e) => st.violate(idx, format!("c01:malformed-output:{}|{}:{}:{}", k1.name, k2.name, e.split(':').next().unwrap_or(""), kind(dt)), e, || case(&format!("{} | {}", k1.name, k2.name))),
                    }
                }
                // binary second stage with the stage-1 output on both sides
                for k2 in &binary {
                    d2 += 1;
                    match stage(k2, &[o.clone(), o.clone()]) {
                        Ok(o2) => produced += o2.len() as u64,
                        Err(e) => st.violate(idx, format!("c01:malformed-output:{}|{}:{}:{}", k1.name, k2.name, e.split(':').next().unwrap_or(""), kind(dt)), e, || case(&format!("{} | {}(x,x)", k1.name, k2.name))),
                    }
                }
            }
        }
        // binary kernels against operands that alias x: dictionaries over a prefix slice of x's values
        for (m, short) in crate::c03::prefix_dictionaries(&x) {
            for k in &binary {
                for args in [vec![short.clone(), x.clone()], vec![x.clone(), short.clone()]] {
                    d1 += 1;
                    match stage(k, &args) {
                        Ok(o) => produced += o.len() as u64,
                        Err(e) => st.violate(idx, format!("c01:malformed-output:{}:aliased-dictionary:{}:{}", k.name, e.split(':').next().unwrap_or(""), kind(dt)), e, || case(&format!("{}(prefix dictionary of {m} values, x)", k.name))),
                    }
                }
            }
        }
        st.add("pipelines-depth1", d1, if col.is_empty() { 0 } else { d1 });
        st.add("pipelines-depth2", d2, d2);
        st.count("arrays-validated", produced);
        if idx as usize == cases.len() / 2 {
            st.sample("pipelines", || json!({"column":col_json(dt, col),"layout":lay.name(),"depth1_programs":d1,"depth2_programs":d2,"arrays_validated":produced}));
        }
    }));

    // ---- builder histories
    if ctx.replay.is_none() || vcore::replay_target(ctx).is_some_and(|t| t.0 == "builders") {
        crate::c01_builders::run(ctx, &mut st);
    }

    // ---- row format: decode of foreign rows (parse / from_binary / push histories)
    if ctx.replay.is_none() {
        crate::c01_rows::run(ctx, &mut st);
    }

    // ---- record batches: RecordBatch construction + slicing + projection
    let mut rb = 0u64;
    for dt in grid.iter().filter(|_| ctx.replay.is_none()) {
        for col in columns(dt, 3, 2, true) {
            for lay in [Layout::compact(), Layout { slice: Some((1, 1)), ..Default::default() }] {
                let Ok(a) = realise(dt, &col, &lay) else { continue };
                let schema = Arc::new(Schema::new(vec![Field::new("c", dt.clone(), true), Field::new("d", dt.clone(), true)]));
                let r = catch(|| RecordBatch::try_new(schema.clone(), vec![a.clone(), a.clone()]));
                rb += 1;
                if let Ok(Ok(b)) = r {
                    for o in 0..=b.num_rows() {
                        let s = b.slice(o, b.num_rows() - o);
                        if let Err(e) = batch_validate(&s) {
                            st.violate(u64::MAX - 5, format!("c01:malformed-batch:slice:{}", e.split(':').next().unwrap_or("")), e, || json!({"sub":"batches","column":col_json(dt, &col),"layout":lay.name()}));
                        }
                    }
                    if let Ok(Ok(p)) = catch(|| b.project(&[1])) {
                        if let Err(e) = batch_validate(&p) {
                            st.violate(u64::MAX - 5, format!("c01:malformed-batch:project:{}", e.split(':').next().unwrap_or("")), e, || json!({"sub":"batches","column":col_json(dt, &col),"layout":lay.name()}));
                        }
                    }
                }
            }
        }
    }
    st.add("batches", rb, rb);

    vcore::finish(
        ctx,
        Level {
            category: "exploration",
            rule: "program enumeration: for every array of U (grid type x column of length <= N over a 4-letter alphabet plus null x layout with <= 1 deviation) every program k1 (all unary kernels, and all binary kernels with a sliced second operand), and for the shaping kernels (selection, cast, sort, row round trip, dictionary gc) every program k1 | k2 with k2 ranging over the whole alphabet, the stage-1 output being passed on exactly as produced; every array returned by any stage is validated by the independent spec validator and by validate_full. A program is non-trivial when its input column is non-empty. Builder histories: see the builders sub-engine. Row format: every binary column of length <= 2 (3) over 9 (11) valid / invalid UTF-8 fragments + null, encoded by a Binary converter, decoded by the string converter of the same shape (plain, struct, list, fixed-size list, dictionary x Utf8 / LargeUtf8 / Utf8View x 2 sort options) through parse, parse + push, from_binary; all histories start in {empty_rows, from_binary(valid), from_binary(invalid), convert_columns} x pushes of length <= 3 (4) over {trusted, parsed valid, parsed invalid}: convert_rows must refuse or return well-formed arrays".into(),
            assumptions: vec![
                "validate_full's rejection 'null_bit_buffer size too small' is ignored (it compares the validity byte length with data.offset although the NullBuffer carries its own offset); the independent validator performs the correct check".into(),
                "stages that return an error or panic produce no array and end the program".into(),
            ],
            exhaustive_space: "U x K (depth 1), U_small x K_shaping x K (depth 2)".into(),
        },
        st,
    )
}
