//! C01 sub-engine: builder histories. Every operation sequence up to a depth over each builder's
//! menu, with `finish_cloned` after every step and `finish` at the end (and the builder reused
//! afterwards); every produced array must be well-formed and denote exactly the appended values.
use arrow_array::builder::*;
use arrow_array::types::*;
use arrow_array::*;
use std::sync::Arc;
use vcore::serde_json::json;
use vcore::{Ctx, Stats, catch, par_for};
use vmodel::Val;
use vmodel::extract::extract;
use vmodel::validate::well_formed;

type OpFn<B> = Box<dyn Fn(&mut B, &mut Vec<Val>) + Send + Sync>;
struct Kind<B> {
    name: &'static str,
    mk: Box<dyn Fn() -> B + Send + Sync>,
    ops: Vec<(&'static str, OpFn<B>)>,
    finish: Box<dyn Fn(&mut B) -> ArrayRef + Send + Sync>,
    finish_cloned: Box<dyn Fn(&B) -> ArrayRef + Send + Sync>,
}

fn s(v: &str) -> Val {
    Val::Str(v.to_string())
}
const LONG: &str = "a value longer than twelve bytes";
const LONG2: &str = "another long value, thirty-three b";

fn run_kind<B: 'static>(ctx: &Ctx, st: &mut Stats, k: Kind<B>, depth: usize) {
    let nops = k.ops.len() as u64;
    let total: u64 = (0..=depth as u32).map(|d| nops.pow(d)).sum();
    let k = &k;
    st.merge(par_for(ctx, k.name, total, 64, |idx, st| {
        if let Some((_, order)) = vcore::replay_target(ctx) {
            if order != idx {
                return;
            }
        }
        // decode idx -> (length, sequence)
        let mut rem = idx;
        let mut len = 0usize;
        loop {
            let c = nops.pow(len as u32);
            if rem < c {
                break;
            }
            rem -= c;
            len += 1;
        }
        let seq: Vec<usize> = (0..len).map(|i| ((rem / nops.pow(i as u32)) % nops) as usize).collect();
        let names: Vec<&str> = seq.iter().map(|&i| k.ops[i].0).collect();
        let case = || json!({"sub":"builders","builder":k.name,"ops":names});
        let r = catch(|| -> Result<(), (String, String)> {
            let mut b = (k.mk)();
            let mut model: Vec<Val> = vec![];
            let check = |a: ArrayRef, model: &[Val], what: &str| -> Result<(), (String, String)> {
                well_formed(a.as_ref()).map_err(|e| (format!("c01:builder:{}:{what}:malformed:{}", k.name, e.split(':').next().unwrap_or("")), e))?;
                let got = extract(a.as_ref());
                if got != model {
                    return Err((format!("c01:builder:{}:{what}:values-differ", k.name), format!("got {got:?} want {model:?}")));
                }
                Ok(())
            };
            for &i in &seq {
                (k.ops[i].1)(&mut b, &mut model);
                check((k.finish_cloned)(&b), &model, "finish_cloned")?;
            }
            check((k.finish)(&mut b), &model, "finish")?;
            // the builder is reusable after finish: replay the same sequence once more
            model.clear();
            for &i in &seq {
                (k.ops[i].1)(&mut b, &mut model);
            }
            check((k.finish)(&mut b), &model, "finish-after-reuse")?;
            Ok(())
        });
        st.add(&format!("builders:{}", k.name), 1, (len > 1) as u64);
        match r {
            Ok(Ok(())) => {}
            Ok(Err((fp, m))) => st.violate(idx, fp, m, case),
            Err(p) => st.violate(idx, format!("c01:builder:{}:{}", k.name, p.fingerprint()), format!("{p:?}"), case),
        }
        if idx == total - 1 {
            st.sample(&format!("builders:{}", k.name), case);
        }
    }));
}

macro_rules! op {
    ($t:ty, $name:expr, $b:ident, $m:ident, $body:block) => {
        ($name, Box::new(move |$b: &mut $t, $m: &mut Vec<Val>| $body) as OpFn<$t>)
    };
}

pub fn run(ctx: &Ctx, st: &mut Stats) {
    let depth = ctx.pick(4, 5);
    // ---- string view
    let view_src = |sliced: bool| -> StringViewArray {
        let a = StringViewArray::from(vec![Some("x"), Some(LONG), None, Some(LONG2), Some("")]);
        if sliced { a.slice(1, 3) } else { a }
    };
    for (name, block) in [("StringViewBuilder", None), ("StringViewBuilder(block=16)", Some(16u32))] {
        run_kind(ctx, st, Kind::<StringViewBuilder> {
            name,
            mk: Box::new(move || match block { Some(b) => StringViewBuilder::new().with_fixed_block_size(b), None => StringViewBuilder::new() }),
            ops: vec![
                op!(StringViewBuilder, "append_value(short)", b, m, { b.append_value("ab"); m.push(s("ab")); }),
                op!(StringViewBuilder, "append_value(long)", b, m, { b.append_value(LONG); m.push(s(LONG)); }),
                op!(StringViewBuilder, "append_null", b, m, { b.append_null(); m.push(Val::Null); }),
                op!(StringViewBuilder, "append_option(long2)", b, m, { b.append_option(Some(LONG2)); m.push(s(LONG2)); }),
                op!(StringViewBuilder, "append_array(with buffers)", b, m, { b.append_array(&view_src(false)); m.extend([s("x"), s(LONG), Val::Null, s(LONG2), s("")]); }),
                op!(StringViewBuilder, "append_array(sliced)", b, m, { b.append_array(&view_src(true)); m.extend([s(LONG), Val::Null, s(LONG2)]); }),
                op!(StringViewBuilder, "append_array(inline only)", b, m, { b.append_array(&StringViewArray::from(vec![Some("i"), None])); m.extend([s("i"), Val::Null]); }),
            ],
            finish: Box::new(|b| Arc::new(b.finish())),
            finish_cloned: Box::new(|b| Arc::new(b.finish_cloned())),
        }, depth);
    }
    run_kind(ctx, st, Kind::<StringViewBuilder> {
        name: "StringViewBuilder(dedup)",
        mk: Box::new(|| StringViewBuilder::new().with_deduplicate_strings()),
        ops: vec![
            op!(StringViewBuilder, "append_value(short)", b, m, { b.append_value("ab"); m.push(s("ab")); }),
            op!(StringViewBuilder, "append_value(long)", b, m, { b.append_value(LONG); m.push(s(LONG)); }),
            op!(StringViewBuilder, "append_value(long2)", b, m, { b.append_value(LONG2); m.push(s(LONG2)); }),
            op!(StringViewBuilder, "append_null", b, m, { b.append_null(); m.push(Val::Null); }),
            op!(StringViewBuilder, "append_array(with buffers)", b, m, { b.append_array(&StringViewArray::from(vec![Some(LONG), None, Some("q")])); m.extend([s(LONG), Val::Null, s("q")]); }),
        ],
        finish: Box::new(|b| Arc::new(b.finish())),
        finish_cloned: Box::new(|b| Arc::new(b.finish_cloned())),
    }, depth);
    // ---- strings / binary
    run_kind(ctx, st, Kind::<StringBuilder> {
        name: "StringBuilder",
        mk: Box::new(StringBuilder::new),
        ops: vec![
            op!(StringBuilder, "append_value", b, m, { b.append_value("é"); m.push(s("é")); }),
            op!(StringBuilder, "append_value(empty)", b, m, { b.append_value(""); m.push(s("")); }),
            op!(StringBuilder, "append_null", b, m, { b.append_null(); m.push(Val::Null); }),
            op!(StringBuilder, "append_nulls(2)", b, m, { b.append_nulls(2); m.extend([Val::Null, Val::Null]); }),
            op!(StringBuilder, "append_value_n(3)", b, m, { b.append_value_n("ab", 3); m.extend([s("ab"), s("ab"), s("ab")]); }),
            op!(StringBuilder, "append_array(sliced)", b, m, { b.append_array(&StringArray::from(vec![Some("p"), Some("qq"), None, Some("r")]).slice(1, 3)).unwrap(); m.extend([s("qq"), Val::Null, s("r")]); }),
            op!(StringBuilder, "write+append", b, m, { use std::fmt::Write; write!(b, "w{}", 1).unwrap(); b.append_value("z"); m.push(s("w1z")); }),
        ],
        finish: Box::new(|b| Arc::new(b.finish())),
        finish_cloned: Box::new(|b| Arc::new(b.finish_cloned())),
    }, depth);
    // ---- primitive
    run_kind(ctx, st, Kind::<Int32Builder> {
        name: "Int32Builder",
        mk: Box::new(Int32Builder::new),
        ops: vec![
            op!(Int32Builder, "append_value", b, m, { b.append_value(7); m.push(Val::I(7)); }),
            op!(Int32Builder, "append_null", b, m, { b.append_null(); m.push(Val::Null); }),
            op!(Int32Builder, "append_nulls(9)", b, m, { b.append_nulls(9); m.extend(std::iter::repeat_n(Val::Null, 9)); }),
            op!(Int32Builder, "append_slice", b, m, { b.append_slice(&[1, 2, 3]); m.extend([Val::I(1), Val::I(2), Val::I(3)]); }),
            op!(Int32Builder, "append_values", b, m, { b.append_values(&[4, 5, 6], &[true, false, true]); m.extend([Val::I(4), Val::Null, Val::I(6)]); }),
            op!(Int32Builder, "append_value_n(8)", b, m, { b.append_value_n(-1, 8); m.extend(std::iter::repeat_n(Val::I(-1), 8)); }),
            op!(Int32Builder, "append_array(sliced)", b, m, { b.append_array(&Int32Array::from(vec![Some(1), None, Some(3), Some(4)]).slice(1, 3)); m.extend([Val::Null, Val::I(3), Val::I(4)]); }),
            op!(Int32Builder, "extend(iter)", b, m, { b.extend([Some(9), None]); m.extend([Val::I(9), Val::Null]); }),
        ],
        finish: Box::new(|b| Arc::new(b.finish())),
        finish_cloned: Box::new(|b| Arc::new(b.finish_cloned())),
    }, depth);
    // ---- boolean
    run_kind(ctx, st, Kind::<BooleanBuilder> {
        name: "BooleanBuilder",
        mk: Box::new(BooleanBuilder::new),
        ops: vec![
            op!(BooleanBuilder, "append_value(true)", b, m, { b.append_value(true); m.push(Val::Bool(true)); }),
            op!(BooleanBuilder, "append_value(false)", b, m, { b.append_value(false); m.push(Val::Bool(false)); }),
            op!(BooleanBuilder, "append_null", b, m, { b.append_null(); m.push(Val::Null); }),
            op!(BooleanBuilder, "append_nulls(9)", b, m, { b.append_nulls(9); m.extend(std::iter::repeat_n(Val::Null, 9)); }),
            op!(BooleanBuilder, "append_n(7,true)", b, m, { b.append_n(7, true); m.extend(std::iter::repeat_n(Val::Bool(true), 7)); }),
            op!(BooleanBuilder, "append_slice", b, m, { b.append_slice(&[true, false, true]); m.extend([Val::Bool(true), Val::Bool(false), Val::Bool(true)]); }),
            op!(BooleanBuilder, "append_values", b, m, { b.append_values(&[true, true, false], &[false, true, true]).unwrap(); m.extend([Val::Null, Val::Bool(true), Val::Bool(false)]); }),
            op!(BooleanBuilder, "append_array(sliced)", b, m, { b.append_array(&BooleanArray::from(vec![Some(true), None, Some(false), Some(true)]).slice(1, 3)); m.extend([Val::Null, Val::Bool(false), Val::Bool(true)]); }),
        ],
        finish: Box::new(|b| Arc::new(b.finish())),
        finish_cloned: Box::new(|b| Arc::new(b.finish_cloned())),
    }, depth);
    // ---- fixed size binary
    run_kind(ctx, st, Kind::<FixedSizeBinaryBuilder> {
        name: "FixedSizeBinaryBuilder(2)",
        mk: Box::new(|| FixedSizeBinaryBuilder::new(2)),
        ops: vec![
            op!(FixedSizeBinaryBuilder, "append_value", b, m, { b.append_value([1u8, 2]).unwrap(); m.push(Val::Bytes(vec![1, 2])); }),
            op!(FixedSizeBinaryBuilder, "append_null", b, m, { b.append_null(); m.push(Val::Null); }),
            op!(FixedSizeBinaryBuilder, "append_nulls(3)", b, m, { b.append_nulls(3); m.extend(std::iter::repeat_n(Val::Null, 3)); }),
            op!(FixedSizeBinaryBuilder, "append_array(sliced)", b, m, { b.append_array(&FixedSizeBinaryArray::try_from_sparse_iter_with_size(vec![Some(vec![9u8, 9]), None, Some(vec![7, 7])].into_iter(), 2).unwrap().slice(1, 2)).unwrap(); m.extend([Val::Null, Val::Bytes(vec![7, 7])]); }),
        ],
        finish: Box::new(|b| Arc::new(b.finish())),
        finish_cloned: Box::new(|b| Arc::new(b.finish_cloned())),
    }, depth);
    // ---- list / list view / fixed size list
    run_kind(ctx, st, Kind::<ListBuilder<Int32Builder>> {
        name: "ListBuilder<Int32>",
        mk: Box::new(|| ListBuilder::new(Int32Builder::new())),
        ops: vec![
            op!(ListBuilder<Int32Builder>, "append_value([1,null])", b, m, { b.append_value([Some(1), None]); m.push(Val::List(vec![Val::I(1), Val::Null])); }),
            op!(ListBuilder<Int32Builder>, "append_value([])", b, m, { b.append_value(Vec::<Option<i32>>::new()); m.push(Val::List(vec![])); }),
            op!(ListBuilder<Int32Builder>, "append_null", b, m, { b.append_null(); m.push(Val::Null); }),
            op!(ListBuilder<Int32Builder>, "append_nulls(2)", b, m, { b.append_nulls(2); m.extend([Val::Null, Val::Null]); }),
            op!(ListBuilder<Int32Builder>, "values+append(true)", b, m, { b.values().append_value(5); b.values().append_value(6); b.append(true); m.push(Val::List(vec![Val::I(5), Val::I(6)])); }),
            op!(ListBuilder<Int32Builder>, "append_option(None)", b, m, { b.append_option(None::<Vec<Option<i32>>>); m.push(Val::Null); }),
        ],
        finish: Box::new(|b| Arc::new(b.finish())),
        finish_cloned: Box::new(|b| Arc::new(b.finish_cloned())),
    }, depth);
    run_kind(ctx, st, Kind::<ListViewBuilder<Int32Builder>> {
        name: "ListViewBuilder<Int32>",
        mk: Box::new(|| ListViewBuilder::new(Int32Builder::new())),
        ops: vec![
            op!(ListViewBuilder<Int32Builder>, "append_value([1,null])", b, m, { b.append_value([Some(1), None]); m.push(Val::List(vec![Val::I(1), Val::Null])); }),
            op!(ListViewBuilder<Int32Builder>, "append_value([])", b, m, { b.append_value(Vec::<Option<i32>>::new()); m.push(Val::List(vec![])); }),
            op!(ListViewBuilder<Int32Builder>, "append_null", b, m, { b.append_null(); m.push(Val::Null); }),
            op!(ListViewBuilder<Int32Builder>, "values+append(true)", b, m, { b.values().append_value(5); b.append(true); m.push(Val::List(vec![Val::I(5)])); }),
        ],
        finish: Box::new(|b| Arc::new(b.finish())),
        finish_cloned: Box::new(|b| Arc::new(b.finish_cloned())),
    }, depth);
    run_kind(ctx, st, Kind::<FixedSizeListBuilder<Int32Builder>> {
        name: "FixedSizeListBuilder<Int32,2>",
        mk: Box::new(|| FixedSizeListBuilder::new(Int32Builder::new(), 2)),
        ops: vec![
            op!(FixedSizeListBuilder<Int32Builder>, "values+append(true)", b, m, { b.values().append_value(5); b.values().append_null(); b.append(true); m.push(Val::List(vec![Val::I(5), Val::Null])); }),
            op!(FixedSizeListBuilder<Int32Builder>, "values+append(false)", b, m, { b.values().append_null(); b.values().append_null(); b.append(false); m.push(Val::Null); }),
        ],
        finish: Box::new(|b| Arc::new(b.finish())),
        finish_cloned: Box::new(|b| Arc::new(b.finish_cloned())),
    }, depth + 2);
    // ---- dictionary builders
    run_kind(ctx, st, Kind::<StringDictionaryBuilder<Int8Type>> {
        name: "StringDictionaryBuilder<Int8>",
        mk: Box::new(StringDictionaryBuilder::<Int8Type>::new),
        ops: vec![
            op!(StringDictionaryBuilder<Int8Type>, "append_value(a)", b, m, { b.append_value("a"); m.push(s("a")); }),
            op!(StringDictionaryBuilder<Int8Type>, "append_value(b)", b, m, { b.append_value("b"); m.push(s("b")); }),
            op!(StringDictionaryBuilder<Int8Type>, "append_null", b, m, { b.append_null(); m.push(Val::Null); }),
            op!(StringDictionaryBuilder<Int8Type>, "append_nulls(2)", b, m, { b.append_nulls(2); m.extend([Val::Null, Val::Null]); }),
            op!(StringDictionaryBuilder<Int8Type>, "append_values(c,3)", b, m, { b.append_values("c", 3); m.extend([s("c"), s("c"), s("c")]); }),
            op!(StringDictionaryBuilder<Int8Type>, "append_options(None,2)", b, m, { b.append_options(None::<&str>, 2); m.extend([Val::Null, Val::Null]); }),
            op!(StringDictionaryBuilder<Int8Type>, "extend_dictionary", b, m, {
                let d: DictionaryArray<Int8Type> = vec![Some("z"), None, Some("a"), Some("z")].into_iter().collect();
                b.extend_dictionary(&d.downcast_dict::<StringArray>().unwrap()).unwrap();
                m.extend([s("z"), Val::Null, s("a"), s("z")]);
            }),
        ],
        finish: Box::new(|b| Arc::new(b.finish())),
        finish_cloned: Box::new(|b| Arc::new(b.finish_cloned())),
    }, depth);
    run_kind(ctx, st, Kind::<PrimitiveDictionaryBuilder<UInt8Type, Int32Type>> {
        name: "PrimitiveDictionaryBuilder<UInt8,Int32>",
        mk: Box::new(PrimitiveDictionaryBuilder::<UInt8Type, Int32Type>::new),
        ops: vec![
            op!(PrimitiveDictionaryBuilder<UInt8Type, Int32Type>, "append_value(1)", b, m, { b.append_value(1); m.push(Val::I(1)); }),
            op!(PrimitiveDictionaryBuilder<UInt8Type, Int32Type>, "append_value(-2)", b, m, { b.append_value(-2); m.push(Val::I(-2)); }),
            op!(PrimitiveDictionaryBuilder<UInt8Type, Int32Type>, "append_null", b, m, { b.append_null(); m.push(Val::Null); }),
            op!(PrimitiveDictionaryBuilder<UInt8Type, Int32Type>, "append_values(3,2)", b, m, { b.append_values(3, 2); m.extend([Val::I(3), Val::I(3)]); }),
            op!(PrimitiveDictionaryBuilder<UInt8Type, Int32Type>, "append_nulls(2)", b, m, { b.append_nulls(2); m.extend([Val::Null, Val::Null]); }),
        ],
        finish: Box::new(|b| Arc::new(b.finish())),
        finish_cloned: Box::new(|b| Arc::new(b.finish_cloned())),
    }, depth);
    // ---- run-end builders
    run_kind(ctx, st, Kind::<PrimitiveRunBuilder<Int16Type, Int32Type>> {
        name: "PrimitiveRunBuilder<Int16,Int32>",
        mk: Box::new(PrimitiveRunBuilder::<Int16Type, Int32Type>::new),
        ops: vec![
            op!(PrimitiveRunBuilder<Int16Type, Int32Type>, "append_value(1)", b, m, { b.append_value(1); m.push(Val::I(1)); }),
            op!(PrimitiveRunBuilder<Int16Type, Int32Type>, "append_value(2)", b, m, { b.append_value(2); m.push(Val::I(2)); }),
            op!(PrimitiveRunBuilder<Int16Type, Int32Type>, "append_null", b, m, { b.append_null(); m.push(Val::Null); }),
            op!(PrimitiveRunBuilder<Int16Type, Int32Type>, "append_option(None)", b, m, { b.append_option(None); m.push(Val::Null); }),
        ],
        finish: Box::new(|b| Arc::new(b.finish())),
        finish_cloned: Box::new(|b| Arc::new(b.finish_cloned())),
    }, depth + 1);
    run_kind(ctx, st, Kind::<StringRunBuilder<Int32Type>> {
        name: "StringRunBuilder<Int32>",
        mk: Box::new(StringRunBuilder::<Int32Type>::new),
        ops: vec![
            op!(StringRunBuilder<Int32Type>, "append_value(a)", b, m, { b.append_value("a"); m.push(s("a")); }),
            op!(StringRunBuilder<Int32Type>, "append_value(empty)", b, m, { b.append_value(""); m.push(s("")); }),
            op!(StringRunBuilder<Int32Type>, "append_null", b, m, { b.append_null(); m.push(Val::Null); }),
            op!(StringRunBuilder<Int32Type>, "append_value(long)", b, m, { b.append_value(LONG); m.push(s(LONG)); }),
        ],
        finish: Box::new(|b| Arc::new(b.finish())),
        finish_cloned: Box::new(|b| Arc::new(b.finish_cloned())),
    }, depth + 1);
    // ---- map builder
    run_kind(ctx, st, Kind::<MapBuilder<StringBuilder, Int32Builder>> {
        name: "MapBuilder<Utf8,Int32>",
        mk: Box::new(|| MapBuilder::new(None, StringBuilder::new(), Int32Builder::new())),
        ops: vec![
            op!(MapBuilder<StringBuilder, Int32Builder>, "entry+append(true)", b, m, { b.keys().append_value("k"); b.values().append_value(1); b.append(true).unwrap(); m.push(Val::Map(vec![(s("k"), Val::I(1))])); }),
            op!(MapBuilder<StringBuilder, Int32Builder>, "two entries(null value)", b, m, { b.keys().append_value("a"); b.values().append_null(); b.keys().append_value("b"); b.values().append_value(2); b.append(true).unwrap(); m.push(Val::Map(vec![(s("a"), Val::Null), (s("b"), Val::I(2))])); }),
            op!(MapBuilder<StringBuilder, Int32Builder>, "append(true) empty", b, m, { b.append(true).unwrap(); m.push(Val::Map(vec![])); }),
            op!(MapBuilder<StringBuilder, Int32Builder>, "append(false)", b, m, { b.append(false).unwrap(); m.push(Val::Null); }),
        ],
        finish: Box::new(|b| Arc::new(b.finish())),
        finish_cloned: Box::new(|b| Arc::new(b.finish_cloned())),
    }, depth + 1);
}
