//! C01, row format decode of foreign bytes: `RowParser::parse` / `RowConverter::from_binary` accept any
//! bytes through a safe API and `convert_rows` must then either refuse (error or the documented panic) or
//! return well-formed arrays. Rows encoded from *binary* columns have exactly the layout of rows of the
//! corresponding *string* columns, so they are the complete family of "valid layout, arbitrary payload"
//! inputs: every binary column over an alphabet of valid and invalid UTF-8 fragments is encoded with a
//! Binary converter and decoded with the Utf8 / LargeUtf8 / Utf8View converter of the same shape
//! (plain, struct, list, fixed-size list, dictionary), directly and through every short history of
//! `empty_rows` / `from_binary` / `push` of trusted and foreign rows.
use arrow_array::builder::{BinaryBuilder, BinaryViewBuilder, LargeBinaryBuilder};
use arrow_array::{ArrayRef, BinaryArray, FixedSizeListArray, ListArray, StructArray};
use arrow_buffer::OffsetBuffer;
use arrow_row::{RowConverter, Rows, SortField};
use arrow_schema::{DataType, Field, Fields, SortOptions};
use std::sync::Arc;
use vcore::serde_json::json;
use vcore::{Ctx, Stats, catch};
use vmodel::validate::well_formed;

const ORDER: u64 = u64::MAX - 30;

fn letters() -> Vec<(Vec<u8>, bool)> {
    let mut long_bad = b"twelve bytes".to_vec();
    long_bad.push(0xC3);
    let mut long_bad2 = vec![0xA9];
    long_bad2.extend_from_slice(b"twelve bytes");
    vec![
        (b"a".to_vec(), true),
        (vec![0xC3, 0xA9], true),
        (vec![0xC3], false),
        (vec![0xA9], false),
        (b"thirteen byte".to_vec(), true),
        (long_bad, false),
        (long_bad2, false),
        (vec![], true),
        (vec![0xFF], false),
        (b"a string that is longer than thirty-two bytes \xC3\xA9".to_vec(), true),
        (b"a string that is longer than thirty-two bytes \xC3".to_vec(), false),
    ]
}

#[derive(Clone, Copy, Debug, PartialEq)]
enum Kind {
    Utf8,
    LargeUtf8,
    Utf8View,
}
#[derive(Clone, Copy, Debug, PartialEq)]
enum Wrap {
    Plain,
    Struct,
    List,
    Fsl,
    Dict,
}

fn leaf(kind: Kind, col: &[Option<Vec<u8>>]) -> ArrayRef {
    match kind {
        Kind::Utf8 => {
            let mut b = BinaryBuilder::new();
            col.iter().for_each(|v| b.append_option(v.as_deref()));
            Arc::new(b.finish())
        }
        Kind::LargeUtf8 => {
            let mut b = LargeBinaryBuilder::new();
            col.iter().for_each(|v| b.append_option(v.as_deref()));
            Arc::new(b.finish())
        }
        Kind::Utf8View => {
            let mut b = BinaryViewBuilder::new();
            col.iter().for_each(|v| b.append_option(v.as_deref()));
            Arc::new(b.finish())
        }
    }
}
fn leaf_types(kind: Kind) -> (DataType, DataType) {
    match kind {
        Kind::Utf8 => (DataType::Binary, DataType::Utf8),
        Kind::LargeUtf8 => (DataType::LargeBinary, DataType::LargeUtf8),
        Kind::Utf8View => (DataType::BinaryView, DataType::Utf8View),
    }
}
/// (binary-typed array, its type, the string-typed type of the same shape)
fn wrap(w: Wrap, kind: Kind, col: &[Option<Vec<u8>>]) -> Option<(ArrayRef, DataType, DataType)> {
    let (bt, st) = leaf_types(kind);
    let l = leaf(kind, col);
    let n = col.len();
    Some(match w {
        Wrap::Plain => (l, bt, st),
        Wrap::Struct => {
            let f = |t: &DataType| Fields::from(vec![Field::new("s", t.clone(), true)]);
            (Arc::new(StructArray::new(f(&bt), vec![l], None)), DataType::Struct(f(&bt)), DataType::Struct(f(&st)))
        }
        Wrap::List => {
            // one list holding the whole column, then one list per value
            let mut vals: Vec<Option<Vec<u8>>> = col.to_vec();
            vals.extend(col.iter().cloned());
            let mut lens = vec![n];
            lens.extend(std::iter::repeat_n(1, n));
            let f = |t: &DataType| Arc::new(Field::new_list_field(t.clone(), true));
            let a = ListArray::new(f(&bt), OffsetBuffer::from_lengths(lens), leaf(kind, &vals), None);
            (Arc::new(a), DataType::List(f(&bt)), DataType::List(f(&st)))
        }
        Wrap::Fsl => {
            if n == 0 {
                return None;
            }
            let vals: Vec<Option<Vec<u8>>> = (0..n).flat_map(|i| [col[i].clone(), col[(i + 1) % n].clone()]).collect();
            let f = |t: &DataType| Arc::new(Field::new_list_field(t.clone(), true));
            let a = FixedSizeListArray::new(f(&bt), 2, leaf(kind, &vals), None);
            (Arc::new(a), DataType::FixedSizeList(f(&bt), 2), DataType::FixedSizeList(f(&st), 2))
        }
        Wrap::Dict => {
            let d = |t: &DataType| DataType::Dictionary(Box::new(DataType::Int8), Box::new(t.clone()));
            let a = catch(|| arrow_cast::cast(&l, &d(&bt))).ok()?.ok()?;
            (a, d(&bt), d(&st))
        }
    })
}

fn check_out(st: &mut Stats, what: &str, tag: &str, any_invalid: bool, r: Result<Result<Vec<ArrayRef>, arrow_schema::ArrowError>, vcore::PanicInfo>, case: &dyn Fn() -> vcore::serde_json::Value) {
    match r {
        Err(_) => st.outcome("rows:refused-panic"),
        Ok(Err(_)) => st.outcome("rows:refused-error"),
        Ok(Ok(cols)) => {
            st.outcome(if any_invalid { "rows:ok-on-invalid-payload" } else { "rows:ok" });
            for c in &cols {
                if let Err(e) = well_formed(c.as_ref()) {
                    st.violate(ORDER, format!("c01:rows:{what}:malformed:{}:{tag}", e.split(':').next().unwrap_or("")), e, case);
                    return;
                }
            }
        }
    }
}

pub fn run(ctx: &Ctx, st: &mut Stats) {
    let al = letters();
    let (mut ev, mut nt) = (0u64, 0u64);
    let nl = ctx.pick(9, 11);
    // columns: every sequence of length <= 2 over the letters + null (thorough: length 3 over 6 letters)
    let mut cols: Vec<Vec<Option<usize>>> = vec![vec![]];
    let sym: Vec<Option<usize>> = std::iter::once(None).chain((0..nl).map(Some)).collect();
    for a in &sym {
        cols.push(vec![*a]);
        for b in &sym {
            cols.push(vec![*a, *b]);
            if !ctx.quick() {
                for c in sym.iter().take(7) {
                    cols.push(vec![*a, *b, *c]);
                }
            }
        }
    }
    let opts = [SortOptions { descending: false, nulls_first: true }, SortOptions { descending: true, nulls_first: false }];
    for kind in [Kind::Utf8, Kind::LargeUtf8, Kind::Utf8View] {
        for w in [Wrap::Plain, Wrap::Struct, Wrap::List, Wrap::Fsl, Wrap::Dict] {
            for o in opts {
                // one converter pair per (shape, options)
                let Some((_, bt, stt)) = wrap(w, kind, &[Some(vec![b'a'])]) else { continue };
                let (Ok(bc), Ok(sc)) = (RowConverter::new(vec![SortField::new_with_options(bt.clone(), o)]), RowConverter::new(vec![SortField::new_with_options(stt.clone(), o)])) else {
                    st.count("rows-unsupported-shape", 1);
                    continue;
                };
                let parser = sc.parser();
                for col in &cols {
                    let vals: Vec<Option<Vec<u8>>> = col.iter().map(|x| x.map(|i| al[i].0.clone())).collect();
                    let any_invalid = col.iter().any(|x| x.is_some_and(|i| !al[i].1));
                    let Some((arr, _, _)) = wrap(w, kind, &vals) else { continue };
                    let Ok(Ok(rows)) = catch(|| bc.convert_columns(&[arr.clone()])) else {
                        st.count("rows-binary-encode-failed", 1);
                        continue;
                    };
                    let tag = format!("{kind:?}:{w:?}");
                    let case = || json!({"sub":"rows","kind":format!("{kind:?}"),"wrap":format!("{w:?}"),"descending":o.descending,"column":vals.iter().map(|v| v.as_ref().map(|b| b.iter().map(|x| format!("{x:02x}")).collect::<String>())).collect::<Vec<_>>()});
                    let raw: Vec<Vec<u8>> = rows.iter().map(|r| r.as_ref().to_vec()).collect();
                    // (a) parse every row, decode directly
                    ev += 1;
                    nt += any_invalid as u64;
                    check_out(st, "parse", &tag, any_invalid, catch(|| sc.convert_rows(raw.iter().map(|b| parser.parse(b)))), &case);
                    // (b) parse, buffer through empty_rows + push, decode
                    ev += 1;
                    check_out(st, "parse-push", &tag, any_invalid, catch(|| {
                        let mut r = sc.empty_rows(0, 0);
                        raw.iter().for_each(|b| r.push(parser.parse(b)));
                        sc.convert_rows(&r)
                    }), &case);
                    // (c) binary array form
                    if let Ok(Ok(bin)) = catch(|| rows.try_into_binary()) {
                        ev += 1;
                        check_out(st, "from_binary", &tag, any_invalid, catch(|| sc.convert_rows(&sc.from_binary(bin.clone()))), &case);
                        ev += 1;
                        check_out(st, "from_binary-reversed", &tag, any_invalid, catch(|| {
                            let r = sc.from_binary(bin.clone());
                            let v: Vec<_> = r.iter().rev().collect();
                            sc.convert_rows(v)
                        }), &case);
                    }
                }
            }
        }
        // ---- histories of Rows objects (plain shape): start x pushes x decode
        let (bt, stt) = leaf_types(kind);
        let (Ok(bc), Ok(sc)) = (RowConverter::new(vec![SortField::new(bt)]), RowConverter::new(vec![SortField::new(stt.clone())])) else { continue };
        let parser = sc.parser();
        let enc = |v: &[u8]| -> Vec<u8> { bc.convert_columns(&[leaf(kind, &[Some(v.to_vec())])]).unwrap().row(0).as_ref().to_vec() };
        let trusted_src: Rows = {
            let a = arrow_cast::cast(&leaf(kind, &[Some(b"ok".to_vec())]), &stt).unwrap();
            sc.convert_columns(&[a]).unwrap()
        };
        for bad in [vec![0xFFu8], { let mut v = b"twelve bytes".to_vec(); v.push(0xC3); v }] {
            let good_b = enc(b"fine");
            let bad_b = enc(&bad);
            let bin = |b: &[u8]| BinaryArray::from(vec![b]);
            // sources: 0 trusted row, 1 foreign valid, 2 foreign invalid
            let depth = ctx.pick(3, 4);
            let mut seqs: Vec<Vec<u8>> = vec![vec![]];
            let mut level: Vec<Vec<u8>> = vec![vec![]];
            for _ in 0..depth {
                level = level.into_iter().flat_map(|p| (0..3u8).map(move |l| { let mut q = p.clone(); q.push(l); q })).collect();
                seqs.extend(level.iter().cloned());
            }
            for start in 0..4u8 {
                for sq in &seqs {
                    let any_invalid = start == 2 || sq.contains(&2);
                    let start_name = ["empty_rows", "from_binary(valid)", "from_binary(invalid)", "convert_columns"][start as usize];
                    let push_names: Vec<&str> = sq.iter().map(|s| ["trusted", "parsed-valid", "parsed-invalid"][*s as usize]).collect();
                    let case = || json!({"sub":"rows-history","kind":format!("{kind:?}"),"start":start_name,"pushes":push_names,"invalid_payload_hex":bad.iter().map(|x| format!("{x:02x}")).collect::<String>()});
                    ev += 1;
                    nt += any_invalid as u64;
                    let r = catch(|| {
                        let mut rows = match start {
                            0 => sc.empty_rows(0, 0),
                            1 => sc.from_binary(bin(&good_b)),
                            2 => sc.from_binary(bin(&bad_b)),
                            _ => trusted_src.clone(),
                        };
                        for s in sq {
                            match s {
                                0 => rows.push(trusted_src.row(0)),
                                1 => rows.push(parser.parse(&good_b)),
                                _ => rows.push(parser.parse(&bad_b)),
                            }
                        }
                        sc.convert_rows(&rows)
                    });
                    if let (false, Ok(Ok(_))) = (any_invalid, &r) {
                    } else if !any_invalid {
                        st.violate(ORDER, format!("c01:rows:history:valid-rows-refused:{kind:?}"), "a history of valid rows was refused".to_string(), &case);
                    }
                    check_out(st, "history", &format!("{kind:?}"), any_invalid, r, &case);
                }
            }
        }
    }
    st.add("rows", ev, nt);
}
