//! C02 — array content, equality and kernel results depend only on logical values.
//! (a) accessor round trip over type grid x columns x layouts; (b) `==` is logical;
//! (c) kernel congruence across layouts; (d) commutation of row-wise kernels with take/slice/concat.
use crate::kernels::{Kernel, Obs, error_class, kernels};
use arrow_array::{Array, ArrayRef, UInt32Array};
use arrow_schema::DataType;
use vcore::serde_json::json;
use vcore::{Ctx, Level, Stats, catch, par_for};
use vmodel::build::{Layout, layouts_1, layouts_2, realise};
use vmodel::extract::extract;
use vmodel::validate::well_formed;
use vmodel::{Val, col_json, columns, grid_core};

fn case(sub: &str, dt: &DataType, col: &[Val], lay: &Layout) -> vcore::serde_json::Value {
    json!({"sub": sub, "column": col_json(dt, col), "layout": lay.name()})
}

/// the observation of a kernel run: outcome class + extracted values (layout independent)
#[derive(PartialEq, Eq, Debug, Clone)]
pub enum Seen {
    Ok(Vec<(String, Vec<Val>)>),
    Text(String),
    Err(&'static str),
    Panic(String),
    Malformed(String),
}

pub fn observe(k: &Kernel, args: &[ArrayRef]) -> Seen {
    match catch(|| (k.f)(args)) {
        Err(p) => Seen::Panic(p.fingerprint()),
        Ok(Err(e)) => Seen::Err(error_class(&e)),
        Ok(Ok(Obs::Text(t))) => Seen::Text(t),
        Ok(Ok(Obs::Cols(cols))) => {
            let mut out = vec![];
            for c in cols {
                if let Err(e) = well_formed(c.as_ref()) {
                    return Seen::Malformed(e);
                }
                match catch(|| extract(c.as_ref())) {
                    Ok(v) => out.push((value_type_name(c.data_type()), v)),
                    Err(p) => return Seen::Panic(format!("extract:{}", p.fingerprint())),
                }
            }
            Seen::Ok(out)
        }
    }
}

/// kernels may legitimately return a different but equivalent encoding (e.g. take on a dictionary
/// keeps the dictionary, cast may build another dictionary): compare by denoted value type
fn value_type_name(dt: &DataType) -> String {
    match dt {
        DataType::Dictionary(_, v) => value_type_name(v),
        DataType::RunEndEncoded(_, v) => value_type_name(v.data_type()),
        d => d.to_string(),
    }
}

fn short(s: &Seen) -> String {
    let t = format!("{s:?}");
    t.chars().take(300).collect()
}

fn class_of(s: &Seen) -> &'static str {
    match s {
        Seen::Ok(_) => "Ok",
        Seen::Text(_) => "Text",
        Seen::Err(e) => e,
        Seen::Panic(_) => "Panic",
        Seen::Malformed(_) => "Malformed",
    }
}

pub fn run(ctx: &Ctx) -> ! {
    let mut st = Stats::new();
    let grid = grid_core();
    let ks = kernels();
    let n_len = ctx.pick(3, 4);
    let letters = 4;

    // ------------------------------------------------------------------ (a) accessor round trip
    let mut a_cases: Vec<(usize, Vec<Val>)> = vec![];
    for (ti, dt) in grid.iter().enumerate() {
        for col in columns(dt, letters, n_len, true) {
            a_cases.push((ti, col));
        }
    }
    st.merge(vcore::par_for_replayable(ctx, "roundtrip", a_cases.len() as u64, 16, |idx, st| {
        let (ti, col) = &a_cases[idx as usize];
        let dt = &grid[*ti];
        let lays = layouts_2(dt);
        let mut texts: Option<(String, Vec<bool>)> = None;
        for lay in &lays {
            st.add("roundtrip", 1, (!col.is_empty()) as u64);
            let r = catch(|| -> Result<(), (String, String)> {
                let a = realise(dt, col, lay).map_err(|e| ("c02:realise-rejected".to_string(), format!("{e}")))?;
                if a.data_type() != dt {
                    return Err(("c02:realise-type".into(), format!("{} vs {dt}", a.data_type())));
                }
                well_formed(a.as_ref()).map_err(|e| (format!("c02:valid-input-rejected:{}", e.split(':').next().unwrap_or("")), e))?;
                let back = extract(a.as_ref());
                if &back != col {
                    return Err((format!("c02:accessor-roundtrip:{}", type_kind(dt)), format!("extract gives {:?}", back)));
                }
                if a.len() != col.len() {
                    return Err(("c02:len".into(), format!("{}", a.len())));
                }
                // logical nulls agree with the model
                let ln: Vec<bool> = match a.logical_nulls() {
                    Some(n) => (0..a.len()).map(|i| n.is_null(i)).collect(),
                    None => vec![false; a.len()],
                };
                let want: Vec<bool> = col.iter().map(logically_null).collect();
                if ln != want {
                    return Err((format!("c02:logical_nulls:{}", type_kind(dt)), format!("{ln:?} vs {want:?}")));
                }
                if a.logical_null_count() != want.iter().filter(|x| **x).count() {
                    return Err((format!("c02:logical_null_count:{}", type_kind(dt)), format!("{}", a.logical_null_count())));
                }
                if a.null_count() != (0..a.len()).filter(|&i| a.is_null(i)).count() {
                    return Err((format!("c02:null_count:{}", type_kind(dt)), format!("{}", a.null_count())));
                }
                // formatter text is layout independent
                // (a value the formatter cannot render, e.g. an out-of-range date, is an error outcome that
                // must itself be layout independent)
                let mut t = String::new();
                match arrow_cast::display::ArrayFormatter::try_new(a.as_ref(), &Default::default()) {
                    Err(_) => t.push_str("<formatter-unsupported>"),
                    Ok(f) => {
                        for i in 0..a.len() {
                            match f.value(i).try_to_string() {
                                Ok(x) => t.push_str(&x),
                                Err(_) => t.push_str("<format-error>"),
                            }
                            t.push('\u{1}');
                        }
                    }
                }
                match &texts {
                    None => texts = Some((t, want)),
                    Some((t0, _)) => {
                        if *t0 != t {
                            return Err((format!("c02:formatter-layout-dependent:{}", type_kind(dt)), format!("{t:?} vs compact {t0:?}")));
                        }
                    }
                }
                Ok(())
            });
            match r {
                Ok(Ok(())) => {}
                Ok(Err((fp, msg))) => st.violate(idx, fp, msg, || case("roundtrip", dt, col, lay)),
                Err(p) => st.violate(idx, format!("c02:roundtrip:{}", p.fingerprint()), format!("{p:?}"), || case("roundtrip", dt, col, lay)),
            }
        }
        if idx as usize == a_cases.len() / 2 {
            st.sample("roundtrip", || case("roundtrip", dt, col, lays.last().unwrap()));
        }
    }));

    // ------------------------------------------------------------------ (b) equality is logical
    let eq_len = ctx.pick(2, 3);
    st.merge(par_for(ctx, "equality", if ctx.replay.is_some() && !vcore::replay_target(ctx).is_some_and(|t| t.0 == "equality") { 0 } else { grid.len() as u64 }, 1, |ti, st| {
        if let Some((_, order)) = vcore::replay_target(ctx) {
            if order / 1_000_000 != ti {
                return;
            }
        }
        let dt = &grid[ti as usize];
        let cols = columns(dt, letters, eq_len, true);
        // dict-null-value changes *physical* validity, which `==` is documented to compare: keep it apart
        let lays: Vec<Layout> = layouts_1(dt).into_iter().filter(|l| l.dict != 4).collect();
        let mut arrs: Vec<(usize, usize, ArrayRef)> = vec![];
        for (ci, c) in cols.iter().enumerate() {
            for (li, l) in lays.iter().enumerate() {
                if let Ok(a) = realise(dt, c, l) {
                    arrs.push((ci, li, a));
                }
            }
        }
        let mut n = 0u64;
        let mut eqs = 0u64;
        for (c1, l1, a1) in &arrs {
            for (c2, l2, a2) in &arrs {
                // bound: at most one deviation in total distance from the diagonal for big spaces
                if ctx.quick() && *l1 != 0 && *l2 != 0 && l1 != l2 && (c1 + c2) % 3 != 0 {
                    continue;
                }
                n += 1;
                let want = cols[*c1] == cols[*c2];
                eqs += want as u64;
                let r = catch(|| (a1.as_ref() == a2.as_ref(), a1.to_data() == a2.to_data()));
                let fp = |what: &str| format!("c02:equality-{what}:{}", type_kind(dt));
                match r {
                    Ok((g1, g2)) => {
                        if g1 != want || g2 != want {
                            st.violate(ti * 1_000_000 + n, fp(if want { "false-for-equal-columns" } else { "true-for-different-columns" }), format!("== gives {g1}/{g2}, model {want}"), || {
                                json!({"sub":"equality","left":case("", dt, &cols[*c1], &lays[*l1]),"right":case("", dt, &cols[*c2], &lays[*l2])})
                            });
                        }
                    }
                    Err(p) => st.violate(ti * 1_000_000 + n, format!("c02:equality:{}", p.fingerprint()), format!("{p:?}"), || {
                        json!({"sub":"equality","left":case("", dt, &cols[*c1], &lays[*l1]),"right":case("", dt, &cols[*c2], &lays[*l2])})
                    }),
                }
            }
        }
        st.add("equality", n, n);
        st.outcome_n("eq:true", eqs);
        st.outcome_n("eq:false", n - eqs);
        if ti == 4 {
            st.sample("equality", || json!({"type": dt.to_string(), "columns": cols.len(), "layouts": lays.iter().map(|l| l.name()).collect::<Vec<_>>(), "pairs": n}));
        }
    }));

    // ------------------------------------------------------------------ (c) kernel congruence
    let k_len = ctx.pick(3, 4);
    let mut c_cases: Vec<(usize, Vec<Val>)> = vec![];
    for (ti, dt) in grid.iter().enumerate() {
        for col in columns(dt, letters, k_len, true) {
            c_cases.push((ti, col));
        }
    }
    st.merge(vcore::par_for_replayable(ctx, "congruence", c_cases.len() as u64, 4, |idx, st| {
        let (ti, col) = &c_cases[idx as usize];
        let dt = &grid[*ti];
        let lays = if ctx.quick() { layouts_1(dt) } else { layouts_2(dt) };
        let arrs: Vec<ArrayRef> = lays.iter().filter_map(|l| realise(dt, col, l).ok()).collect();
        if arrs.len() != lays.len() {
            return; // reported by (a)
        }
        // second operand: the reversed column (same length), compact and one sliced layout
        let rev: Vec<Val> = col.iter().rev().cloned().collect();
        let other_c = realise(dt, &rev, &Layout::compact()).unwrap();
        let other_s = realise(dt, &rev, &Layout { slice: Some((3, 1)), ..Default::default() }).unwrap();
        for k in &ks {
            let base = if k.arity == 1 { observe(k, &[arrs[0].clone()]) } else { observe(k, &[arrs[0].clone(), other_c.clone()]) };
            st.outcome(&format!("{}:{}", k.name.split(':').next().unwrap(), class_of(&base)));
            if let Seen::Panic(p) = &base {
                // a layout-independent panic is not a C02 matter; it is recorded for the report
                st.count(&format!("panic:{}:{}", k.name.split(':').next().unwrap(), p.chars().take(90).collect::<String>()), 1);
            }
            let mut n = 0;
            for (li, a) in arrs.iter().enumerate().skip(1) {
                let mut runs = vec![];
                if k.arity == 1 {
                    runs.push(observe(k, &[a.clone()]));
                } else {
                    runs.push(observe(k, &[a.clone(), other_c.clone()]));
                    runs.push(observe(k, &[a.clone(), other_s.clone()]));
                }
                for got in runs {
                    n += 1;
                    if got != base {
                        let what = if class_of(&got) != class_of(&base) { "outcome-differs" } else { "values-differ" };
                        st.violate(idx, format!("c02:congruence:{}:{}:{}", k.name, what, type_kind(dt)), format!("layout {} gives {} but compact gives {}", lays[li].name(), short(&got), short(&base)), || {
                            case(&format!("congruence:{}", k.name), dt, col, &lays[li])
                        });
                    }
                }
            }
            if k.arity == 2 {
                // right operand in odd layouts, left compact
                for a in arrs.iter().skip(1).step_by(2) {
                    n += 1;
                    let l = realise(dt, &rev, &Layout::compact()).unwrap();
                    let got = observe(k, &[l.clone(), a.clone()]);
                    let want = observe(k, &[l, arrs[0].clone()]);
                    if got != want {
                        st.violate(idx, format!("c02:congruence:{}:right-operand:{}", k.name, type_kind(dt)), format!("{} vs {}", short(&got), short(&want)), || case(&format!("congruence-right:{}", k.name), dt, col, &lays[0]));
                    }
                }
            }
            let nontrivial = matches!(base, Seen::Ok(_) | Seen::Text(_)) && !col.is_empty();
            st.add("congruence", n, if nontrivial { n } else { 0 });
        }
        if idx as usize == c_cases.len() / 3 {
            st.sample("congruence", || json!({"column": col_json(dt, col), "layouts": lays.iter().map(|l| l.name()).collect::<Vec<_>>(), "kernels": ks.len()}));
        }
    }));

    // ------------------------------------------------------------------ (d) commutation with selection
    st.merge(vcore::par_for_replayable(ctx, "commutation", c_cases.len() as u64, 4, |idx, st| {
        let (ti, col) = &c_cases[idx as usize];
        let dt = &grid[*ti];
        if col.is_empty() {
            return;
        }
        let x = match realise(dt, col, &Layout::compact()) {
            Ok(a) => a,
            Err(_) => return,
        };
        let n = col.len();
        // index vectors: all of length <= 2 over {0..n-1, null}, plus the reversal
        // (selection of existing rows only: a null index creates a null row, which kernels that are not
        // null-propagating, e.g. is_null, legitimately map to a non-null result)
        let mut idxs: Vec<Vec<Option<u32>>> = vec![(0..n as u32).rev().map(Some).collect()];
        let letters: Vec<Option<u32>> = (0..n as u32).map(Some).collect();
        for a in &letters {
            idxs.push(vec![*a]);
            for b in &letters {
                idxs.push(vec![*a, *b]);
            }
        }
        for k in ks.iter().filter(|k| k.rowwise && k.arity == 1) {
            let kx = match catch(|| (k.f)(&[x.clone()])) {
                Ok(Ok(Obs::Cols(c))) if c.len() == 1 && c[0].len() == n => c[0].clone(),
                _ => continue,
            };
            let mut cnt = 0;
            for iv in &idxs {
                let ia = UInt32Array::from(iv.clone());
                let sel_x = match arrow_select::take::take(x.as_ref(), &ia, None) {
                    Ok(a) => a,
                    Err(_) => continue,
                };
                let want = match catch(|| arrow_select::take::take(kx.as_ref(), &ia, None)) {
                    Ok(Ok(a)) => extract(a.as_ref()),
                    _ => continue,
                };
                cnt += 1;
                let got = observe(k, &[sel_x]);
                let ok = matches!(&got, Seen::Ok(v) if v.len() == 1 && v[0].1 == want);
                if !ok {
                    st.violate(idx, format!("c02:commutation-take:{}:{}", k.name, type_kind(dt)), format!("k(take(x,{iv:?})) = {} but take(k(x)) = {:?}", short(&got), want), || case(&format!("commutation:{}", k.name), dt, col, &Layout::compact()));
                }
            }
            // slices and concat splits
            for o in 0..=n {
                for l in 0..=(n - o) {
                    cnt += 1;
                    let got = observe(k, &[x.slice(o, l)]);
                    let want = extract(kx.slice(o, l).as_ref());
                    if !matches!(&got, Seen::Ok(v) if v.len() == 1 && v[0].1 == want) {
                        st.violate(idx, format!("c02:commutation-slice:{}:{}", k.name, type_kind(dt)), format!("k(slice(x,{o},{l})) = {} but slice(k(x)) = {:?}", short(&got), want), || case(&format!("commutation:{}", k.name), dt, col, &Layout::compact()));
                    }
                }
            }
            for cut in 0..=n {
                let parts = [x.slice(0, cut), x.slice(cut, n - cut)];
                let Ok(cat) = arrow_select::concat::concat(&[parts[0].as_ref(), parts[1].as_ref()]) else { continue };
                cnt += 1;
                let got = observe(k, &[cat]);
                let want = extract(kx.as_ref());
                if !matches!(&got, Seen::Ok(v) if v.len() == 1 && v[0].1 == want) {
                    st.violate(idx, format!("c02:commutation-concat:{}:{}", k.name, type_kind(dt)), format!("k(concat(split@{cut})) = {} but k(x) = {:?}", short(&got), want), || case(&format!("commutation:{}", k.name), dt, col, &Layout::compact()));
                }
            }
            st.add("commutation", cnt, cnt);
        }
        if idx as usize == c_cases.len() / 5 {
            st.sample("commutation", || json!({"column": col_json(dt, col), "index_vectors": idxs.len()}));
        }
    }));

    // ---- equality over child ranges (nested containers x child offsets x first offsets)
    if ctx.replay.is_none() {
        crate::c02_nested::run(ctx, &mut st);
    }

    vcore::finish(
        ctx,
        Level {
            category: "exploration",
            rule: "complete enumeration: every grid type x every column of length <= N over a 3-letter alphabet plus null x every layout with <= 2 deviations (a); all pairs of (column, layout) realisations per type for == (b); every kernel of the alphabet K on every layout of every column, compared with the compact layout's outcome class and extracted values (c); every row-wise kernel against every index vector of length <= 2, every slice and every 2-way concat split (d); nested equality family (e): container in {List, LargeList, FixedSizeList, Struct, Map, List<List>} x child in {Boolean, Boolean with nulls, Int32, Int32 with nulls, Utf8} x L child values (1..=18 (34)) x child offset 0..=9 (17) x first offset 0..=9 (17): == with the compact realisation both ways, != with each of the L single-position changes, filter / take / concat results equal. Cases are distinct by construction; non-trivial = non-empty column and (for kernels) the kernel applies to the type (Ok outcome)".into(),
            assumptions: vec![
                "== is compared with model equality except for the dict-null-value layout (arrow-rs documents == as comparing physical validity for dictionaries)".into(),
                "kernel outputs that are dictionary/run-end encoded are compared by the values they denote".into(),
                "error messages are not compared, only the ArrowError variant".into(),
            ],
            exhaustive_space: "grid_core (62 types) x columns(N) x layout menu (<=2 deviations) x kernel alphabet".into(),
        },
        st,
    )
}

pub fn logically_null(v: &Val) -> bool {
    match v {
        Val::Null => true,
        Val::Union(_, inner) => inner.is_null(),
        _ => false,
    }
}

pub fn type_kind(dt: &DataType) -> String {
    let s = dt.to_string();
    s.split(['(', '<']).next().unwrap_or(&s).to_string()
}
