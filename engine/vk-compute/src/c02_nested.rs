//! C02, equality over child *ranges*: `==` on nested arrays compares a range of the child starting at the
//! parent's first offset, on a child that may carry its own offset; the comparison code has fast paths that
//! depend on the alignment of both (byte-wise compare of Boolean children when start and offset are
//! multiples of 8, memcmp of primitive ranges, offset re-basing of byte arrays). Family: one logical column
//! (a single row holding L child values, or L rows for struct) x container x child type x every child
//! offset 0..=CO x every first list offset 0..=FO; the padded realisation must be `==` to the compact one
//! in both directions, must be `!=` to every single-position change of the same shape, and a kernel result
//! (`filter` all-true, `take` identity, `concat` with itself) computed from it must `==` that of the compact
//! one.
use arrow_array::{Array, ArrayRef, BooleanArray, FixedSizeListArray, Int32Array, LargeListArray, ListArray, MapArray, StringArray, StructArray};
use arrow_buffer::OffsetBuffer;
use arrow_schema::{DataType, Field, Fields};
use std::sync::Arc;
use vcore::serde_json::json;
use vcore::{Ctx, Stats, catch};

const ORDER: u64 = u64::MAX - 40;

#[derive(Clone, Copy, Debug, PartialEq)]
enum Child {
    Bool,
    BoolNulls,
    Int32,
    Int32Nulls,
    Utf8,
}
#[derive(Clone, Copy, Debug, PartialEq)]
enum Cont {
    List,
    LargeList,
    Fsl,
    Struct,
    Map,
    ListOfList,
}

/// logical child values: position -> small integer (None = null)
fn logical(child: Child, l: usize, flip: Option<usize>) -> Vec<Option<u32>> {
    (0..l)
        .map(|i| {
            let base = ((i * 7 + 3) % 5) as u32 % 2 + if matches!(child, Child::Bool | Child::BoolNulls) { 0 } else { (i % 3) as u32 * 2 };
            let v = if flip == Some(i) { base ^ 1 } else { base };
            let null = matches!(child, Child::BoolNulls | Child::Int32Nulls) && i % 4 == 1;
            if null { if flip == Some(i) { Some(v) } else { None } } else { Some(v) }
        })
        .collect()
}

/// child array holding `pad` unrelated values, then the logical values, then one more unrelated value; the
/// returned array is sliced by `co` from a parent with `co` further leading values (so that its own offset
/// is `co`)
fn child_array(child: Child, vals: &[Option<u32>], pad: usize, co: usize) -> ArrayRef {
    let lead = co + pad;
    let all: Vec<Option<u32>> = (0..lead).map(|i| if i % 3 == 2 { None } else { Some((i % 2) as u32 ^ 1) }).chain(vals.iter().cloned()).chain([Some(1)]).collect();
    let all: Vec<Option<u32>> = if matches!(child, Child::BoolNulls | Child::Int32Nulls) { all } else { all.into_iter().map(|v| Some(v.unwrap_or(0))).collect() };
    let a: ArrayRef = match child {
        Child::Bool | Child::BoolNulls => Arc::new(BooleanArray::from(all.iter().map(|v| v.map(|x| x == 1)).collect::<Vec<_>>())),
        Child::Int32 | Child::Int32Nulls => Arc::new(Int32Array::from(all.iter().map(|v| v.map(|x| x as i32 - 2)).collect::<Vec<_>>())),
        Child::Utf8 => Arc::new(StringArray::from(all.iter().map(|v| v.map(|x| ["", "a", "bc", "é", "dd", "x"][x as usize % 6])).collect::<Vec<_>>())),
    };
    a.slice(co, a.len() - co)
}
fn child_type(child: Child) -> DataType {
    match child {
        Child::Bool | Child::BoolNulls => DataType::Boolean,
        Child::Int32 | Child::Int32Nulls => DataType::Int32,
        Child::Utf8 => DataType::Utf8,
    }
}

/// the column [row0 = all `vals`] (struct: one row per value), child padded by `fo` leading values and
/// carrying its own offset `co`
fn build(cont: Cont, child: Child, vals: &[Option<u32>], fo: usize, co: usize) -> Option<ArrayRef> {
    let l = vals.len();
    let ch = child_array(child, vals, fo, co);
    let f = Arc::new(Field::new_list_field(child_type(child), true));
    Some(match cont {
        Cont::List => Arc::new(ListArray::new(f, OffsetBuffer::new(vec![fo as i32, (fo + l) as i32].into()), ch, None)),
        Cont::LargeList => Arc::new(LargeListArray::new(f, OffsetBuffer::new(vec![fo as i64, (fo + l) as i64].into()), ch, None)),
        Cont::Fsl => {
            // a fixed-size list of width l: rows [pad.., vals]; needs fo to be a multiple of l: build the
            // parent over the child and slice the parent instead
            if l == 0 || fo % l != 0 {
                return None;
            }
            let rows = ch.len() / l;
            let a = FixedSizeListArray::new(f, l as i32, ch.slice(0, rows * l), None);
            Arc::new(a.slice(fo / l, 1))
        }
        Cont::Struct => {
            let fields = Fields::from(vec![Field::new("c", child_type(child), true)]);
            let a = StructArray::new(fields, vec![ch.slice(0, fo + l)], None);
            Arc::new(a.slice(fo, l))
        }
        Cont::Map => {
            // keys: distinct non-null strings; values: the child
            let n = fo + l;
            let keys: ArrayRef = Arc::new(StringArray::from((0..n).map(|i| format!("k{}", i as isize - fo as isize)).collect::<Vec<_>>()));
            let entries = StructArray::new(Fields::from(vec![Field::new("keys", DataType::Utf8, false), Field::new("values", child_type(child), true)]), vec![keys, ch.slice(0, n)], None);
            let ef = Arc::new(Field::new("entries", entries.data_type().clone(), false));
            Arc::new(MapArray::new(ef, OffsetBuffer::new(vec![fo as i32, n as i32].into()), entries, None, false))
        }
        Cont::ListOfList => {
            // outer row -> inner lists of length 1 each over the child
            let inner = ListArray::new(f.clone(), OffsetBuffer::new((0..=(fo + l) as i32).collect::<Vec<_>>().into()), ch.slice(0, fo + l), None);
            let of = Arc::new(Field::new_list_field(inner.data_type().clone(), true));
            Arc::new(ListArray::new(of, OffsetBuffer::new(vec![fo as i32, (fo + l) as i32].into()), Arc::new(inner), None))
        }
    })
}

pub fn run(ctx: &Ctx, st: &mut Stats) {
    let (mut ev, mut nt) = (0u64, 0u64);
    let max_l = ctx.pick(18, 34);
    let max_o = ctx.pick(9, 17);
    for cont in [Cont::List, Cont::LargeList, Cont::Fsl, Cont::Struct, Cont::Map, Cont::ListOfList] {
        for child in [Child::Bool, Child::BoolNulls, Child::Int32, Child::Int32Nulls, Child::Utf8] {
            for l in 1..=max_l {
                let vals = logical(child, l, None);
                let Some(compact) = build(cont, child, &vals, 0, 0) else { continue };
                // every single-position change of the same shape (compact layout)
                let changed: Vec<ArrayRef> = (0..l).filter_map(|p| build(cont, child, &logical(child, l, Some(p)), 0, 0)).collect();
                for fo in 0..=max_o {
                    for co in 0..=max_o {
                        let Some(x) = build(cont, child, &vals, fo, co) else { continue };
                        let tag = format!("{cont:?}:{child:?}");
                        let case = || json!({"sub":"nested-equality","container":format!("{cont:?}"),"child":format!("{child:?}"),"values":l,"first_offset":fo,"child_offset":co});
                        ev += 2;
                        nt += (fo + co > 0) as u64 * 2;
                        match catch(|| (x.to_data() == compact.to_data(), compact.to_data() == x.to_data())) {
                            Ok((true, true)) => {}
                            Ok(_) => st.violate(ORDER, format!("c02:nested-equality:equal-columns-compare-unequal:{tag}"), format!("L={l} first offset {fo} child offset {co}"), &case),
                            Err(p) => st.violate(ORDER, format!("c02:nested-equality:panic:{tag}:{}", p.fingerprint()), format!("{p:?}"), &case),
                        }
                        for (p, c) in changed.iter().enumerate() {
                            ev += 2;
                            nt += 2;
                            if let Ok((a, b)) = catch(|| (x.to_data() == c.to_data(), c.to_data() == x.to_data())) {
                                if a || b {
                                    st.violate(ORDER, format!("c02:nested-equality:different-columns-compare-equal:{tag}"), format!("L={l} first offset {fo} child offset {co}, position {p} changed"), &case);
                                }
                            }
                        }
                        // kernels computed from the padded realisation denote the same column
                        if (fo + co) % 3 == 1 || l == 8 || l == 16 {
                            let ks: Vec<(&str, Box<dyn Fn(&ArrayRef) -> Result<ArrayRef, arrow_schema::ArrowError>>)> = vec![
                                ("filter", Box::new(|a: &ArrayRef| arrow_select::filter::filter(a.as_ref(), &BooleanArray::from(vec![true; a.len()])))),
                                ("take", Box::new(|a: &ArrayRef| arrow_select::take::take(a.as_ref(), &Int32Array::from((0..a.len() as i32).collect::<Vec<_>>()), None))),
                                ("concat", Box::new(|a: &ArrayRef| arrow_select::concat::concat(&[a.as_ref(), a.as_ref()]))),
                            ];
                            for (name, k) in &ks {
                                ev += 1;
                                nt += 1;
                                match (catch(|| k(&x)), catch(|| k(&compact))) {
                                    (Ok(Ok(rx)), Ok(Ok(rc))) => {
                                        if rx.to_data() != rc.to_data() || rc.to_data() != rx.to_data() {
                                            st.violate(ORDER, format!("c02:nested-equality:kernel-result-differs:{name}:{tag}"), format!("L={l} first offset {fo} child offset {co}"), &case);
                                        }
                                    }
                                    (Ok(Err(_)), Ok(Err(_))) | (Err(_), Err(_)) => {}
                                    _ => st.violate(ORDER, format!("c02:nested-equality:kernel-outcome-differs:{name}:{tag}"), format!("L={l} first offset {fo} child offset {co}"), &case),
                                }
                            }
                        }
                    }
                }
            }
        }
    }
    st.add("nested-equality", ev, nt);
}
