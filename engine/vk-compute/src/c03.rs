//! C03 — selection kernels move exactly the selected rows, in order; batch coalescer histories.
use arrow_array::cast::AsArray;
use arrow_array::*;
use arrow_schema::{DataType, Field, Schema, SchemaRef};
use arrow_select::coalesce::BatchCoalescer;
use std::collections::VecDeque;
use std::sync::Arc;
use vcore::bfs::{HistoryModel, Step};
use vcore::serde_json::json;
use vcore::{Ctx, Level, Stats, catch, par_for};
use vmodel::build::{Layout, layouts_1, realise};
use vmodel::extract::extract;
use vmodel::validate::{batch_validate, well_formed};
use vmodel::{Val, col_json, columns, grid_core};

fn kind(dt: &DataType) -> String {
    crate::c02::type_kind(dt)
}
fn is_union(dt: &DataType) -> bool {
    matches!(dt, DataType::Union(_, _))
}

/// check a kernel result against the expected logical rows
fn expect_rows(st: &mut Stats, order: u64, op: &str, dt: &DataType, got: Result<Result<ArrayRef, arrow_schema::ArrowError>, vcore::PanicInfo>, want: &[Val], case: &dyn Fn() -> vcore::serde_json::Value) {
    match got {
        Err(p) => st.violate(order, format!("c03:{op}:{}:{}", kind(dt), p.fingerprint()), format!("{p:?}"), case),
        Ok(Err(e)) => st.violate(order, format!("c03:{op}:unexpected-error:{}", kind(dt)), e.to_string(), case),
        Ok(Ok(a)) => {
            if let Err(e) = well_formed(a.as_ref()) {
                st.violate(order, format!("wf:{op}:{}:{}", e.split(':').next().unwrap_or(""), kind(dt)), e, case);
                return;
            }
            let vt = vmodel::build::value_type(a.data_type());
            if a.data_type() != dt && vt != vmodel::build::value_type(dt) {
                st.violate(order, format!("c03:{op}:result-type:{}", kind(dt)), format!("{} vs {dt}", a.data_type()), case);
                return;
            }
            match catch(|| extract(a.as_ref())) {
                Ok(rows) => {
                    if rows != want {
                        let what = if rows.len() != want.len() { "row-count" } else { "rows-differ" };
                        st.violate(order, format!("c03:{op}:{what}:{}", kind(dt)), format!("got {:?} want {:?}", &rows[..rows.len().min(8)], &want[..want.len().min(8)]), case);
                    }
                }
                Err(p) => st.violate(order, format!("c03:{op}:extract:{}", p.fingerprint()), format!("{p:?}"), case),
            }
        }
    }
}

/// Dictionary arrays (2 rows, keys 0 and m-1) whose values are the prefix slices `values[..m]` of `a`'s values:
/// same allocation and start pointer as `a`'s dictionary, fewer entries.
pub fn prefix_dictionaries(a: &ArrayRef) -> Vec<(usize, ArrayRef)> {
    let DataType::Dictionary(kt, _) = a.data_type() else { return vec![] };
    let d = a.as_any_dictionary();
    let vals = d.values();
    let mut out = vec![];
    for m in 1..vals.len() {
        let pre = vals.slice(0, m);
        let Ok(keys) = arrow_cast::cast(&arrow_array::Int64Array::from(vec![0i64, m as i64 - 1]), kt) else { continue };
        let Ok(sd) = arrow_data::ArrayData::builder(a.data_type().clone()).len(2).add_buffer(keys.to_data().buffers()[0].clone()).add_child_data(pre.to_data()).build() else { continue };
        out.push((m, arrow_array::make_array(sd)));
    }
    out
}

fn masks(n: usize) -> Vec<Vec<Option<bool>>> {
    let letters = [Some(true), Some(false), None];
    let mut out: Vec<Vec<Option<bool>>> = vec![vec![]];
    for _ in 0..n {
        out = out.into_iter().flat_map(|p| letters.iter().map(move |l| { let mut q = p.clone(); q.push(*l); q })).collect();
    }
    out
}

fn index_vectors(n: usize, max_len: usize, with_null: bool) -> Vec<Vec<Option<u32>>> {
    let mut letters: Vec<Option<u32>> = (0..n as u32).map(Some).collect();
    if with_null {
        letters.push(None);
    }
    let mut out: Vec<Vec<Option<u32>>> = vec![vec![]];
    let mut level: Vec<Vec<Option<u32>>> = vec![vec![]];
    for _ in 0..max_len {
        level = level.into_iter().flat_map(|p| letters.iter().map(move |l| { let mut q = p.clone(); q.push(*l); q })).collect();
        out.extend(level.iter().cloned());
    }
    out
}

fn idx_array(iv: &[Option<u32>], which: usize) -> ArrayRef {
    match which % 4 {
        0 => Arc::new(UInt32Array::from(iv.to_vec())),
        1 => Arc::new(Int8Array::from(iv.iter().map(|x| x.map(|v| v as i8)).collect::<Vec<_>>())),
        2 => Arc::new(Int64Array::from(iv.iter().map(|x| x.map(|v| v as i64)).collect::<Vec<_>>())),
        _ => {
            // UInt16 with garbage (out of bounds) payload under null slots
            let vals: Vec<u16> = iv.iter().map(|x| x.map(|v| v as u16).unwrap_or(u16::MAX)).collect();
            let nulls = if iv.iter().any(|x| x.is_none()) { Some(arrow_buffer::NullBuffer::from(iv.iter().map(|x| x.is_some()).collect::<Vec<_>>())) } else { None };
            Arc::new(UInt16Array::new(vals.into(), nulls))
        }
    }
}

/// `full` = also run the kernels that do not use the second operand
fn kernels_on(ctx: &Ctx, st: &mut Stats, idx: u64, dt: &DataType, col: &[Val], lay: &Layout, other: &[Val], full: bool) {
    let Ok(a) = realise(dt, col, lay) else { return };
    let n = col.len();
    let case = || json!({"sub":"kernels","column":col_json(dt, col),"layout":lay.name()});
    let mut ev = 0u64;
    // ---- filter (all masks), FilterBuilder with optimize, nullif, zip
    let b_other = realise(dt, &other[..n.min(other.len())].iter().cloned().chain(std::iter::repeat_n(other.first().cloned().unwrap_or(Val::Null), n.saturating_sub(other.len()))).collect::<Vec<_>>(), &Layout::compact());
    for m in masks(n) {
        let ma = BooleanArray::from(m.clone());
        if let (false, Ok(b)) = (full, &b_other) {
            let bo = extract(b.as_ref());
            let want: Vec<Val> = (0..n).map(|i| if m[i] == Some(true) { col[i].clone() } else { bo[i].clone() }).collect();
            ev += 1;
            expect_rows(st, idx, "zip", dt, catch(|| arrow_select::zip::zip(&ma, &a, b)), &want, &case);
            continue;
        }
        let want: Vec<Val> = (0..n).filter(|&i| m[i] == Some(true)).map(|i| col[i].clone()).collect();
        ev += 1;
        expect_rows(st, idx, "filter", dt, catch(|| arrow_select::filter::filter(a.as_ref(), &ma)), &want, &case);
        ev += 1;
        expect_rows(st, idx, "filter-optimized", dt, catch(|| {
            let p = arrow_select::filter::FilterBuilder::new(&ma).optimize().build();
            p.filter(a.as_ref())
        }), &want, &case);
        // sliced predicate (bit offset 3)
        let mut ext = vec![Some(true), None, Some(false)];
        ext.extend(m.iter().cloned());
        let ms = BooleanArray::from(ext).slice(3, n);
        ev += 1;
        expect_rows(st, idx, "filter-sliced-predicate", dt, catch(|| arrow_select::filter::filter(a.as_ref(), &ms)), &want, &case);
        if !is_union(dt) && !matches!(dt, DataType::Null) {
            let want: Vec<Val> = (0..n).map(|i| if m[i] == Some(true) { Val::Null } else { col[i].clone() }).collect();
            ev += 1;
            expect_rows(st, idx, "nullif", dt, catch(|| arrow_select::nullif::nullif(a.as_ref(), &ma)), &want, &case);
        }
        if let Ok(b) = &b_other {
            let bo = extract(b.as_ref());
            let want: Vec<Val> = (0..n).map(|i| if m[i] == Some(true) { col[i].clone() } else { bo[i].clone() }).collect();
            ev += 1;
            expect_rows(st, idx, "zip", dt, catch(|| arrow_select::zip::zip(&ma, &a, b)), &want, &case);
        }
    }
    // ---- take (all index vectors up to the bound, rotating index types)
    let max_iv = ctx.pick(2, 3);
    for (k, iv) in index_vectors(n, max_iv, !is_union(dt)).into_iter().enumerate().filter(|_| full) {
        let ia = idx_array(&iv, k);
        let want: Vec<Val> = iv.iter().map(|x| x.map(|i| col[i as usize].clone()).unwrap_or(Val::Null)).collect();
        ev += 1;
        expect_rows(st, idx, "take", dt, catch(|| arrow_select::take::take(a.as_ref(), ia.as_ref(), None)), &want, &case);
        if k % 5 == 0 {
            ev += 1;
            expect_rows(st, idx, "take-check-bounds", dt, catch(|| arrow_select::take::take(a.as_ref(), ia.as_ref(), Some(arrow_select::take::TakeOptions { check_bounds: true }))), &want, &case);
        }
    }
    // ---- slice, shift
    for o in (0..=n).filter(|_| full) {
        for l in 0..=(n - o) {
            ev += 1;
            let s = a.slice(o, l);
            expect_rows(st, idx, "slice", dt, Ok(Ok(s)), &col[o..o + l], &case);
        }
    }
    if !is_union(dt) && full {
        for k in -(n as i64 + 1)..=(n as i64 + 1) {
            let want: Vec<Val> = (0..n as i64).map(|i| { let src = i - k; if src >= 0 && src < n as i64 { col[src as usize].clone() } else { Val::Null } }).collect();
            ev += 1;
            expect_rows(st, idx, "shift", dt, catch(|| arrow_select::window::shift(a.as_ref(), k)), &want, &case);
        }
    }
    // ---- concat / interleave with a second array in the compact and one odd layout
    for olay in [Layout::compact(), Layout { slice: Some((3, 1)), ..Default::default() }] {
        let Ok(b) = realise(dt, other, &olay) else { continue };
        let mut want = col.to_vec();
        want.extend_from_slice(other);
        want.extend_from_slice(col);
        ev += 1;
        expect_rows(st, idx, "concat", dt, catch(|| arrow_select::concat::concat(&[a.as_ref(), b.as_ref(), a.as_ref()])), &want, &case);
        // interleave: all index lists of length <= 2 over the positions of both arrays, plus a long one
        let mut pos: Vec<(usize, usize)> = (0..n).map(|i| (0, i)).collect();
        pos.extend((0..other.len()).map(|i| (1, i)));
        let val = |p: &(usize, usize)| if p.0 == 0 { col[p.1].clone() } else { other[p.1].clone() };
        let mut lists: Vec<Vec<(usize, usize)>> = vec![vec![], pos.iter().rev().cloned().collect()];
        for p in &pos {
            lists.push(vec![*p]);
            for q in &pos {
                lists.push(vec![*p, *q]);
            }
        }
        for il in lists {
            let want: Vec<Val> = il.iter().map(val).collect();
            ev += 1;
            expect_rows(st, idx, "interleave", dt, catch(|| arrow_select::interleave::interleave(&[a.as_ref(), b.as_ref()], &il)), &want, &case);
        }
    }
    // ---- merge / merge_n / ScalarZipper with the second array
    if let Ok(b) = realise(dt, other, &Layout::compact()) {
        let m2 = other.len();
        // merge: every mask of length n+m2 over {T,F,null} with exactly n trues
        if n + m2 <= 5 {
            for m in masks(n + m2) {
                if m.iter().filter(|x| **x == Some(true)).count() != n {
                    continue;
                }
                let (mut ia, mut ib) = (0, 0);
                let want: Vec<Val> = m.iter().map(|x| if *x == Some(true) { ia += 1; col[ia - 1].clone() } else { ib += 1; other[ib - 1].clone() }).collect();
                ev += 1;
                expect_rows(st, idx, "merge", dt, catch(|| arrow_select::merge::merge(&BooleanArray::from(m.clone()), &a, &b)), &want, &case);
            }
        }
        // merge_n: every index sequence of length <= 3 over {0, 1, hole} that does not exhaust an input
        let letters: Vec<Option<usize>> = if is_union(dt) { vec![Some(0), Some(1)] } else { vec![Some(0), Some(1), None] };
        let mut seqs: Vec<Vec<Option<usize>>> = vec![vec![]];
        let mut level: Vec<Vec<Option<usize>>> = vec![vec![]];
        for _ in 0..3 {
            level = level.into_iter().flat_map(|p| letters.iter().map(move |l| { let mut q = p.clone(); q.push(*l); q })).collect();
            seqs.extend(level.iter().cloned());
        }
        for sq in seqs {
            let (c0, c1) = (sq.iter().filter(|x| **x == Some(0)).count(), sq.iter().filter(|x| **x == Some(1)).count());
            if c0 > n || c1 > m2 {
                continue;
            }
            let (mut i0, mut i1) = (0, 0);
            let want: Vec<Val> = sq.iter().map(|x| match x { Some(0) => { i0 += 1; col[i0 - 1].clone() } Some(_) => { i1 += 1; other[i1 - 1].clone() } None => Val::Null }).collect();
            ev += 1;
            expect_rows(st, idx, "merge_n", dt, catch(|| arrow_select::merge::merge_n(&[a.as_ref(), b.as_ref()], &sq)), &want, &case);
        }
        // every (row of a, row of b) as the (truthy, falsy) scalar pair - the scalars are 1-row slices, so
        // they keep the buffers of the whole array (a short view value next to a data buffer, a
        // dictionary with unreferenced entries ...). All masks of length <= 3 for the (first, last)
        // pair, of length 2 for the others.
        for i in 0..n {
            for j in 0..m2 {
                let (sa, sb) = (Scalar::new(a.slice(i, 1)), Scalar::new(b.slice(j, 1)));
                for len in if (i, j) == (0, m2 - 1) { 0..=3usize } else { 2..=2usize } {
                    for m in masks(len) {
                        let want: Vec<Val> = m.iter().map(|x| if *x == Some(true) { col[i].clone() } else { other[j].clone() }).collect();
                        ev += 1;
                        expect_rows(st, idx, "scalar-zipper", dt, catch(|| arrow_select::zip::ScalarZipper::try_new(&sa, &sb)?.zip(&BooleanArray::from(m.clone()))), &want, &case);
                        ev += 1;
                        expect_rows(st, idx, "zip-scalars", dt, catch(|| arrow_select::zip::zip(&BooleanArray::from(m.clone()), &sa, &sb)), &want, &case);
                    }
                }
            }
        }
    }
    // ---- union_extract: the rows of one branch, null elsewhere
    if let DataType::Union(fields, _) = dt {
        for (tid, f) in fields.iter() {
            let want: Vec<Val> = col.iter().map(|v| match v { Val::Union(t, x) if *t == tid => (**x).clone(), _ => Val::Null }).collect();
            ev += 1;
            let r = catch(|| arrow_select::union_extract::union_extract(a.as_any().downcast_ref::<UnionArray>().unwrap(), f.name()));
            expect_rows(st, idx, "union_extract", f.data_type(), r, &want, &case);
        }
    }
    // ---- dictionary garbage collection keeps the rows
    if let DataType::Dictionary(_, _) = dt {
        ev += 1;
        expect_rows(st, idx, "gc-dictionary", dt, catch(|| arrow_select::dictionary::garbage_collect_any_dictionary(a.as_any_dictionary())), col, &case);
    }
    // ---- aliased dictionaries: a second dictionary array whose values are a *prefix slice* of this array's
    // values (same allocation, same start pointer, fewer entries) - kernels that recognise "the same
    // dictionary" by pointer must not confuse the two
    if let (DataType::Dictionary(kt, _), true) = (dt, full) {
        let d = a.as_any_dictionary();
        let vals = d.values();
        for m in 1..vals.len() {
            let pre = vals.slice(0, m);
            let Ok(pre_rows) = catch(|| extract(pre.as_ref())) else { continue };
            // keys: 0, m-1 (both valid for the prefix)
            let Ok(keys) = arrow_cast::cast(&arrow_array::Int64Array::from(vec![0i64, m as i64 - 1]), kt) else { continue };
            let Ok(sd) = arrow_data::ArrayData::builder(dt.clone()).len(2).add_buffer(keys.to_data().buffers()[0].clone()).add_child_data(pre.to_data()).build() else { continue };
            let short = arrow_array::make_array(sd);
            let short_rows = vec![pre_rows[0].clone(), pre_rows[m - 1].clone()];
            let mut want = short_rows.clone();
            want.extend_from_slice(col);
            ev += 1;
            expect_rows(st, idx, "concat-aliased-dictionary", dt, catch(|| arrow_select::concat::concat(&[short.as_ref(), a.as_ref()])), &want, &case);
            let mut want2 = col.to_vec();
            want2.extend(short_rows.iter().cloned());
            ev += 1;
            expect_rows(st, idx, "concat-aliased-dictionary", dt, catch(|| arrow_select::concat::concat(&[a.as_ref(), short.as_ref()])), &want2, &case);
            let il: Vec<(usize, usize)> = (0..2).map(|i| (0, i)).chain((0..n).map(|i| (1, i))).rev().collect();
            let wanti: Vec<Val> = il.iter().map(|p| if p.0 == 0 { short_rows[p.1].clone() } else { col[p.1].clone() }).collect();
            ev += 1;
            expect_rows(st, idx, "interleave-aliased-dictionary", dt, catch(|| arrow_select::interleave::interleave(&[short.as_ref(), a.as_ref()], &il)), &wanti, &case);
            // MutableArrayData directly (merge / zip / coalescer all go through it)
            ev += 1;
            expect_rows(st, idx, "mutable-array-data-aliased-dictionary", dt, catch(|| {
                let (sd, ad) = (short.to_data(), a.to_data());
                let mut mu = arrow_data::transform::MutableArrayData::new(vec![&sd, &ad], false, 2 + n);
                mu.try_extend(0, 0, 2)?;
                mu.try_extend(1, 0, n)?;
                Ok(arrow_array::make_array(mu.freeze()))
            }), &want, &case);
            if n == 2 {
                let m2 = BooleanArray::from(vec![true, false]);
                let wantz = vec![short_rows[0].clone(), col[1].clone()];
                ev += 1;
                expect_rows(st, idx, "zip-aliased-dictionary", dt, catch(|| arrow_select::zip::zip(&m2, &short, &a)), &wantz, &case);
            }
        }
    }
    // ---- record batch forms (two columns: the array and a row id)
    if n > 0 {
        let ids: ArrayRef = Arc::new(Int32Array::from((0..n as i32).collect::<Vec<_>>()));
        let schema = Arc::new(Schema::new(vec![Field::new("v", dt.clone(), true), Field::new("id", DataType::Int32, false)]));
        if let Ok(batch) = RecordBatch::try_new(schema.clone(), vec![a.clone(), ids]) {
            let m: Vec<Option<bool>> = (0..n).map(|i| match i % 3 { 0 => Some(true), 1 => None, _ => Some(false) }).collect();
            let keep: Vec<usize> = (0..n).filter(|&i| m[i] == Some(true)).collect();
            let r = catch(|| arrow_select::filter::filter_record_batch(&batch, &BooleanArray::from(m.clone())));
            ev += 1;
            check_batch(st, idx, "filter_record_batch", dt, r, &keep.iter().map(|&i| col[i].clone()).collect::<Vec<_>>(), &keep, &case);
            let iv: Vec<u32> = (0..n as u32).rev().chain([0]).collect();
            let r = catch(|| arrow_select::take::take_record_batch(&batch, &UInt32Array::from(iv.clone())));
            ev += 1;
            check_batch(st, idx, "take_record_batch", dt, r, &iv.iter().map(|&i| col[i as usize].clone()).collect::<Vec<_>>(), &iv.iter().map(|&i| i as usize).collect::<Vec<_>>(), &case);
            let r = catch(|| arrow_select::concat::concat_batches(&schema, [&batch, &batch.slice(0, n - 1), &batch]));
            let order: Vec<usize> = (0..n).chain(0..n - 1).chain(0..n).collect();
            ev += 1;
            check_batch(st, idx, "concat_batches", dt, r, &order.iter().map(|&i| col[i].clone()).collect::<Vec<_>>(), &order, &case);
        }
    }
    st.add("kernels", ev, if n > 0 { ev } else { 0 });
}

fn check_batch(st: &mut Stats, order: u64, op: &str, dt: &DataType, got: Result<Result<RecordBatch, arrow_schema::ArrowError>, vcore::PanicInfo>, want: &[Val], want_ids: &[usize], case: &dyn Fn() -> vcore::serde_json::Value) {
    match got {
        Err(p) => st.violate(order, format!("c03:{op}:{}:{}", kind(dt), p.fingerprint()), format!("{p:?}"), case),
        Ok(Err(e)) => st.violate(order, format!("c03:{op}:unexpected-error:{}", kind(dt)), e.to_string(), case),
        Ok(Ok(b)) => {
            if let Err(e) = batch_validate(&b) {
                st.violate(order, format!("wf:{op}:{}:{}", e.split(':').next().unwrap_or(""), kind(dt)), e, case);
                return;
            }
            let rows = extract(b.column(0).as_ref());
            let ids: Vec<usize> = b.column(1).as_primitive::<arrow_array::types::Int32Type>().values().iter().map(|x| *x as usize).collect();
            if rows != want || ids != want_ids {
                st.violate(order, format!("c03:{op}:rows-differ:{}", kind(dt)), format!("got ids {ids:?} want {want_ids:?}"), case);
            }
        }
    }
}

// ---------------------------------------------------------------------------------------------
// structured selectivity families for filter (thresholds 0.8, len/16, 64-bit words)

fn families(ctx: &Ctx, st: &mut Stats) {
    let lens: Vec<usize> = vec![15, 16, 17, 63, 64, 65, 127, 128, 129, 130, 1023, 1024, 1025];
    let types = vec![DataType::Int32, DataType::Utf8, DataType::Boolean, DataType::Utf8View, vmodel::list_of(DataType::Int32), vmodel::dict_of(DataType::Int8, DataType::Utf8), DataType::FixedSizeBinary(3), vmodel::struct_of(vec![("a", DataType::Int32, true), ("b", DataType::Utf8, true)])];
    let mut cases: Vec<(usize, usize)> = vec![];
    for ti in 0..types.len() {
        for li in 0..lens.len() {
            cases.push((ti, li));
        }
    }
    st.merge(vcore::par_for_replayable(ctx, "filter-families", cases.len() as u64, 1, |idx, st| {
        let (ti, li) = cases[idx as usize];
        let (dt, l) = (&types[ti], lens[li]);
        let alpha = vmodel::alphabet(dt, 6);
        let col: Vec<Val> = (0..l).map(|i| if i % 7 == 3 { Val::Null } else { alpha[(i * 5 + i / 3) % alpha.len()].clone() }).collect();
        let mut mset: Vec<(String, Vec<Option<bool>>)> = vec![];
        mset.push(("all".into(), vec![Some(true); l]));
        mset.push(("none".into(), vec![Some(false); l]));
        mset.push(("alternate".into(), (0..l).map(|i| Some(i % 2 == 0)).collect()));
        mset.push(("runs8".into(), (0..l).map(|i| Some((i / 8) % 2 == 0)).collect()));
        mset.push(("nulls3".into(), (0..l).map(|i| if i % 3 == 0 { None } else { Some(i % 3 == 1) }).collect()));
        for p in [0, 1, l / 2, l - 2, l - 1, 63.min(l - 1), 64.min(l - 1)] {
            mset.push((format!("single({p})"), (0..l).map(|i| Some(i == p)).collect()));
            mset.push((format!("all-but({p})"), (0..l).map(|i| Some(i != p)).collect()));
        }
        for k in [1, l / 16, l / 16 + 1, (l * 4 / 5).saturating_sub(1), l * 4 / 5, l * 4 / 5 + 1] {
            let k = k.min(l);
            mset.push((format!("first({k})"), (0..l).map(|i| Some(i < k)).collect()));
            mset.push((format!("last({k})"), (0..l).map(|i| Some(i >= l - k)).collect()));
            mset.push((format!("spread({k})"), (0..l).map(|i| Some(k > 0 && (i * k) / l != ((i + 1) * k) / l)).collect()));
        }
        for lay in [Layout::compact(), Layout { slice: Some((1, 0)), ..Default::default() }, Layout { slice: Some((64, 1)), ..Default::default() }] {
            let Ok(a) = realise(dt, &col, &lay) else { continue };
            for (mname, m) in &mset {
                let want: Vec<Val> = (0..l).filter(|&i| m[i] == Some(true)).map(|i| col[i].clone()).collect();
                for moff in [0usize, 5] {
                    let mut ext = vec![Some(true); moff];
                    ext.extend(m.iter().cloned());
                    let ma = BooleanArray::from(ext).slice(moff, l);
                    let case = || json!({"sub":"filter-families","type":dt.to_string(),"len":l,"mask":mname,"mask_offset":moff,"layout":lay.name()});
                    expect_rows(st, idx, "filter-family", dt, catch(|| arrow_select::filter::filter(a.as_ref(), &ma)), &want, &case);
                    expect_rows(st, idx, "filter-family-optimized", dt, catch(|| arrow_select::filter::FilterBuilder::new(&ma).optimize().build().filter(a.as_ref())), &want, &case);
                    st.add("filter-families", 2, 2);
                }
            }
        }
        if idx == 3 {
            st.sample("filter-families", || json!({"type":dt.to_string(),"len":l,"masks":mset.iter().map(|m| m.0.clone()).collect::<Vec<_>>()}));
        }
    }));
}

// ---------------------------------------------------------------------------------------------
// Batch coalescer: explicit-state BFS over push / filter / indices / finish / next histories

#[derive(Clone, Debug, PartialEq, Eq, Hash)]
pub enum COp {
    Push(usize),
    PushFilter(u8),
    PushFilterNull(u8),
    PushSparse(usize, usize),
    PushIndices(u8),
    Finish,
    Next,
}

#[derive(Clone, Copy, Debug)]
enum CSchema {
    Int,
    View,
    IntUtf8,
    ViewInt,
    Empty,
}

struct CoalesceModel {
    target: usize,
    limit: Option<usize>,
    schema: CSchema,
}

fn c_schema(s: CSchema) -> SchemaRef {
    let f = match s {
        CSchema::Int => vec![Field::new("id", DataType::Int32, true)],
        CSchema::View => vec![Field::new("s", DataType::Utf8View, true)],
        CSchema::IntUtf8 => vec![Field::new("id", DataType::Int32, true), Field::new("t", DataType::Utf8, true)],
        CSchema::ViewInt => vec![Field::new("s", DataType::Utf8View, true), Field::new("id", DataType::Int32, true)],
        CSchema::Empty => vec![],
    };
    Arc::new(Schema::new(f))
}
fn row_text(id: u32) -> String {
    if id % 2 == 1 { format!("row-{id}-with a payload longer than twelve bytes") } else { format!("r{id}") }
}
fn c_batch(s: CSchema, ids: &[u32]) -> RecordBatch {
    let int: ArrayRef = Arc::new(Int32Array::from(ids.iter().map(|i| if i % 5 == 4 { None } else { Some(*i as i32) }).collect::<Vec<_>>()));
    let view: ArrayRef = Arc::new(StringViewArray::from(ids.iter().map(|i| Some(row_text(*i))).collect::<Vec<_>>()));
    let utf: ArrayRef = Arc::new(StringArray::from(ids.iter().map(|i| Some(row_text(*i))).collect::<Vec<_>>()));
    let cols = match s {
        CSchema::Int => vec![int],
        CSchema::View => vec![view],
        CSchema::IntUtf8 => vec![int, utf],
        CSchema::ViewInt => vec![view, int],
        CSchema::Empty => vec![],
    };
    RecordBatch::try_new_with_options(c_schema(s), cols, &RecordBatchOptions::new().with_row_count(Some(ids.len()))).unwrap()
}
/// read row identities back out of an emitted batch (via the text column when present, else ints)
fn c_ids(s: CSchema, b: &RecordBatch) -> Result<Vec<Option<u32>>, String> {
    let from_text = |a: &ArrayRef| -> Vec<Option<u32>> {
        (0..a.len())
            .map(|i| {
                let t = if let Some(v) = a.as_string_view_opt() { v.value(i).to_string() } else { a.as_string::<i32>().value(i).to_string() };
                t.trim_start_matches("row-").trim_start_matches('r').split('-').next().and_then(|x| x.parse().ok())
            })
            .collect()
    };
    let from_int = |a: &ArrayRef| -> Vec<Option<u32>> { a.as_primitive::<arrow_array::types::Int32Type>().iter().map(|x| x.map(|v| v as u32)).collect() };
    match s {
        CSchema::Int => Ok(from_int(b.column(0))),
        CSchema::View => Ok(from_text(b.column(0))),
        CSchema::IntUtf8 => {
            let (a, t) = (from_int(b.column(0)), from_text(b.column(1)));
            for (x, y) in a.iter().zip(&t) {
                if x.is_some() && x != y {
                    return Err(format!("columns disagree: {a:?} vs {t:?}"));
                }
            }
            Ok(t)
        }
        CSchema::ViewInt => {
            let (t, a) = (from_text(b.column(0)), from_int(b.column(1)));
            for (x, y) in a.iter().zip(&t) {
                if x.is_some() && x != y {
                    return Err(format!("columns disagree: {a:?} vs {t:?}"));
                }
            }
            Ok(t)
        }
        CSchema::Empty => Ok(vec![None; b.num_rows()]),
    }
}

impl CoalesceModel {
    fn all_ops(&self) -> Vec<COp> {
        let mut v = vec![];
        for r in [0usize, 1, 2, 3, 5] {
            v.push(COp::Push(r));
        }
        for m in 0..16u8 {
            v.push(COp::PushFilter(m));
        }
        for m in [0b0101u8, 0b1110] {
            v.push(COp::PushFilterNull(m));
        }
        for (l, k) in [(16usize, 1usize), (32, 1), (32, 2), (64, 3)] {
            v.push(COp::PushSparse(l, k));
        }
        for i in 0..3u8 {
            v.push(COp::PushIndices(i));
        }
        v.push(COp::Finish);
        v.push(COp::Next);
        v
    }
}

impl HistoryModel for CoalesceModel {
    type Op = COp;
    type Key = (Vec<bool>, Vec<Vec<bool>>, bool, bool);
    fn ops(&self) -> Vec<COp> {
        self.all_ops()
    }
    fn run(&self, hist: &[COp]) -> Step<Self::Key> {
        let (target, limit, schema) = (self.target, self.limit, self.schema);
        let r = catch(move || -> Result<Self::Key, (String, String)> {
            let mut c = BatchCoalescer::new(c_schema(schema), target).with_biggest_coalesce_batch_size(limit);
            let mut next_id: u32 = 0;
            let mut buffered: Vec<u32> = vec![]; // exact mode model
            let mut completed: VecDeque<Vec<u32>> = VecDeque::new();
            let mut pending: VecDeque<u32> = VecDeque::new(); // bypass mode: sequence of selected rows not yet emitted
            let mut finished_last = false;
            let exact = limit.is_none();
            let fp = |what: &str| format!("c03:coalescer:{what}");
            for (si, op) in hist.iter().enumerate() {
                let mut fresh = |n: usize| -> Vec<u32> {
                    let v: Vec<u32> = (next_id..next_id + n as u32).collect();
                    next_id += n as u32;
                    v
                };
                let mut selected: Vec<u32> = vec![];
                finished_last = false;
                match op {
                    COp::Push(r) => {
                        let ids = fresh(*r);
                        c.push_batch(c_batch(schema, &ids)).map_err(|e| (fp("push-error"), e.to_string()))?;
                        selected = ids;
                    }
                    COp::PushFilter(m) | COp::PushFilterNull(m) => {
                        let ids = fresh(4);
                        let with_null = matches!(op, COp::PushFilterNull(_));
                        let mask: Vec<Option<bool>> = (0..4).map(|i| if with_null && i == 1 { None } else { Some((m >> i) & 1 == 1) }).collect();
                        c.push_batch_with_filter(c_batch(schema, &ids), &BooleanArray::from(mask.clone())).map_err(|e| (fp("push-filter-error"), e.to_string()))?;
                        selected = (0..4).filter(|&i| mask[i] == Some(true)).map(|i| ids[i]).collect();
                    }
                    COp::PushSparse(l, k) => {
                        let ids = fresh(*l);
                        let pos: Vec<usize> = (0..*k).map(|j| (j * 13 + 5) % *l).collect();
                        let mask: Vec<bool> = (0..*l).map(|i| pos.contains(&i)).collect();
                        c.push_batch_with_filter(c_batch(schema, &ids), &BooleanArray::from(mask.clone())).map_err(|e| (fp("push-filter-error"), e.to_string()))?;
                        selected = (0..*l).filter(|&i| mask[i]).map(|i| ids[i]).collect();
                    }
                    COp::PushIndices(v) => {
                        let ids = fresh(3);
                        let iv: Vec<u64> = match v {
                            0 => vec![2, 0],
                            1 => vec![1, 1, 0, 2, 2],
                            _ => vec![],
                        };
                        c.push_batch_with_indices(c_batch(schema, &ids), &UInt64Array::from(iv.clone())).map_err(|e| (fp("push-indices-error"), e.to_string()))?;
                        selected = iv.iter().map(|&i| ids[i as usize]).collect();
                    }
                    COp::Finish => {
                        c.finish_buffered_batch().map_err(|e| (fp("finish-error"), e.to_string()))?;
                        if !buffered.is_empty() {
                            completed.push_back(std::mem::take(&mut buffered));
                        }
                        finished_last = true;
                    }
                    COp::Next => {
                        let got = c.next_completed_batch();
                        if exact {
                            let want = completed.pop_front();
                            match (got, want) {
                                (None, None) => {}
                                (Some(b), Some(w)) => {
                                    batch_validate(&b).map_err(|e| (format!("wf:coalescer:{}", e.split(':').next().unwrap_or("")), e))?;
                                    let ids = c_ids(schema, &b).map_err(|e| (fp("columns-disagree"), e))?;
                                    let wv: Vec<Option<u32>> = w.iter().map(|x| Some(*x)).collect();
                                    let same = if matches!(schema, CSchema::Empty) { ids.len() == wv.len() } else if matches!(schema, CSchema::Int) { ids.iter().zip(&wv).all(|(g, w)| g.is_none() && w.unwrap() % 5 == 4 || g == w) && ids.len() == wv.len() } else { ids == wv };
                                    if !same {
                                        return Err((fp("emitted-rows-differ"), format!("step {si}: got {ids:?} want {wv:?}")));
                                    }
                                }
                                (g, w) => return Err((fp("completed-queue-differs"), format!("step {si}: got {:?} rows, model {:?}", g.map(|b| b.num_rows()), w.map(|w| w.len())))),
                            }
                        } else if let Some(b) = got {
                            batch_validate(&b).map_err(|e| (format!("wf:coalescer:{}", e.split(':').next().unwrap_or("")), e))?;
                            let ids = c_ids(schema, &b).map_err(|e| (fp("columns-disagree"), e))?;
                            for g in ids {
                                let w = pending.pop_front();
                                let ok = match (g, w) {
                                    (_, None) => false,
                                    (None, Some(w)) => matches!(schema, CSchema::Empty) || (matches!(schema, CSchema::Int) && w % 5 == 4),
                                    (Some(g), Some(w)) => g == w,
                                };
                                if !ok {
                                    return Err((fp("bypass-row-sequence"), format!("step {si}: emitted {g:?}, next expected {w:?}")));
                                }
                            }
                        }
                    }
                }
                // model update for pushes
                if exact {
                    buffered.extend(selected);
                    while buffered.len() >= target {
                        let rest = buffered.split_off(target);
                        completed.push_back(std::mem::replace(&mut buffered, rest));
                    }
                    // observable counters
                    if c.get_buffered_rows() != buffered.len() {
                        return Err((fp("buffered-rows"), format!("step {si} {op:?}: get_buffered_rows()={} model {}", c.get_buffered_rows(), buffered.len())));
                    }
                    if c.has_completed_batch() != !completed.is_empty() {
                        return Err((fp("has-completed-batch"), format!("step {si} {op:?}: {} vs model {}", c.has_completed_batch(), !completed.is_empty())));
                    }
                    if c.is_empty() != (buffered.is_empty() && completed.is_empty()) {
                        return Err((fp("is-empty"), format!("step {si} {op:?}")));
                    }
                } else {
                    pending.extend(selected);
                }
            }
            // drain: finish + next until empty; everything selected must come out, in order
            let key_buffered: Vec<bool> = buffered.iter().map(|x| x % 2 == 1).collect();
            let key_completed: Vec<Vec<bool>> = completed.iter().map(|b| b.iter().map(|x| x % 2 == 1).collect()).collect();
            let key = if exact { (key_buffered, key_completed, next_id % 2 == 1, finished_last) } else { (pending.iter().map(|x| x % 2 == 1).collect(), vec![vec![c.has_completed_batch(), c.get_buffered_rows() > 0], vec![c.get_buffered_rows() % 2 == 1]], next_id % 2 == 1, finished_last) };
            c.finish_buffered_batch().map_err(|e| (fp("finish-error"), e.to_string()))?;
            if exact && !buffered.is_empty() {
                completed.push_back(std::mem::take(&mut buffered));
            }
            let mut drained: Vec<Option<u32>> = vec![];
            let mut sizes = vec![];
            while let Some(b) = c.next_completed_batch() {
                batch_validate(&b).map_err(|e| (format!("wf:coalescer:{}", e.split(':').next().unwrap_or("")), e))?;
                sizes.push(b.num_rows());
                drained.extend(c_ids(schema, &b).map_err(|e| (fp("columns-disagree"), e))?);
            }
            let want: Vec<u32> = if exact { completed.iter().flatten().cloned().collect() } else { pending.iter().cloned().collect() };
            let ok = drained.len() == want.len()
                && drained.iter().zip(&want).all(|(g, w)| match g {
                    Some(g) => g == w,
                    None => matches!(schema, CSchema::Empty) || (matches!(schema, CSchema::Int) && w % 5 == 4),
                });
            if !ok {
                return Err((fp("drain-rows-differ"), format!("drained {drained:?} want {want:?}")));
            }
            if exact {
                let want_sizes: Vec<usize> = completed.iter().map(|b| b.len()).collect();
                if sizes != want_sizes {
                    return Err((fp("batch-sizes"), format!("got {sizes:?} want {want_sizes:?}")));
                }
            }
            if !c.is_empty() {
                return Err((fp("not-empty-after-drain"), String::new()));
            }
            Ok(key)
        });
        match r {
            Ok(Ok(k)) => Step::State { key: k, terminal: false },
            Ok(Err((f, m))) => Step::Violation(f, m),
            Err(p) => Step::Violation(format!("c03:coalescer:{}", p.fingerprint()), format!("{p:?}")),
        }
    }
}

pub fn run(ctx: &Ctx) -> ! {
    let mut st = Stats::new();
    let grid = grid_core();
    let n_len = ctx.pick(3, 4);
    let mut cases: Vec<(usize, Vec<Val>, Layout)> = vec![];
    for (ti, dt) in grid.iter().enumerate() {
        let lays = layouts_1(dt);
        for col in columns(dt, 3, n_len, true) {
            for l in &lays {
                cases.push((ti, col.clone(), l.clone()));
            }
        }
    }
    st.merge(vcore::par_for_replayable(ctx, "kernels", cases.len() as u64, 4, |idx, st| {
        let (ti, col, lay) = &cases[idx as usize];
        let dt = &grid[*ti];
        // second operands: two fixed 2-row columns of the same type, [l1, l0] (two different values, for
        // view types an out-of-line value followed by an inline one) and [null, l1]
        let al = vmodel::alphabet(dt, 3);
        let l0 = al.first().cloned().unwrap_or(Val::Null);
        let l1 = al.get(1).cloned().unwrap_or(l0.clone());
        let nul = if matches!(dt, DataType::Union(_, _)) { l0.clone() } else { Val::Null };
        let other = vec![l1.clone(), l0.clone()];
        kernels_on(ctx, st, idx, dt, col, lay, &other, true);
        kernels_on(ctx, st, idx, dt, col, lay, &[nul, l1], false);
        if idx as usize == cases.len() / 2 {
            st.sample("kernels", || json!({"column":col_json(dt, col),"layout":lay.name(),"second_operand":col_json(dt, &other)}));
        }
    }));
    families(ctx, &mut st);
    let replay_sub = vcore::replay_target(ctx).map(|t| t.0);

    // coalescer
    let depth = ctx.pick(4, 5);
    let targets: Vec<usize> = vec![1, 2, 3, 5];
    let limits: Vec<Option<usize>> = vec![None, Some(2), Some(4)];
    let schemas = [CSchema::Int, CSchema::View, CSchema::IntUtf8, CSchema::ViewInt, CSchema::Empty];
    let mut configs: Vec<(CSchema, usize, Option<usize>)> = vec![];
    for schema in schemas {
        for &target in &targets {
            for &limit in &limits {
                if ctx.quick() && limit.is_some() && !matches!(schema, CSchema::Int | CSchema::View) {
                    continue;
                }
                configs.push((schema, target, limit));
            }
        }
    }
    // the configurations are independent explorations: run them in parallel, each BFS single-threaded
    if ctx.replay.is_some() && !replay_sub.as_deref().is_some_and(|s| s.starts_with("coalescer")) {
        configs.clear();
    }
    st.merge(par_for(ctx, "coalescer", configs.len() as u64, 1, |i, st| {
        let (schema, target, limit) = configs[i as usize];
        let m = CoalesceModel { target, limit, schema };
        let mut s = Stats::new();
        let label = format!("coalescer-{schema:?}-t{target}-l{limit:?}");
        if replay_sub.as_deref().is_some_and(|s| s != label) {
            return;
        }
        vcore::bfs::explore_with_threads(ctx, 1, &label, &m, depth, true, &mut s);
        s.add("coalescer", s.transitions, s.states);
        // violation order keys must not collide with the kernel part
        st.merge(s);
    }));
    st.extra.insert("coalescer_depth".into(), json!(depth));
    vcore::finish(
        ctx,
        Level {
            category: "model_checking",
            rule: "kernels: every grid type x column (len <= N, 3 letters + null) x layout (<=1 deviation) x {every mask in {T,F,null}^n for filter/nullif/zip, every index vector of length <= 2 (3) incl. null and duplicates for take over 4 index types, every slice, every shift, concat and every interleave index list of length <= 2 with a second array}; structured filter families crossing the 0.8 / len-16 / 64-bit thresholds; coalescer: BFS over all histories of push / filtered push / sparse push / indexed push / finish / next up to the stated depth for every (schema, target size, bypass limit), states deduplicated by (buffered rows, completed queue, id parity), every transition executed on the real coalescer and compared with a row-id model".into(),
            assumptions: vec![
                "union arrays have no validity of their own, so null indices / shift / nullif are not applied to union columns".into(),
                "with a large-batch bypass limit only the emitted row sequence is constrained (as the property states)".into(),
            ],
            exhaustive_space: "grid_core x columns(N) x layouts_1 x per-kernel argument spaces; coalescer histories to depth".into(),
        },
        st,
    )
}
