//! C09 — checked constructors never accept a malformed array layout.
//! Start from valid ArrayData (grid x small columns x layouts), apply every single mutilation from a
//! type-agnostic operator menu, feed the result to the validating entry points; oracle:
//! accepted => the independent spec validator accepts, and every safe accessor stays in bounds.
use arrow_array::{Array, ArrayRef, BooleanArray, RecordBatch, UInt32Array, make_array};
use arrow_buffer::{Buffer, MutableBuffer, NullBuffer};
use arrow_data::{ArrayData, ArrayDataBuilder};
use arrow_schema::{DataType, Field, Schema, UnionMode};
use std::sync::Arc;
use vcore::serde_json::json;
use vcore::{Ctx, Level, Stats, catch};
use vmodel::build::{Layout, layouts_1, realise};
use vmodel::extract::extract;
use vmodel::validate::spec_validate;
use vmodel::{Val, col_json, columns, grid_core};

#[derive(Clone)]
struct Parts {
    dt: DataType,
    len: usize,
    offset: usize,
    nulls: Option<Buffer>,
    /// declared null count when building through the builder (None = computed)
    null_count: Option<usize>,
    buffers: Vec<Buffer>,
    children: Vec<ArrayData>,
}

fn parts_of(d: &ArrayData) -> Parts {
    // materialise validity as a plain bitmap aligned with data.offset (what try_new takes)
    let nulls = d.nulls().map(|n| {
        let mut b = MutableBuffer::new_null(d.offset() + d.len());
        for i in 0..d.len() {
            if n.is_valid(i) {
                arrow_buffer::bit_util::set_bit(b.as_slice_mut(), d.offset() + i);
            }
        }
        // rows before the offset: valid (arbitrary)
        for i in 0..d.offset() {
            arrow_buffer::bit_util::set_bit(b.as_slice_mut(), i);
        }
        b.into()
    });
    Parts { dt: d.data_type().clone(), len: d.len(), offset: d.offset(), nulls, null_count: None, buffers: d.buffers().to_vec(), children: d.child_data().to_vec() }
}

/// element width of buffer `i` of type `dt` for cell patching (bytes), and whether cells are signed ints
fn cell_width(dt: &DataType, i: usize) -> usize {
    use DataType::*;
    match (dt, i) {
        (Utf8 | Binary | List(_) | Map(_, _) | ListView(_), 0) => 4,
        (LargeUtf8 | LargeBinary | LargeList(_) | LargeListView(_), 0) => 8,
        (ListView(_), 1) => 4,
        (LargeListView(_), 1) => 8,
        (Utf8View | BinaryView, 0) => 4,
        (Dictionary(k, _), 0) => k.primitive_width().unwrap_or(1),
        (Union(_, _), 0) => 1,
        (Union(_, UnionMode::Dense), 1) => 4,
        _ => 1,
    }
}

#[derive(Clone, Debug)]
enum Mut {
    None,
    Len(i64),
    LenHuge,
    Offset(i64),
    OffsetHuge,
    DropBuffer,
    AddBuffer,
    TruncBuffer(usize, usize),
    MisalignBuffer(usize),
    NullsShort,
    NullsOnForbidden,
    NullCount(i64),
    DropChild,
    AddChild,
    ChildType(usize),
    ChildShort(usize),
    ChildLong(usize),
    /// patch cell `cell` (of width w) of buffer `buf` with replacement `rep`
    Cell { buf: usize, cell: usize, rep: u8 },
    /// recursively mutilate child `c`'s cell
    ChildCell { child: usize, buf: usize, cell: usize, rep: u8 },
}

fn mut_class(m: &Mut) -> String {
    match m {
        Mut::None => "none".into(),
        Mut::Len(d) => format!("len{d:+}"),
        Mut::LenHuge => "len-huge".into(),
        Mut::Offset(d) => format!("offset{d:+}"),
        Mut::OffsetHuge => "offset-huge".into(),
        Mut::DropBuffer => "drop-buffer".into(),
        Mut::AddBuffer => "add-buffer".into(),
        Mut::TruncBuffer(b, _) => format!("truncate-buffer{b}"),
        Mut::MisalignBuffer(b) => format!("misalign-buffer{b}"),
        Mut::NullsShort => "validity-short".into(),
        Mut::NullsOnForbidden => "validity-on-forbidden-type".into(),
        Mut::NullCount(_) => "wrong-null-count".into(),
        Mut::DropChild => "drop-child".into(),
        Mut::AddChild => "add-child".into(),
        Mut::ChildType(_) => "child-wrong-type".into(),
        Mut::ChildShort(_) => "child-short".into(),
        Mut::ChildLong(_) => "child-long".into(),
        Mut::Cell { buf, rep, .. } => format!("cell-buffer{buf}-rep{rep}"),
        Mut::ChildCell { child, buf, rep, .. } => format!("child{child}-cell-buffer{buf}-rep{rep}"),
    }
}

const N_REP: u8 = 8;
fn patch(buf: &Buffer, w: usize, cell: usize, rep: u8, child_len: usize) -> Option<Buffer> {
    let mut v = buf.as_slice().to_vec();
    if (cell + 1) * w > v.len() {
        return None;
    }
    let cur: i128 = match w {
        1 => v[cell] as i8 as i128,
        4 => i32::from_le_bytes(v[cell * 4..cell * 4 + 4].try_into().unwrap()) as i128,
        8 => i64::from_le_bytes(v[cell * 8..cell * 8 + 8].try_into().unwrap()) as i128,
        2 => i16::from_le_bytes(v[cell * 2..cell * 2 + 2].try_into().unwrap()) as i128,
        _ => return None,
    };
    let newv: i128 = match rep {
        0 => -1,
        1 => cur + 1,
        2 => cur - 1,
        3 => child_len as i128,
        4 => child_len as i128 + 1,
        5 => match w { 1 => i8::MAX as i128, 2 => i16::MAX as i128, 4 => i32::MAX as i128, _ => i64::MAX as i128 },
        6 => 0x80, // invalid UTF-8 continuation byte / arbitrary
        _ => 0,
    };
    if newv == cur {
        return None;
    }
    let bytes = (newv as i64).to_le_bytes();
    v[cell * w..cell * w + w].copy_from_slice(&bytes[..w]);
    // keep the allocation aligned like the original (Vec<u8> -> realloc into 64-byte aligned MutableBuffer)
    let mut mb = MutableBuffer::new(v.len());
    mb.extend_from_slice(&v);
    Some(mb.into())
}

fn values_len(p: &Parts) -> usize {
    use DataType::*;
    match &p.dt {
        Utf8 | Binary | LargeUtf8 | LargeBinary => p.buffers.get(1).map(|b| b.len()).unwrap_or(0),
        _ => p.children.first().map(|c| c.len()).unwrap_or(0),
    }
}

fn apply(p: &Parts, m: &Mut) -> Option<Parts> {
    let mut q = p.clone();
    match m {
        Mut::None => {}
        Mut::Len(d) => q.len = (p.len as i64 + d).try_into().ok()?,
        Mut::LenHuge => q.len = usize::MAX - p.offset,
        Mut::Offset(d) => q.offset = (p.offset as i64 + d).try_into().ok()?,
        Mut::OffsetHuge => q.offset = usize::MAX - p.len + 1,
        Mut::DropBuffer => {
            q.buffers.pop()?;
        }
        Mut::AddBuffer => q.buffers.push(Buffer::from_vec(vec![0u8; 16])),
        Mut::TruncBuffer(i, by) => {
            let b = q.buffers.get(*i)?;
            if b.len() < *by {
                return None;
            }
            q.buffers[*i] = b.slice_with_length(0, b.len() - by);
        }
        Mut::MisalignBuffer(i) => {
            let b = q.buffers.get(*i)?;
            let mut v = vec![0u8];
            v.extend_from_slice(b.as_slice());
            let mut mb = MutableBuffer::new(v.len());
            mb.extend_from_slice(&v);
            let nb: Buffer = mb.into();
            q.buffers[*i] = nb.slice(1);
        }
        Mut::NullsShort => {
            let n = q.nulls.as_ref()?;
            let need = (p.offset + p.len).div_ceil(8);
            if need == 0 {
                return None;
            }
            q.nulls = Some(n.slice_with_length(0, need - 1));
        }
        Mut::NullsOnForbidden => {
            if !matches!(p.dt, DataType::Null | DataType::Union(_, _) | DataType::RunEndEncoded(_, _)) || p.len == 0 {
                return None;
            }
            let mut b = MutableBuffer::new_null(p.offset + p.len);
            arrow_buffer::bit_util::set_bit(b.as_slice_mut(), 0);
            q.nulls = Some(b.into());
        }
        Mut::NullCount(d) => {
            let n = q.nulls.as_ref()?;
            let actual = p.len - n.count_set_bits_offset(p.offset, p.len);
            q.null_count = Some((actual as i64 + d).try_into().ok()?);
        }
        Mut::DropChild => {
            q.children.pop()?;
        }
        Mut::AddChild => q.children.push(ArrayData::new_empty(&DataType::Int32)),
        Mut::ChildType(i) => {
            let c = q.children.get(*i)?;
            let other = if c.data_type() == &DataType::Int64 { DataType::Int32 } else { DataType::Int64 };
            q.children[*i] = ArrayData::new_null(&other, c.len());
        }
        Mut::ChildShort(i) => {
            let c = q.children.get(*i)?;
            if c.is_empty() {
                return None;
            }
            q.children[*i] = c.slice(0, c.len() - 1);
        }
        Mut::ChildLong(i) => {
            // benign control: a longer child
            let c = q.children.get(*i)?;
            let a = make_array(c.clone());
            let cat = arrow_select::concat::concat(&[a.as_ref(), a.as_ref()]).ok()?;
            q.children[*i] = cat.to_data();
        }
        Mut::Cell { buf, cell, rep } => {
            let w = cell_width(&p.dt, *buf);
            let b = q.buffers.get(*buf)?;
            q.buffers[*buf] = patch(b, w, *cell, *rep, values_len(p))?;
        }
        Mut::ChildCell { child, buf, cell, rep } => {
            let c = q.children.get(*child)?.clone();
            let cp = parts_of(&c);
            let w = cell_width(&cp.dt, *buf);
            let b = cp.buffers.get(*buf)?;
            let nb = patch(b, w, *cell, *rep, values_len(&cp))?;
            let mut bufs = cp.buffers.clone();
            bufs[*buf] = nb;
            // rebuild the child unchecked: the *parent's* validation must catch it
            let nd = unsafe { ArrayDataBuilder::new(cp.dt.clone()).len(cp.len).offset(cp.offset).nulls(c.nulls().cloned()).buffers(bufs).child_data(cp.children.clone()).build_unchecked() };
            q.children[*child] = nd;
        }
    }
    Some(q)
}

fn menu(p: &Parts) -> Vec<Mut> {
    let mut v = vec![Mut::None, Mut::Len(1), Mut::Len(-1), Mut::LenHuge, Mut::Offset(1), Mut::Offset(-1), Mut::OffsetHuge, Mut::DropBuffer, Mut::AddBuffer, Mut::NullsShort, Mut::NullsOnForbidden, Mut::NullCount(1), Mut::NullCount(-1), Mut::DropChild, Mut::AddChild];
    for (i, b) in p.buffers.iter().enumerate() {
        let w = cell_width(&p.dt, i).max(1);
        v.push(Mut::TruncBuffer(i, 1));
        v.push(Mut::TruncBuffer(i, w));
        v.push(Mut::MisalignBuffer(i));
        let cells = (b.len() / w).min(24);
        for c in 0..cells {
            for rep in 0..N_REP {
                v.push(Mut::Cell { buf: i, cell: c, rep });
            }
        }
    }
    for (ci, c) in p.children.iter().enumerate() {
        v.push(Mut::ChildType(ci));
        v.push(Mut::ChildShort(ci));
        v.push(Mut::ChildLong(ci));
        for (bi, b) in c.buffers().iter().enumerate() {
            let w = cell_width(c.data_type(), bi).max(1);
            for cell in 0..(b.len() / w).min(12) {
                for rep in 0..N_REP {
                    v.push(Mut::ChildCell { child: ci, buf: bi, cell, rep });
                }
            }
        }
    }
    v
}

#[derive(Debug, Clone, Copy, PartialEq, Eq)]
enum Entry {
    TryNew,
    Builder,
    BuilderAlign,
    ValidateFull,
    /// the typed constructors (`PrimitiveArray::try_new`, `GenericByteArray::try_new`, `OffsetBuffer::new`,
    /// `GenericListArray::try_new`, `UnionArray::try_new`, `DictionaryArray::try_new`, `RunArray::try_new`, ...)
    Typed,
}

fn construct(p: &Parts, e: Entry) -> Result<ArrayData, String> {
    match e {
        Entry::Typed => typed(p),
        Entry::TryNew => ArrayData::try_new(p.dt.clone(), p.len, p.nulls.clone(), p.offset, p.buffers.clone(), p.children.clone()).map_err(|e| e.to_string()),
        Entry::Builder | Entry::BuilderAlign => {
            let mut b = ArrayDataBuilder::new(p.dt.clone()).len(p.len).offset(p.offset).null_bit_buffer(p.nulls.clone()).buffers(p.buffers.clone()).child_data(p.children.clone());
            if let Some(nc) = p.null_count {
                b = b.null_count(nc);
            }
            if e == Entry::BuilderAlign {
                b = b.align_buffers(true);
            }
            b.build().map_err(|e| e.to_string())
        }
        Entry::ValidateFull => {
            // new_unchecked data followed by the explicit full validation
            if p.nulls.as_ref().is_some_and(|n| n.len() * 8 < p.offset.saturating_add(p.len)) {
                // constructing a NullBuffer over a too-short bitmap panics inside new_unchecked's own
                // assertions (documented precondition of BooleanBuffer::new); not a validating entry point
                return Err("precondition".into());
            }
            if p.len.checked_add(p.offset).is_none() {
                return Err("precondition".into());
            }
            let mut b = ArrayDataBuilder::new(p.dt.clone()).len(p.len).offset(p.offset).null_bit_buffer(p.nulls.clone()).buffers(p.buffers.clone()).child_data(p.children.clone());
            if let Some(nc) = p.null_count {
                b = b.null_count(nc);
            }
            let d = unsafe { b.build_unchecked() };
            d.validate_full().map_err(|e| e.to_string())?;
            Ok(d)
        }
    }
}


/// Build the array through its *typed* checked constructor from the (mutilated) raw parts.
/// A panic inside a `new`-style constructor whose documentation lists the panic (OffsetBuffer::new,
/// ScalarBuffer::new, BooleanBuffer::new, NullBuffer over a short bitmap) counts as a rejection.
fn typed(p: &Parts) -> Result<ArrayData, String> {
    use arrow_array::types::*;
    use arrow_array::*;
    use arrow_buffer::{BooleanBuffer, OffsetBuffer, ScalarBuffer};
    use DataType::*;
    let len = p.len;
    if len > 1 << 20 {
        return Err("precondition: typed constructors derive the length from their buffers".into());
    }
    let r = catch(|| -> Result<ArrayData, String> {
        let nulls = match &p.nulls {
            Some(b) => Some(NullBuffer::new(BooleanBuffer::new(b.clone(), 0, len))),
            None => None,
        };
        let buf = |i: usize| p.buffers.get(i).cloned().ok_or_else(|| "missing buffer".to_string());
        let child = |i: usize| p.children.get(i).map(|c| make_array(c.clone())).ok_or_else(|| "missing child".to_string());
        if p.buffers.len() > 3 && !matches!(p.dt, Utf8View | BinaryView) {
            return Err("typed constructors have no slot for extra buffers".into());
        }
        macro_rules! prim {
            ($t:ty) => {{
                let v = ScalarBuffer::<<$t as ArrowPrimitiveType>::Native>::new(buf(0)?, 0, len);
                PrimitiveArray::<$t>::try_new(v, nulls).map(|a| a.with_data_type(p.dt.clone()).into_data()).map_err(|e| e.to_string())
            }};
        }
        macro_rules! bytes {
            ($t:ty, $o:ty) => {{
                let offs = OffsetBuffer::new(ScalarBuffer::<$o>::new(buf(0)?, 0, len + 1));
                GenericByteArray::<$t>::try_new(offs, buf(1)?, nulls).map(|a| a.into_data()).map_err(|e| e.to_string())
            }};
        }
        macro_rules! list {
            ($o:ty, $f:expr) => {{
                let offs = OffsetBuffer::new(ScalarBuffer::<$o>::new(buf(0)?, 0, len + 1));
                GenericListArray::<$o>::try_new($f.clone(), offs, child(0)?, nulls).map(|a| a.into_data()).map_err(|e| e.to_string())
            }};
        }
        macro_rules! lview {
            ($o:ty, $f:expr) => {{
                let offs = ScalarBuffer::<$o>::new(buf(0)?, 0, len);
                let sizes = ScalarBuffer::<$o>::new(buf(1)?, 0, len);
                GenericListViewArray::<$o>::try_new($f.clone(), offs, sizes, child(0)?, nulls).map(|a| a.into_data()).map_err(|e| e.to_string())
            }};
        }
        macro_rules! dict {
            ($k:ty) => {{
                let keys = PrimitiveArray::<$k>::try_new(ScalarBuffer::<<$k as ArrowPrimitiveType>::Native>::new(buf(0)?, 0, len), nulls).map_err(|e| e.to_string())?;
                DictionaryArray::<$k>::try_new(keys, child(0)?).map(|a| a.into_data()).map_err(|e| e.to_string())
            }};
        }
        macro_rules! ree {
            ($r:ty) => {{
                let re = child(0)?;
                let re = re.as_any().downcast_ref::<PrimitiveArray<$r>>().ok_or("run ends type")?.clone();
                let a = RunArray::<$r>::try_new(&re, child(1)?.as_ref()).map_err(|e| e.to_string())?;
                if a.len() != len {
                    // RunArray::try_new derives the length from the last run end
                    return Err("precondition: length is derived".into());
                }
                Ok(a.into_data())
            }};
        }
        if p.nulls.is_some() && matches!(p.dt, Null | Union(_, _) | RunEndEncoded(_, _)) {
            return Err("typed constructor has no validity argument".into());
        }
        match &p.dt {
            Boolean => Ok(BooleanArray::new(BooleanBuffer::new(buf(0)?, 0, len), nulls).into_data()),
            Int8 => prim!(Int8Type),
            Int16 => prim!(Int16Type),
            Int32 => prim!(Int32Type),
            Int64 => prim!(Int64Type),
            UInt8 => prim!(UInt8Type),
            UInt16 => prim!(UInt16Type),
            UInt32 => prim!(UInt32Type),
            UInt64 => prim!(UInt64Type),
            Float16 => prim!(Float16Type),
            Float32 => prim!(Float32Type),
            Float64 => prim!(Float64Type),
            Decimal128(_, _) => prim!(Decimal128Type),
            Decimal256(_, _) => prim!(Decimal256Type),
            Date32 => prim!(Date32Type),
            Timestamp(arrow_schema::TimeUnit::Nanosecond, _) => prim!(TimestampNanosecondType),
            Interval(arrow_schema::IntervalUnit::MonthDayNano) => prim!(IntervalMonthDayNanoType),
            Utf8 => bytes!(Utf8Type, i32),
            LargeUtf8 => bytes!(LargeUtf8Type, i64),
            Binary => bytes!(BinaryType, i32),
            LargeBinary => bytes!(LargeBinaryType, i64),
            Utf8View => {
                let views = ScalarBuffer::<u128>::new(buf(0)?, 0, len);
                StringViewArray::try_new(views, p.buffers[1..].to_vec(), nulls).map(|a| a.into_data()).map_err(|e| e.to_string())
            }
            BinaryView => {
                let views = ScalarBuffer::<u128>::new(buf(0)?, 0, len);
                BinaryViewArray::try_new(views, p.buffers[1..].to_vec(), nulls).map(|a| a.into_data()).map_err(|e| e.to_string())
            }
            FixedSizeBinary(k) => FixedSizeBinaryArray::try_new_with_len(*k, buf(0)?, nulls, len).map(|a| a.into_data()).map_err(|e| e.to_string()),
            List(f) => list!(i32, f),
            LargeList(f) => list!(i64, f),
            ListView(f) => lview!(i32, f),
            LargeListView(f) => lview!(i64, f),
            FixedSizeList(f, k) => FixedSizeListArray::try_new_with_length(f.clone(), *k, child(0)?, nulls, len).map(|a| a.into_data()).map_err(|e| e.to_string()),
            Struct(fs) => {
                let cols: Result<Vec<ArrayRef>, String> = (0..p.children.len()).map(child).collect();
                StructArray::try_new_with_length(fs.clone(), cols?, nulls, len).map(|a| a.into_data()).map_err(|e| e.to_string())
            }
            Map(f, ordered) => {
                let offs = OffsetBuffer::new(ScalarBuffer::<i32>::new(buf(0)?, 0, len + 1));
                let entries = child(0)?;
                let entries = entries.as_any().downcast_ref::<StructArray>().ok_or("entries type")?.clone();
                MapArray::try_new(f.clone(), offs, entries, nulls, *ordered).map(|a| a.into_data()).map_err(|e| e.to_string())
            }
            Dictionary(k, _) => match k.as_ref() {
                Int8 => dict!(Int8Type),
                UInt16 => dict!(UInt16Type),
                Int32 => dict!(Int32Type),
                _ => Err("precondition: key type not driven".into()),
            },
            RunEndEncoded(r, _) => match r.data_type() {
                Int16 => ree!(Int16Type),
                Int32 => ree!(Int32Type),
                Int64 => ree!(Int64Type),
                _ => Err("run end type".into()),
            },
            Union(fs, mode) => {
                let tids = ScalarBuffer::<i8>::new(buf(0)?, 0, len);
                let offs = match mode {
                    UnionMode::Dense => Some(ScalarBuffer::<i32>::new(buf(1)?, 0, len)),
                    UnionMode::Sparse => None,
                };
                let cols: Result<Vec<ArrayRef>, String> = (0..p.children.len()).map(child).collect();
                UnionArray::try_new(fs.clone(), tids, offs, cols?).map(|a| a.into_data()).map_err(|e| e.to_string())
            }
            _ => Err("precondition: type not driven through a typed constructor".into()),
        }
    });
    match r {
        Ok(x) => x,
        Err(p) => Err(format!("panic(documented precondition of a new-style constructor): {}", p.msg)),
    }
}

/// exercise safe accessors and kernels of an accepted array; Err(fingerprint-ish) on panic
fn exercise(d: &ArrayData) -> Result<(), String> {
    let r = catch(|| {
        let a: ArrayRef = make_array(d.clone());
        let _ = extract(a.as_ref());
        let _ = a.null_count();
        let _ = a.logical_null_count();
        if let Ok(f) = arrow_cast::display::ArrayFormatter::try_new(a.as_ref(), &Default::default()) {
            for i in 0..a.len() {
                let _ = f.value(i).try_to_string();
            }
        }
        for o in 0..=a.len() {
            let s = a.slice(o, a.len() - o);
            let _ = extract(s.as_ref());
        }
        let _ = a.to_data() == a.to_data();
        let idx = UInt32Array::from((0..a.len() as u32).rev().collect::<Vec<_>>());
        if let Ok(t) = arrow_select::take::take(a.as_ref(), &idx, None) {
            let _ = extract(t.as_ref());
        }
        let mask = BooleanArray::from((0..a.len()).map(|i| i % 2 == 0).collect::<Vec<_>>());
        if let Ok(t) = arrow_select::filter::filter(a.as_ref(), &mask) {
            let _ = extract(t.as_ref());
        }
        if let Ok(t) = arrow_select::concat::concat(&[a.as_ref(), a.as_ref()]) {
            let _ = extract(t.as_ref());
        }
        if let Ok(t) = arrow_cast::cast(a.as_ref(), &DataType::Utf8) {
            let _ = extract(t.as_ref());
        }
    });
    r.map_err(|p| p.fingerprint())
}

fn kind(dt: &DataType) -> String {
    crate::c02::type_kind(dt)
}

pub fn run(ctx: &Ctx) -> ! {
    let mut st = Stats::new();
    let grid = grid_core();
    let n_len = ctx.pick(2, 3);
    let mut cases: Vec<(usize, Vec<Val>, Layout)> = vec![];
    for (ti, dt) in grid.iter().enumerate() {
        let lays: Vec<Layout> = layouts_1(dt).into_iter().filter(|l| l.slice.is_none_or(|(p, _)| p <= 9)).collect();
        // 4 letters so that string alphabets contain a multi-byte character (offsets inside a code point)
        for col in columns(dt, 4, n_len, true) {
            for l in &lays {
                cases.push((ti, col.clone(), l.clone()));
            }
        }
    }
    let entries = [Entry::TryNew, Entry::Builder, Entry::BuilderAlign, Entry::ValidateFull, Entry::Typed];
    st.merge(vcore::par_for_replayable(ctx, "mutilations", cases.len() as u64, 8, |idx, st| {
        let (ti, col, lay) = &cases[idx as usize];
        let dt = &grid[*ti];
        let Ok(a) = realise(dt, col, lay) else { return };
        let d = a.to_data();
        let p = parts_of(&d);
        let mut evals = 0u64;
        let mut rejected = 0u64;
        let mut benign = 0u64;
        for m in menu(&p) {
            let Some(q) = apply(&p, &m) else { continue };
            for e in entries {
                if matches!(m, Mut::NullCount(_)) && e == Entry::TryNew {
                    continue; // try_new computes the null count itself
                }
                if e == Entry::Typed && (q.offset != 0 || p.offset != 0 || matches!(m, Mut::NullCount(_) | Mut::ChildCell { .. })) {
                    continue; // typed constructors take no offset / null count; children are typed arrays
                }
                if matches!(m, Mut::ChildCell { .. }) && e != Entry::ValidateFull {
                    // a malformed *child* can only be produced through unsafe code; try_new / build validate the
                    // parent only (documented: validate_data does not recurse); validate_full must catch it
                    continue;
                }
                evals += 1;
                let got = catch(|| construct(&q, e));
                let case = || json!({"sub":"mutilations","column":col_json(dt, col),"layout":lay.name(),"mutilation":format!("{m:?}"),"entry":format!("{e:?}")});
                match got {
                    Err(pi) => {
                        st.violate(idx, format!("c09:constructor-panic:{e:?}:{}", pi.fingerprint()), format!("{pi:?} on {}", mut_class(&m)), case);
                    }
                    Ok(Err(_)) => rejected += 1,
                    Ok(Ok(acc)) => {
                        match spec_validate(&acc) {
                            Err(why) => {
                                let class = why.split(':').next().unwrap_or("").to_string();
                                st.violate(idx, format!("c09:accepted-malformed:{}:{}", class, kind(dt)), format!("{e:?} accepted {} but the spec validator says: {why}", mut_class(&m)), case);
                            }
                            Ok(()) => {
                                benign += 1;
                                // accessors of an accepted, spec-valid array: must stay within their buffers (checked
                                // under ASan in the thorough tier); a clean panic is counted, not a violation
                                if acc.len() <= 4096 {
                                    if let Err(fp) = exercise(&acc) {
                                        st.count(&format!("accessor-panic-on-accepted:{}:{}", kind(dt), fp.chars().take(80).collect::<String>()), 1);
                                    }
                                }
                            }
                        }
                    }
                }
            }
        }
        st.add("mutilations", evals, rejected);
        st.outcome_n("rejected", rejected);
        st.outcome_n("accepted-valid", benign);
        if idx as usize == cases.len() / 2 {
            st.sample("mutilations", || json!({"column":col_json(dt, col),"layout":lay.name(),"menu_size":menu(&p).len(),"entries":entries.iter().map(|e| format!("{e:?}")).collect::<Vec<_>>()}));
        }
    }));

    // ---- record batch construction
    let mut rb_evals = 0u64;
    {
        let a: ArrayRef = Arc::new(arrow_array::Int32Array::from(vec![Some(1), None, Some(3)]));
        let b: ArrayRef = Arc::new(arrow_array::StringArray::from(vec!["x", "y", "z"]));
        let mk = |fields: Vec<Field>, cols: Vec<ArrayRef>, rows: Option<usize>| {
            let s = Arc::new(Schema::new(fields));
            catch(move || match rows {
                None => RecordBatch::try_new(s, cols),
                Some(n) => RecordBatch::try_new_with_options(s, cols, &arrow_array::RecordBatchOptions::new().with_row_count(Some(n))),
            })
        };
        let fa = |n: bool| Field::new("a", DataType::Int32, n);
        let fb = |n: bool| Field::new("b", DataType::Utf8, n);
        let trials: Vec<(&str, Vec<Field>, Vec<ArrayRef>, Option<usize>, bool)> = vec![
            ("ok", vec![fa(true), fb(false)], vec![a.clone(), b.clone()], None, true),
            ("null-in-non-nullable", vec![fa(false), fb(false)], vec![a.clone(), b.clone()], None, false),
            ("type-mismatch", vec![fb(true), fb(false)], vec![a.clone(), b.clone()], None, false),
            ("length-mismatch", vec![fa(true), fb(false)], vec![a.clone(), b.slice(0, 2)], None, false),
            ("column-count", vec![fa(true)], vec![a.clone(), b.clone()], None, false),
            ("row-count-mismatch", vec![fa(true)], vec![a.clone()], Some(2), false),
            ("row-count-ok", vec![fa(true)], vec![a.clone()], Some(3), true),
            ("no-columns-row-count", vec![], vec![], Some(5), true),
        ];
        for (name, f, c, rows, ok) in trials {
            rb_evals += 1;
            match mk(f, c, rows) {
                Ok(Ok(b)) => {
                    if !ok {
                        st.violate(u64::MAX - 10, format!("c09:record-batch-accepted:{name}"), "RecordBatch accepted a malformed batch".to_string(), || json!({"sub":"record-batch","trial":name}));
                    } else if let Err(e) = vmodel::validate::batch_validate(&b) {
                        st.violate(u64::MAX - 10, format!("c09:record-batch-accepted-invalid:{name}"), e, || json!({"sub":"record-batch","trial":name}));
                    }
                }
                Ok(Err(_)) => {
                    if ok {
                        st.count("record-batch-valid-rejected", 1);
                    }
                }
                Err(p) => st.violate(u64::MAX - 10, format!("c09:record-batch-panic:{}", p.fingerprint()), format!("{p:?}"), || json!({"sub":"record-batch","trial":name})),
            }
        }
    }
    st.add("record-batch", rb_evals, rb_evals);

    // ---- buffer-level constructors and slicing
    if ctx.replay.is_none() {
        crate::c09_prims::run(ctx, &mut st);
    }

    vcore::finish(
        ctx,
        Level {
            category: "exploration",
            rule: "for every grid type x column (len <= N) x layout (<=1 deviation): every single mutilation of the operator menu (len/offset +-1 and overflow, buffer dropped/added/truncated/misaligned, validity short / forbidden / wrong null_count, child dropped/added/retyped/shortened/lengthened, every cell of every offsets/sizes/keys/type-id/view/value buffer of the array and of its children overwritten by each of 8 replacement values) x 4 validating entry points; a case is non-trivial when the constructor rejected it (the mutilation broke validity); accepted cases must pass the independent spec validator and the accessor exercise; buffer-level constructors (BooleanBuffer::new, Buffer::slice / slice_with_length / bit_slice, ScalarBuffer<T>::new for 6 widths, OffsetBuffer::new over all sequences of length <= 4 over 5 values, RunEndBuffer::new over all sequences of length <= 3 over 6 values, the slice methods of these and of every array type): complete products of sizes x offsets x lengths incl. the values next to usize::MAX against the containment inequality".into(),
            assumptions: vec![
                "spec_validate (vmodel) is the reference for well-formedness; it encodes arrow-rs's documented relaxations (arbitrary payload under nulls for dictionary keys, empty offsets buffer for empty arrays)".into(),
                "only single mutilations (pairs in thorough are not built yet)".into(),
            ],
            exhaustive_space: "grid_core x columns(N) x layouts_1 x mutilation menu x entry points".into(),
        },
        st,
    )
}
