//! C09, buffer-level constructors: the checked constructors below the array level (`BooleanBuffer::new`,
//! `ScalarBuffer::new`, `OffsetBuffer::new`, `RunEndBuffer::new`, `Buffer::slice*`, `bit_slice`, the `slice`
//! methods of the typed buffers and of every array type) decide acceptance by arithmetic on offsets and
//! lengths. Complete products over small sizes, bit/element offsets and lengths (plus the values next to
//! `usize::MAX`); the reference decision is the containment inequality of the format document. Only an
//! *accepted malformed* layout is a violation; a rejected valid one is counted.
use arrow_array::{Array, ArrayRef};
use arrow_buffer::{BooleanBuffer, Buffer, MutableBuffer, NullBuffer, OffsetBuffer, RunEndBuffer, ScalarBuffer};
use vcore::serde_json::json;
use vcore::{Ctx, Stats, catch};
use vmodel::build::{Layout, realise};
use vmodel::{columns, grid_core};

const ORDER: u64 = u64::MAX - 20;

/// `n` bytes starting `skew` bytes into a 64-byte aligned allocation (so bytes beyond the slice exist and a
/// wrongly accepted layout reads foreign but mapped memory)
fn bytes(n: usize, skew: usize) -> Buffer {
    let mut m = MutableBuffer::new(128);
    m.extend_from_slice(&(0..(n + skew + 32) as u8).map(|i| i.wrapping_mul(37) | 1).collect::<Vec<u8>>());
    Buffer::from(m).slice_with_length(skew, n)
}

fn decide(st: &mut Stats, ctor: &str, valid: bool, accepted: bool, desc: impl FnOnce() -> String) {
    st.outcome(match (valid, accepted) {
        (true, true) => "prim:accepted-valid",
        (false, false) => "prim:rejected",
        (true, false) => "prim:rejected-valid",
        (false, true) => "prim:accepted-malformed",
    });
    if valid && !accepted {
        st.count(&format!("prim-rejected-valid:{ctor}"), 1);
    }
    if !valid && accepted {
        let d = desc();
        st.violate(ORDER, format!("c09:accepted-malformed:prim:{ctor}"), format!("{ctor} accepted {d}"), || json!({"sub":"prims","ctor":ctor,"input":d}));
    }
}

fn scalar<T: arrow_buffer::ArrowNativeType>(st: &mut Stats, name: &str) -> (u64, u64) {
    let w = std::mem::size_of::<T>();
    let al = std::mem::align_of::<T>();
    let (mut ev, mut nt) = (0, 0);
    for n in 0..=(3 * w + 1) {
        for skew in [0usize, 1, w / 2, w].into_iter().filter(|s| *s <= w) {
            let b = bytes(n, skew);
            for off in (0..=4usize).chain([usize::MAX, usize::MAX / w, usize::MAX / w + 1]) {
                for len in (0..=4usize).chain([usize::MAX, usize::MAX / w]) {
                    let fits = off.checked_add(len).and_then(|e| e.checked_mul(w)).is_some_and(|e| e <= n) && off.checked_mul(w).is_some();
                    let aligned = (b.as_ptr() as usize).wrapping_add(off.wrapping_mul(w)) % al == 0;
                    let valid = fits && aligned;
                    let r = catch(|| ScalarBuffer::<T>::new(b.clone(), off, len));
                    ev += 1;
                    nt += !valid as u64;
                    let ok = match &r { Ok(s) => s.len() == len, Err(_) => false };
                    decide(st, &format!("ScalarBuffer<{name}>::new"), valid, r.is_ok(), || format!("{n} bytes (skew {skew}), offset {off}, len {len}"));
                    if r.is_ok() && valid && !ok {
                        st.violate(ORDER, format!("c09:prim:ScalarBuffer<{name}>::new:len"), "accepted with a different length".to_string(), || json!({"sub":"prims"}));
                    }
                }
            }
        }
    }
    (ev, nt)
}

fn offsets<O: arrow_buffer::ArrowNativeType + arrow_array::OffsetSizeTrait>(st: &mut Stats, name: &str, neg: O, max: O) -> (u64, u64) {
    let letters: Vec<O> = vec![O::usize_as(0), O::usize_as(1), O::usize_as(2), neg, max];
    let (mut ev, mut nt) = (0, 0);
    let mut seqs: Vec<Vec<O>> = vec![vec![]];
    let mut level: Vec<Vec<O>> = vec![vec![]];
    for _ in 0..4 {
        level = level.into_iter().flat_map(|p| letters.iter().map(move |l| { let mut q = p.clone(); q.push(*l); q })).collect();
        seqs.extend(level.iter().cloned());
    }
    for s in seqs {
        let valid = !s.is_empty() && s[0] >= O::usize_as(0) && s.windows(2).all(|w| w[0] <= w[1]);
        let r = catch(|| OffsetBuffer::<O>::new(ScalarBuffer::from(s.clone())));
        ev += 1;
        nt += !valid as u64;
        decide(st, &format!("OffsetBuffer<{name}>::new"), valid, r.is_ok(), || format!("{s:?}"));
        // slice: len+1 offsets starting at `off`
        if let Ok(ob) = r {
            let rows = ob.len() - 1;
            for off in (0..=5usize).chain([usize::MAX]) {
                for len in (0..=5usize).chain([usize::MAX]) {
                    let valid = off.checked_add(len).is_some_and(|e| e <= rows);
                    let r = catch(|| ob.slice(off, len));
                    ev += 1;
                    nt += !valid as u64;
                    decide(st, &format!("OffsetBuffer<{name}>::slice"), valid, r.is_ok(), || format!("{rows} rows, slice({off}, {len})"));
                }
            }
        }
    }
    (ev, nt)
}

fn run_ends<R: arrow_buffer::ArrowNativeType + Ord>(st: &mut Stats, name: &str, neg: R, max: R) -> (u64, u64) {
    let letters: Vec<R> = vec![R::usize_as(1), R::usize_as(2), R::usize_as(3), R::usize_as(0), neg, max];
    let (mut ev, mut nt) = (0, 0);
    let mut seqs: Vec<Vec<R>> = vec![vec![]];
    let mut level: Vec<Vec<R>> = vec![vec![]];
    for _ in 0..3 {
        level = level.into_iter().flat_map(|p| letters.iter().map(move |l| { let mut q = p.clone(); q.push(*l); q })).collect();
        seqs.extend(level.iter().cloned());
    }
    for s in seqs {
        for off in (0..=4usize).chain([usize::MAX]) {
            for len in (0..=4usize).chain([usize::MAX]) {
                // a zero-length run array is not constrained by arrow-rs (and not judged here)
                if len == 0 {
                    continue;
                }
                let mono = !s.is_empty() && s[0] > R::usize_as(0) && s.windows(2).all(|w| w[0] < w[1]);
                let covers = off.checked_add(len).is_some_and(|e| s.last().is_some_and(|l| l.as_usize() >= e && *l > R::usize_as(0)));
                let valid = mono && covers;
                let r = catch(|| RunEndBuffer::<R>::new(ScalarBuffer::from(s.clone()), off, len));
                ev += 1;
                nt += !valid as u64;
                decide(st, &format!("RunEndBuffer<{name}>::new"), valid, r.is_ok(), || format!("run ends {s:?}, offset {off}, len {len}"));
                if let (true, Ok(rb)) = (valid, r) {
                    for o2 in (0..=3usize).chain([usize::MAX]) {
                        for l2 in (0..=3usize).chain([usize::MAX]) {
                            let valid = o2.checked_add(l2).is_some_and(|e| e <= len);
                            let r = catch(|| rb.slice(o2, l2));
                            ev += 1;
                            nt += !valid as u64;
                            decide(st, &format!("RunEndBuffer<{name}>::slice"), valid, r.is_ok(), || format!("len {len}, slice({o2}, {l2})"));
                        }
                    }
                }
            }
        }
    }
    (ev, nt)
}

/// Dictionary constructors at the key type's limits: `DictionaryArray::try_new` and the `ArrayData` route
/// for every key type x dictionary sizes around the key range x every key sequence of length <= 2 over
/// {null, 0, -1, MIN, MAX, len-1, len}. Accept iff every non-null key is in [0, len).
fn dictionaries(st: &mut Stats) -> (u64, u64) {
    use arrow_array::types::*;
    use arrow_array::{DictionaryArray, Int32Array, PrimitiveArray};
    use arrow_data::ArrayData;
    use arrow_schema::DataType;
    use std::sync::Arc;
    let (mut ev, mut nt) = (0u64, 0u64);
    macro_rules! go {
        ($t:ty, $name:expr, $sizes:expr) => {{
            type N = <$t as ArrowPrimitiveType>::Native;
            for &n in $sizes.iter() {
                let values: ArrayRef = Arc::new(Int32Array::from((0..n as i32).collect::<Vec<_>>()));
                let mut letters: Vec<Option<i128>> = vec![None, Some(0), Some(-1), Some(N::MIN as i128), Some(N::MAX as i128), Some(n as i128 - 1), Some(n as i128)];
                letters.retain(|l| l.map_or(true, |v| v >= N::MIN as i128 && v <= N::MAX as i128));
                letters.dedup();
                let mut seqs: Vec<Vec<Option<i128>>> = vec![vec![]];
                for a in &letters {
                    seqs.push(vec![*a]);
                    for b in &letters {
                        seqs.push(vec![*a, *b]);
                    }
                }
                for sq in seqs {
                    let valid = sq.iter().all(|k| k.map_or(true, |v| v >= 0 && v < n as i128));
                    let keys: PrimitiveArray<$t> = sq.iter().map(|k| k.map(|v| v as N)).collect();
                    let r = catch(|| DictionaryArray::<$t>::try_new(keys.clone(), values.clone()));
                    ev += 1;
                    nt += !valid as u64;
                    decide(st, &format!("DictionaryArray<{}>::try_new", $name), valid, matches!(r, Ok(Ok(_))), || format!("{n} values, keys {sq:?}"));
                    let dt = DataType::Dictionary(Box::new(<$t>::DATA_TYPE), Box::new(DataType::Int32));
                    let kd = keys.to_data();
                    let r = catch(|| ArrayData::try_new(dt.clone(), sq.len(), kd.nulls().map(|n| n.buffer().clone()), 0, kd.buffers().to_vec(), vec![values.to_data()]));
                    ev += 1;
                    nt += !valid as u64;
                    decide(st, &format!("ArrayData::try_new(Dictionary<{}>)", $name), valid, matches!(r, Ok(Ok(_))), || format!("{n} values, keys {sq:?}"));
                }
            }
        }};
    }
    go!(Int8Type, "Int8", [0usize, 1, 127, 128, 129, 200, 256]);
    go!(UInt8Type, "UInt8", [0usize, 1, 127, 128, 255, 256, 257]);
    go!(Int16Type, "Int16", [1usize, 32767, 32768, 32769]);
    go!(UInt16Type, "UInt16", [1usize, 65535, 65536, 65537]);
    go!(Int32Type, "Int32", [0usize, 1, 3]);
    go!(Int64Type, "Int64", [0usize, 1, 3]);
    go!(UInt32Type, "UInt32", [1usize, 3]);
    go!(UInt64Type, "UInt64", [1usize, 3]);
    (ev, nt)
}

pub fn run(ctx: &Ctx, st: &mut Stats) {
    let (mut ev, mut nt) = (0u64, 0u64);
    let big = [usize::MAX, usize::MAX - 7, usize::MAX / 8, usize::MAX / 8 + 1];
    // ---- BooleanBuffer::new / slice, NullBuffer::slice, Buffer::slice / slice_with_length / bit_slice
    let (max_bytes, max_bits) = (ctx.pick(4, 6), ctx.pick(40, 56));
    for n in 0..=max_bytes {
        let b = bytes(n, 1);
        for off in (0..=max_bits).chain(big) {
            for len in (0..=max_bits).chain(big) {
                let valid = off.checked_add(len).is_some_and(|e| e <= n * 8);
                let r = catch(|| BooleanBuffer::new(b.clone(), off, len));
                ev += 1;
                nt += !valid as u64;
                decide(st, "BooleanBuffer::new", valid, r.is_ok(), || format!("{n} bytes, bit offset {off}, bit len {len}"));
                let r2 = catch(|| b.bit_slice(off, len));
                ev += 1;
                decide(st, "Buffer::bit_slice", valid, r2.is_ok(), || format!("{n} bytes, bit offset {off}, bit len {len}"));
                if let (true, Ok(bb)) = (valid, r) {
                    if len <= 12 {
                        for o2 in (0..=len + 2).chain([usize::MAX]) {
                            for l2 in (0..=len + 2).chain([usize::MAX]) {
                                let valid = o2.checked_add(l2).is_some_and(|e| e <= len);
                                let r = catch(|| bb.slice(o2, l2));
                                ev += 1;
                                nt += !valid as u64;
                                decide(st, "BooleanBuffer::slice", valid, r.is_ok(), || format!("bit len {len}, slice({o2}, {l2})"));
                                let nb = NullBuffer::new(bb.clone());
                                let r = catch(|| nb.slice(o2, l2));
                                ev += 1;
                                decide(st, "NullBuffer::slice", valid, r.is_ok(), || format!("len {len}, slice({o2}, {l2})"));
                            }
                        }
                    }
                }
            }
        }
        for off in (0..=n + 2).chain([usize::MAX]) {
            let valid = off <= n;
            let r = catch(|| b.slice(off));
            ev += 1;
            nt += !valid as u64;
            decide(st, "Buffer::slice", valid, r.is_ok(), || format!("{n} bytes, slice({off})"));
            for len in (0..=n + 2).chain([usize::MAX]) {
                let valid = off.checked_add(len).is_some_and(|e| e <= n);
                let r = catch(|| b.slice_with_length(off, len));
                ev += 1;
                nt += !valid as u64;
                decide(st, "Buffer::slice_with_length", valid, r.is_ok(), || format!("{n} bytes, slice_with_length({off}, {len})"));
            }
        }
    }
    // ---- ScalarBuffer::new
    for (e, n) in [scalar::<u8>(st, "u8"), scalar::<i16>(st, "i16"), scalar::<i32>(st, "i32"), scalar::<i64>(st, "i64"), scalar::<i128>(st, "i128"), scalar::<arrow_buffer::i256>(st, "i256")] {
        ev += e;
        nt += n;
    }
    // ---- OffsetBuffer::new / slice
    for (e, n) in [offsets::<i32>(st, "i32", -1, i32::MAX), offsets::<i64>(st, "i64", -1, i64::MAX)] {
        ev += e;
        nt += n;
    }
    // ---- RunEndBuffer::new / slice
    for (e, n) in [run_ends::<i16>(st, "i16", -1, i16::MAX), run_ends::<i32>(st, "i32", -1, i32::MAX), run_ends::<i64>(st, "i64", -1, i64::MAX)] {
        ev += e;
        nt += n;
    }
    // ---- Array::slice of every grid type (2-row columns, compact and sliced parents)
    for dt in grid_core() {
        let Some(col) = columns(&dt, 2, 2, true).into_iter().rfind(|c| c.len() == 2) else { continue };
        for lay in [Layout::compact(), Layout { slice: Some((1, 1)), ..Default::default() }] {
            let Ok(a) = realise(&dt, &col, &lay) else { continue };
            let a: ArrayRef = a;
            for off in (0..=3usize).chain([usize::MAX]) {
                for len in (0..=3usize).chain([usize::MAX]) {
                    let valid = off.checked_add(len).is_some_and(|e| e <= a.len());
                    let r = catch(|| a.slice(off, len));
                    ev += 1;
                    nt += !valid as u64;
                    decide(st, "Array::slice", valid, r.is_ok(), || format!("{dt} of {} rows ({}), slice({off}, {len})", a.len(), lay.name()));
                }
            }
        }
    }
    let (e, n) = dictionaries(st);
    ev += e;
    nt += n;
    st.add("prims", ev, nt);
}
