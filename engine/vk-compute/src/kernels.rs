//! The kernel alphabet K: instantiated operations over one or two arrays, used by C02 (congruence,
//! commutation with selection) and C01 (pipelines, monitor mode).
use arrow_array::cast::AsArray;
use arrow_array::*;
use arrow_schema::{ArrowError, DataType, SortOptions};
use std::sync::Arc;

pub enum Obs {
    Cols(Vec<ArrayRef>),
    Text(String),
}

type KFn = Box<dyn Fn(&[ArrayRef]) -> Result<Obs, ArrowError> + Send + Sync>;

pub struct Kernel {
    pub name: String,
    pub arity: usize,
    /// element-wise: output row i depends on input row i only (commutes with take/slice/concat)
    pub rowwise: bool,
    /// output is an array of the same type as the first input (usable as a pipeline stage)
    pub f: KFn,
}

fn one(a: Result<ArrayRef, ArrowError>) -> Result<Obs, ArrowError> {
    a.map(|x| Obs::Cols(vec![x]))
}
fn oneb(a: Result<BooleanArray, ArrowError>) -> Result<Obs, ArrowError> {
    a.map(|x| Obs::Cols(vec![Arc::new(x) as ArrayRef]))
}

fn mask_for(n: usize, style: u8) -> BooleanArray {
    match style {
        0 => BooleanArray::from((0..n).map(|i| i % 2 == 0).collect::<Vec<bool>>()),
        1 => BooleanArray::from((0..n).map(|i| match i % 3 { 0 => Some(true), 1 => None, _ => Some(false) }).collect::<Vec<Option<bool>>>()),
        2 => BooleanArray::from(vec![true; n]),
        _ => BooleanArray::from(vec![false; n]),
    }
}

pub fn error_class(e: &ArrowError) -> &'static str {
    match e {
        ArrowError::NotYetImplemented(_) => "NotYetImplemented",
        ArrowError::ExternalError(_) => "ExternalError",
        ArrowError::CastError(_) => "CastError",
        ArrowError::MemoryError(_) => "MemoryError",
        ArrowError::ParseError(_) => "ParseError",
        ArrowError::SchemaError(_) => "SchemaError",
        ArrowError::ComputeError(_) => "ComputeError",
        ArrowError::DivideByZero => "DivideByZero",
        ArrowError::ArithmeticOverflow(_) => "ArithmeticOverflow",
        ArrowError::CsvError(_) => "CsvError",
        ArrowError::JsonError(_) => "JsonError",
        ArrowError::AvroError(_) => "AvroError",
        ArrowError::IoError(_, _) => "IoError",
        ArrowError::IpcError(_) => "IpcError",
        ArrowError::InvalidArgumentError(_) => "InvalidArgumentError",
        ArrowError::ParquetError(_) => "ParquetError",
        ArrowError::CDataInterface(_) => "CDataInterface",
        ArrowError::DictionaryKeyOverflowError => "DictionaryKeyOverflowError",
        ArrowError::RunEndIndexOverflowError => "RunEndIndexOverflowError",
        ArrowError::OffsetOverflowError(_) => "OffsetOverflowError",
    }
}

pub fn kernels() -> Vec<Kernel> {
    let mut k: Vec<Kernel> = vec![];
    macro_rules! add {
        ($name:expr, $ar:expr, $rw:expr, $f:expr) => {
            k.push(Kernel { name: $name.to_string(), arity: $ar, rowwise: $rw, f: Box::new($f) })
        };
    }
    // ---- selection
    for style in 0..4u8 {
        add!(format!("filter:{style}"), 1, false, move |a: &[ArrayRef]| one(arrow_select::filter::filter(&a[0], &mask_for(a[0].len(), style))));
        add!(format!("nullif:{style}"), 1, false, move |a: &[ArrayRef]| one(arrow_select::nullif::nullif(&a[0], &mask_for(a[0].len(), style))));
    }
    add!("take:rev+null", 1, false, |a: &[ArrayRef]| {
        if matches!(a[0].data_type(), DataType::Union(_, _)) {
            // a union has no validity of its own: a null index has no defined result row
            return Ok(Obs::Text("n/a".into()));
        }
        let n = a[0].len();
        let mut idx: Vec<Option<u32>> = (0..n as u32).rev().map(Some).collect();
        idx.push(None);
        if n > 0 {
            idx.push(Some(0));
        }
        one(arrow_select::take::take(&a[0], &UInt32Array::from(idx), None))
    });
    add!("take:i8dup", 1, false, |a: &[ArrayRef]| {
        let n = a[0].len();
        let idx: Vec<i8> = (0..n).flat_map(|i| [i as i8, i as i8]).collect();
        one(arrow_select::take::take(&a[0], &Int8Array::from(idx), None))
    });
    add!("concat:self", 1, false, |a: &[ArrayRef]| one(arrow_select::concat::concat(&[a[0].as_ref(), a[0].as_ref()])));
    add!("concat:ab", 2, false, |a: &[ArrayRef]| one(arrow_select::concat::concat(&[a[0].as_ref(), a[1].as_ref(), a[0].as_ref()])));
    add!("interleave:ab", 2, false, |a: &[ArrayRef]| {
        let mut idx = vec![];
        for i in 0..a[0].len().max(a[1].len()) {
            if i < a[1].len() {
                idx.push((1usize, i));
            }
            if i < a[0].len() {
                idx.push((0usize, a[0].len() - 1 - i));
            }
        }
        one(arrow_select::interleave::interleave(&[a[0].as_ref(), a[1].as_ref()], &idx))
    });
    add!("zip:ab", 2, false, |a: &[ArrayRef]| {
        let n = a[0].len();
        if a[1].len() != n {
            return Ok(Obs::Text("len-mismatch".into()));
        }
        one(arrow_select::zip::zip(&mask_for(n, 1), &a[0], &a[1]))
    });
    for off in [-1i64, 1, 2] {
        add!(format!("shift:{off}"), 1, false, move |a: &[ArrayRef]| one(arrow_select::window::shift(&a[0], off)));
    }
    add!("slice:mid", 1, false, |a: &[ArrayRef]| {
        let n = a[0].len();
        Ok(Obs::Cols(vec![a[0].slice(n / 2, n - n / 2), a[0].slice(0, n / 2)]))
    });
    add!("to_data:make_array", 1, true, |a: &[ArrayRef]| Ok(Obs::Cols(vec![make_array(a[0].to_data())])));
    // ---- null tests
    add!("is_null", 1, true, |a: &[ArrayRef]| oneb(arrow_arith::boolean::is_null(&a[0])));
    add!("is_not_null", 1, true, |a: &[ArrayRef]| oneb(arrow_arith::boolean::is_not_null(&a[0])));
    add!("logical_nulls", 1, true, |a: &[ArrayRef]| {
        let n = a[0].logical_nulls();
        let pos: Vec<bool> = match n {
            Some(n) => n.iter().map(|v| !v).collect(),
            None => vec![false; a[0].len()],
        };
        Ok(Obs::Text(format!("{:?}|{}", pos, a[0].logical_null_count())))
    });
    // ---- arithmetic (binary, both array and scalar forms)
    type BinF = fn(&dyn Datum, &dyn Datum) -> Result<ArrayRef, ArrowError>;
    let arith: Vec<(&str, BinF)> = vec![
        ("add", arrow_arith::numeric::add),
        ("sub", arrow_arith::numeric::sub),
        ("mul", arrow_arith::numeric::mul),
        ("div", arrow_arith::numeric::div),
        ("rem", arrow_arith::numeric::rem),
        ("add_wrapping", arrow_arith::numeric::add_wrapping),
        ("sub_wrapping", arrow_arith::numeric::sub_wrapping),
        ("mul_wrapping", arrow_arith::numeric::mul_wrapping),
    ];
    for (name, f) in arith {
        add!(format!("{name}:aa"), 2, true, move |a: &[ArrayRef]| {
            if a[0].len() != a[1].len() {
                return Ok(Obs::Text("len-mismatch".into()));
            }
            one(f(&a[0], &a[1]))
        });
        add!(format!("{name}:as"), 2, true, move |a: &[ArrayRef]| {
            if a[1].is_empty() {
                return Ok(Obs::Text("no-scalar".into()));
            }
            one(f(&a[0], &Scalar::new(a[1].slice(0, 1))))
        });
    }
    add!("neg", 1, true, |a: &[ArrayRef]| one(arrow_arith::numeric::neg(&a[0])));
    add!("neg_wrapping", 1, true, |a: &[ArrayRef]| one(arrow_arith::numeric::neg_wrapping(&a[0])));
    // ---- comparison
    type CmpF = fn(&dyn Datum, &dyn Datum) -> Result<BooleanArray, ArrowError>;
    let cmps: Vec<(&str, CmpF)> = vec![
        ("eq", arrow_ord::cmp::eq),
        ("neq", arrow_ord::cmp::neq),
        ("lt", arrow_ord::cmp::lt),
        ("lt_eq", arrow_ord::cmp::lt_eq),
        ("gt", arrow_ord::cmp::gt),
        ("gt_eq", arrow_ord::cmp::gt_eq),
        ("distinct", arrow_ord::cmp::distinct),
        ("not_distinct", arrow_ord::cmp::not_distinct),
    ];
    for (name, f) in cmps {
        add!(format!("{name}:aa"), 2, true, move |a: &[ArrayRef]| {
            if a[0].len() != a[1].len() {
                return Ok(Obs::Text("len-mismatch".into()));
            }
            oneb(f(&a[0], &a[1]))
        });
        add!(format!("{name}:sa"), 2, true, move |a: &[ArrayRef]| {
            if a[0].is_empty() {
                return Ok(Obs::Text("no-scalar".into()));
            }
            oneb(f(&Scalar::new(a[0].slice(a[0].len() - 1, 1)), &a[1]))
        });
    }
    // ---- boolean
    add!("not", 1, true, |a: &[ArrayRef]| match a[0].as_boolean_opt() {
        Some(b) => oneb(arrow_arith::boolean::not(b)),
        None => Ok(Obs::Text("n/a".into())),
    });
    type BoolF = fn(&BooleanArray, &BooleanArray) -> Result<BooleanArray, ArrowError>;
    let bools: Vec<(&str, BoolF)> = vec![
        ("and", arrow_arith::boolean::and),
        ("or", arrow_arith::boolean::or),
        ("and_kleene", arrow_arith::boolean::and_kleene),
        ("or_kleene", arrow_arith::boolean::or_kleene),
        ("and_not", arrow_arith::boolean::and_not),
    ];
    for (name, f) in bools {
        add!(name, 2, true, move |a: &[ArrayRef]| match (a[0].as_boolean_opt(), a[1].as_boolean_opt()) {
            (Some(l), Some(r)) if l.len() == r.len() => oneb(f(l, r)),
            _ => Ok(Obs::Text("n/a".into())),
        });
    }
    // ---- sort / rank / partition
    for (i, opt) in [(false, false), (false, true), (true, false), (true, true)].into_iter().enumerate() {
        let so = SortOptions { descending: opt.0, nulls_first: opt.1 };
        add!(format!("sort:{i}"), 1, false, move |a: &[ArrayRef]| one(arrow_ord::sort::sort(&a[0], Some(so))));
        add!(format!("sort_limit2:{i}"), 1, false, move |a: &[ArrayRef]| one(arrow_ord::sort::sort_limit(&a[0], Some(so), Some(2))));
        add!(format!("rank:{i}"), 1, false, move |a: &[ArrayRef]| arrow_ord::rank::rank(&a[0], Some(so)).map(|r| Obs::Text(format!("{r:?}"))));
    }
    add!("partition", 1, false, |a: &[ArrayRef]| arrow_ord::partition::partition(&[a[0].clone()]).map(|p| Obs::Text(format!("{:?}", p.ranges()))));
    // ---- casts
    for target in [DataType::Utf8, DataType::Int64, DataType::Float64, DataType::Utf8View, DataType::LargeBinary, DataType::Dictionary(Box::new(DataType::Int8), Box::new(DataType::Utf8))] {
        let t = target.clone();
        add!(format!("cast:{target}"), 1, true, move |a: &[ArrayRef]| one(arrow_cast::cast(&a[0], &t)));
        let t2 = target.clone();
        add!(format!("cast_strict:{target}"), 1, false, move |a: &[ArrayRef]| {
            one(arrow_cast::cast_with_options(&a[0], &t2, &arrow_cast::CastOptions { safe: false, ..Default::default() }))
        });
    }
    add!("format", 1, true, |a: &[ArrayRef]| {
        let f = arrow_cast::display::ArrayFormatter::try_new(a[0].as_ref(), &Default::default())?;
        let mut rows = vec![];
        for i in 0..a[0].len() {
            rows.push(f.value(i).try_to_string()?);
        }
        Ok(Obs::Text(rows.join("\u{1}")))
    });
    // ---- strings
    add!("length", 1, true, |a: &[ArrayRef]| one(arrow_string::length::length(&a[0])));
    add!("bit_length", 1, true, |a: &[ArrayRef]| one(arrow_string::length::bit_length(&a[0])));
    add!("substring:1,2", 1, true, |a: &[ArrayRef]| one(arrow_string::substring::substring(&a[0], 1, Some(2))));
    add!("substring:-2", 1, true, |a: &[ArrayRef]| one(arrow_string::substring::substring(&a[0], -2, None)));
    add!("concat_elements", 2, true, |a: &[ArrayRef]| {
        if a[0].len() != a[1].len() {
            return Ok(Obs::Text("len-mismatch".into()));
        }
        one(arrow_string::concat_elements::concat_elements_dyn(&a[0], &a[1]))
    });
    for (name, f) in [("like", arrow_string::like::like as CmpF), ("ilike", arrow_string::like::ilike), ("starts_with", arrow_string::like::starts_with), ("contains", arrow_string::like::contains)] {
        add!(format!("{name}:aa"), 2, true, move |a: &[ArrayRef]| {
            if a[0].len() != a[1].len() {
                return Ok(Obs::Text("len-mismatch".into()));
            }
            oneb(f(&a[0], &a[1]))
        });
    }
    // ---- temporal
    for part in [arrow_arith::temporal::DatePart::Year, arrow_arith::temporal::DatePart::Second] {
        add!(format!("date_part:{part}"), 1, true, move |a: &[ArrayRef]| one(arrow_arith::temporal::date_part(&a[0], part)));
    }
    // ---- row format
    add!("row:convert", 1, true, |a: &[ArrayRef]| {
        let conv = arrow_row::RowConverter::new(vec![arrow_row::SortField::new(a[0].data_type().clone())])?;
        let rows = conv.convert_columns(&[a[0].clone()])?;
        let text: Vec<String> = rows.iter().map(|r| format!("{:02x?}", r.as_ref())).collect();
        let back = conv.convert_rows(rows.iter())?;
        let _ = back;
        Ok(Obs::Text(text.join("|")))
    });
    add!("row:roundtrip", 1, true, |a: &[ArrayRef]| {
        let conv = arrow_row::RowConverter::new(vec![arrow_row::SortField::new(a[0].data_type().clone())])?;
        let rows = conv.convert_columns(&[a[0].clone()])?;
        Ok(Obs::Cols(conv.convert_rows(rows.iter())?))
    });
    // ---- dictionary gc
    add!("gc_dictionary", 1, true, |a: &[ArrayRef]| {
        if let DataType::Dictionary(_, _) = a[0].data_type() {
            one(arrow_select::dictionary::garbage_collect_any_dictionary(a[0].as_any_dictionary()))
        } else {
            Ok(Obs::Text("n/a".into()))
        }
    });
    k
}
