mod c01;
mod c01_builders;
mod c01_rows;
mod c02;
mod c02_nested;
mod c03;
mod c09;
mod c09_prims;
mod kernels;
fn main() {
    let ctx = vcore::Ctx::from_args();
    match ctx.prop.as_str() {
        "C01" => c01::run(&ctx),
        "C02" => c02::run(&ctx),
        "C03" => c03::run(&ctx),
        "C09" => c09::run(&ctx),
        other => {
            eprintln!("MACHINERY: vk-compute does not serve property {other:?}");
            std::process::exit(2)
        }
    }
}
