//! C04 finding (low severity, explicit error): FlightDataEncoder in its default DictionaryHandling::Hydrate mode
//! cannot encode a *dense* union that has a dictionary child: `hydrate_dictionary` special-cases sparse unions only and
//! sends everything else to `arrow_cast::cast`, which has no union -> union cast. The sparse twin works.
use arrow_array::types::Int8Type;
use arrow_array::{ArrayRef, DictionaryArray, RecordBatch, UnionArray};
use arrow_buffer::ScalarBuffer;
use arrow_flight::encode::FlightDataEncoderBuilder;
use arrow_schema::{DataType, Field, Schema, UnionFields, UnionMode};
use futures::StreamExt;
use std::sync::Arc;

fn main() {
    for mode in [UnionMode::Sparse, UnionMode::Dense] {
        let dt = DataType::Dictionary(Box::new(DataType::Int8), Box::new(DataType::Utf8));
        let ufields = UnionFields::try_new(vec![0], vec![Field::new("d", dt, true)]).unwrap();
        let d: DictionaryArray<Int8Type> = vec!["a", "b"].into_iter().collect();
        let offsets = (mode == UnionMode::Dense).then(|| ScalarBuffer::from(vec![0i32, 1]));
        let u = UnionArray::try_new(ufields.clone(), ScalarBuffer::from(vec![0i8, 0]), offsets, vec![Arc::new(d) as ArrayRef]).unwrap();
        let schema = Arc::new(Schema::new(vec![Field::new("c", DataType::Union(ufields, mode), false)]));
        let batch = RecordBatch::try_new(schema.clone(), vec![Arc::new(u) as ArrayRef]).unwrap();
        let mut enc = FlightDataEncoderBuilder::new().build(futures::stream::iter(vec![Ok(batch)]));
        let r = futures::executor::block_on(async {
            let mut n = 0;
            while let Some(x) = enc.next().await {
                x?;
                n += 1;
            }
            Ok::<usize, arrow_flight::error::FlightError>(n)
        });
        println!("{mode:?}: {:?}", r.map_err(|e| e.to_string()));
    }
}
