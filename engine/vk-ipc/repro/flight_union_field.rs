//! C04 finding: FlightDataEncoder rebuilds union-typed fields with Field::new_union, which clears the
//! field's nullable flag and drops its metadata (all other nested types keep both): the receiver sees a
//! schema that differs from the sender's, in both DictionaryHandling modes.
use arrow_array::{ArrayRef, Int32Array, RecordBatch, UnionArray};
use arrow_buffer::ScalarBuffer;
use arrow_flight::decode::FlightRecordBatchStream;
use arrow_flight::encode::FlightDataEncoderBuilder;
use arrow_schema::{DataType, Field, Schema, UnionFields, UnionMode};
use futures::StreamExt;
use std::collections::HashMap;
use std::sync::Arc;

fn main() {
    let ufields = UnionFields::try_new(vec![0], vec![Field::new("i", DataType::Int32, true)]).unwrap();
    let u = UnionArray::try_new(ufields.clone(), ScalarBuffer::from(vec![0i8, 0]), None, vec![Arc::new(Int32Array::from(vec![1, 2])) as ArrayRef]).unwrap();
    let field = Field::new("c", DataType::Union(ufields, UnionMode::Sparse), true).with_metadata(HashMap::from([("k".to_string(), "v".to_string())]));
    let schema = Arc::new(Schema::new(vec![field]));
    let batch = RecordBatch::try_new(schema.clone(), vec![Arc::new(u) as ArrayRef]).unwrap();
    let enc = FlightDataEncoderBuilder::new().with_schema(schema.clone()).build(futures::stream::iter(vec![Ok(batch)]));
    let mut dec = FlightRecordBatchStream::new_from_flight_data(enc);
    let got = futures::executor::block_on(async { dec.next().await.unwrap().unwrap() });
    println!("sent     : {:?}", schema.field(0));
    println!("received : {:?}", got.schema().field(0));
    println!("equal    : {}", got.schema() == schema);
}
