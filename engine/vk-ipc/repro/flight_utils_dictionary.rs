//! C04 finding: arrow_flight::utils::batches_to_flight_data fails for every batch that has a dictionary
//! column: it encodes the schema with a throw-away DictionaryTracker, so the tracker used for the batches
//! knows no dictionary ids ("no dict id for field").
use arrow_array::types::Int8Type;
use arrow_array::{ArrayRef, DictionaryArray, RecordBatch};
use arrow_schema::{DataType, Field, Schema};
use std::sync::Arc;

fn main() {
    let d: DictionaryArray<Int8Type> = vec!["a", "b", "a"].into_iter().collect();
    let schema = Arc::new(Schema::new(vec![Field::new("c", DataType::Dictionary(Box::new(DataType::Int8), Box::new(DataType::Utf8)), true)]));
    let batch = RecordBatch::try_new(schema.clone(), vec![Arc::new(d) as ArrayRef]).unwrap();
    let r = arrow_flight::utils::batches_to_flight_data(&schema, vec![batch]);
    println!("batches_to_flight_data: {:?}", r.map(|v| v.len()));
}
