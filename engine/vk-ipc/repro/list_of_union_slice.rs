//! C04 finding: a union array below a list-like parent is written without honouring the child window.
//! `write_array_data` slices the list's child `ArrayData` (offset > 0) but the Union arm writes the type-id /
//! offset buffers from position 0 and does not slice sparse children.
//!  * dense union: the round trip silently returns OTHER rows' values
//!  * sparse union: the reader rejects the bytes ("Sparse union child arrays must be equal in length ...")
use arrow_array::{Array, ArrayRef, Int32Array, ListArray, RecordBatch, UnionArray};
use arrow_buffer::{OffsetBuffer, ScalarBuffer};
use arrow_ipc::reader::StreamReader;
use arrow_ipc::writer::StreamWriter;
use arrow_schema::{DataType, Field, Schema, UnionFields, UnionMode};
use std::sync::Arc;

fn main() {
    for mode in [UnionMode::Dense, UnionMode::Sparse] {
        let ufields = UnionFields::try_new(vec![0], vec![Field::new("i", DataType::Int32, true)]).unwrap();
        let offsets = (mode == UnionMode::Dense).then(|| ScalarBuffer::from(vec![0i32, 1, 2]));
        let u = UnionArray::try_new(ufields.clone(), ScalarBuffer::from(vec![0i8, 0, 0]), offsets, vec![Arc::new(Int32Array::from(vec![10, 20, 30])) as ArrayRef]).unwrap();
        let item = Arc::new(Field::new("item", DataType::Union(ufields, mode), true));
        // three lists: [10], [20], [30]
        let list = ListArray::try_new(item, OffsetBuffer::new(ScalarBuffer::from(vec![0i32, 1, 2, 3])), Arc::new(u), None).unwrap();
        let sliced: ArrayRef = Arc::new(list.slice(2, 1)); // [[30]]
        sliced.to_data().validate_full().unwrap();
        let schema = Arc::new(Schema::new(vec![Field::new("c", sliced.data_type().clone(), true)]));
        let batch = RecordBatch::try_new(schema.clone(), vec![sliced.clone()]).unwrap();
        let mut w = StreamWriter::try_new(Vec::new(), &schema).unwrap();
        w.write(&batch).unwrap();
        let bytes = w.into_inner().unwrap();
        let back: Result<Vec<RecordBatch>, _> = StreamReader::try_new(bytes.as_slice(), None).unwrap().collect();
        println!("{mode:?} union below a sliced list, written [[30]]:");
        match back {
            Ok(b) => println!("  read back {:?}  (equal to input: {})", b[0].column(0), b[0] == batch),
            Err(e) => println!("  read error: {e}"),
        }
    }
}
