//! C04 finding: with MetadataVersion::V4 the writer emits a validity buffer for a run-end encoded column
//! (`has_validity_bitmap` only exempts RunEndEncoded for V5), the reader never consumes one for that type,
//! so every later buffer is off by one and the library cannot read what it wrote.
use arrow_array::types::Int16Type;
use arrow_array::{Array, ArrayRef, Int16Array, Int32Array, RecordBatch, RunArray};
use arrow_ipc::MetadataVersion;
use arrow_ipc::reader::StreamReader;
use arrow_ipc::writer::{IpcWriteOptions, StreamWriter};
use arrow_schema::{Field, Schema};
use std::sync::Arc;

fn main() {
    let ree: ArrayRef = Arc::new(RunArray::<Int16Type>::try_new(&Int16Array::from(vec![1i16]), &Int32Array::from(vec![7])).unwrap());
    let schema = Arc::new(Schema::new(vec![Field::new("c", ree.data_type().clone(), true)]));
    let batch = RecordBatch::try_new(schema.clone(), vec![ree]).unwrap();
    for (name, ver) in [("V5", MetadataVersion::V5), ("V4", MetadataVersion::V4)] {
        let opts = IpcWriteOptions::try_new(64, false, ver).unwrap();
        let mut w = StreamWriter::try_new_with_options(Vec::new(), &schema, opts).unwrap();
        w.write(&batch).unwrap();
        let bytes = w.into_inner().unwrap();
        let r: Result<Vec<RecordBatch>, _> = StreamReader::try_new(bytes.as_slice(), None).unwrap().collect();
        println!("{name}: {:?}", r.map(|b| b == vec![batch.clone()]));
    }
}
