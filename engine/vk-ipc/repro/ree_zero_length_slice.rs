//! C04 finding: a zero-length slice of a run-end encoded array is written with a single run end `0`;
//! every IPC reader then rejects the file / stream it was given by the library's own writer.
//! Expected: the empty batch round-trips. Observed: read error
//! "The values in run_ends array should be strictly positive. Found value 0 at index 0".
use arrow_array::types::Int16Type;
use arrow_array::{Array, ArrayRef, Int16Array, Int32Array, RecordBatch, RunArray};
use arrow_ipc::reader::StreamReader;
use arrow_ipc::writer::StreamWriter;
use arrow_schema::{Field, Schema};
use std::sync::Arc;

fn main() {
    let ree = RunArray::<Int16Type>::try_new(&Int16Array::from(vec![2i16]), &Int32Array::from(vec![7])).unwrap();
    for (off, len) in [(1usize, 0usize), (0, 0), (2, 0)] {
        let sliced: ArrayRef = Arc::new(ree.slice(off, len));
        sliced.to_data().validate_full().unwrap(); // the input is a valid array
        let schema = Arc::new(Schema::new(vec![Field::new("c", sliced.data_type().clone(), true)]));
        let batch = RecordBatch::try_new(schema.clone(), vec![sliced]).unwrap();
        let mut w = StreamWriter::try_new(Vec::new(), &schema).unwrap();
        w.write(&batch).unwrap(); // writer accepts
        let bytes = w.into_inner().unwrap();
        let r: Result<Vec<RecordBatch>, _> = StreamReader::try_new(bytes.as_slice(), None).unwrap().collect();
        println!("slice({off},{len}) of a 2-row run array -> read back: {:?}", r.map(|b| b.iter().map(|x| x.num_rows()).collect::<Vec<_>>()));
    }
}
