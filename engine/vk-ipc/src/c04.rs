//! C04 — IPC file / stream / Flight encoding round-trips every batch.
//!
//! Sub-engines (all exhaustive inside their stated bound):
//!  * `single`  : type grid x field nullability x every column N<=3 x every layout x 4 writers x readers, default options
//!  * `options` : the same inputs (smaller column / layout menus) x every option point with <= 2 deviations
//!  * `multi`   : every schema of <= 3 fields over a reduced grid x batch row-count sequences (<= 3 batches,
//!                incl. none and empty ones, zero-column batches) x layouts x metadata x every projection
//!  * `dict`    : dictionary evolution histories (vcore::bfs) per writer x handling mode (see dict.rs)
//!  * `flight`  : FlightDataEncoder (Hydrate / Resend, max size menu, IPC options) -> FlightRecordBatchStream /
//!                FlightDataDecoder; batches_to_flight_data -> flight_data_to_batches / FlightDataDecoder
use crate::flight::{self, FlightCfg};
use crate::model::*;
use crate::rt::*;
use arrow_array::{ArrayRef, RecordBatch};
use arrow_schema::{DataType, Field, Schema, SchemaRef};
use std::collections::{BTreeMap, BTreeSet, HashMap};
use std::sync::Arc;
use vcore::serde_json::{Value, json};
use vcore::{Ctx, Level, Stats, par_for};

/// One failing (writer, reader) observation inside a case.
#[derive(Debug, Clone)]
pub struct Fail {
    pub writer: String,
    pub reader: Option<String>,
    pub kind: String,
    pub family: String,
    pub detail: String,
}

/// Triaged defect signatures: one root cause = one fingerprint, whatever sub-engine / option point /
/// surrounding schema it shows up in. Each rule is deliberately narrow (type present + exact symptom).
pub fn known_rule(kind: &str, family: &str, detail: &str, schema: &Schema, o: &Opts, windowed: bool) -> Option<String> {
    let has_ree = schema.fields().iter().any(|f| contains_type(f.data_type(), &|d| matches!(d, DataType::RunEndEncoded(..))));
    let top_union = schema.fields().iter().any(|f| contains_type(f.data_type(), &|d| matches!(d, DataType::Union(..))));
    if kind == "flight-encode-err" && detail.contains("cannot cast Union with fields") && schema.fields().iter().any(|f| contains_type(f.data_type(), &|d| matches!(d, DataType::Union(fs, arrow_schema::UnionMode::Dense) if fs.iter().any(|(_, c)| contains_dictionary(c.data_type())))))
    {
        // hydrate_dictionary special-cases sparse unions only; a dense union with a dictionary child goes to arrow_cast::cast
        return Some("c04:flight-encoder:hydrate:dense-union-with-dictionary-child:cast-unsupported".to_string());
    }
    if kind.starts_with("flight-") && top_union && (kind.ends_with("encode-err") || kind.ends_with("read-err")) && detail.contains("Found unmasked nulls for non-nullable StructArray field") {
        // consequence of the cleared nullable flag on a union-typed struct member
        return Some("c04:flight-encoder:union-field:nullable-flag-cleared".to_string());
    }
    if kind == "flight-encode-err" && top_union && detail.contains("Non-nullable field of") && detail.contains("cannot contain nulls") {
        // same root cause as the schema difference: the hydrating cast targets the rebuilt (non-nullable) nested union field
        return Some("c04:flight-encoder:union-field:nullable-flag-cleared".to_string());
    }
    if kind == "flight-encode-err" && detail.contains("no dict id for field") {
        // utils::batches_to_flight_data encodes the schema with a throw-away DictionaryTracker
        return Some("c04:flight-utils:batches_to_flight_data:dictionary-column-rejected:no-dict-id".to_string());
    }
    if kind == "flight-schema-differs" && top_union && detail.contains("@union-field-nullable-cleared") {
        return Some("c04:flight-encoder:union-field:nullable-flag-cleared".to_string());
    }
    if kind == "flight-schema-differs" && top_union && detail.contains("@union-field-metadata-dropped") {
        return Some("c04:flight-encoder:union-field:field-metadata-dropped".to_string());
    }
    // union somewhere below a List / LargeList / Map
    let union_below_list = schema.fields().iter().any(|f| {
        contains_type(f.data_type(), &|d| match d {
            DataType::List(c) | DataType::LargeList(c) | DataType::Map(c, _) => contains_type(c.data_type(), &|x| matches!(x, DataType::Union(..))),
            _ => false,
        })
    });
    if union_below_list && windowed {
        // write_array_data slices the list's child ArrayData but its Union arm ignores that offset:
        // dense -> other rows' values come back, sparse -> children longer than the union
        let dense_symptom = kind.ends_with("rows-differ") && family.contains("union");
        let sparse_symptom = kind.ends_with("read-err") && detail.contains("Sparse union child arrays must be equal in length to the length of the union");
        if dense_symptom || sparse_symptom {
            return Some("c04:union-below-list:writer-ignores-child-offset".to_string());
        }
    }
    if has_ree && o.ver != 0 && (kind.ends_with("read-err") || kind.ends_with("read-panic")) {
        // writer emits a validity buffer for run-end encoded arrays under metadata V4, reader never reads one
        return Some(format!("c04:ree-with-metadata-v4:{}", if kind.ends_with("panic") { "reader-panics" } else { "reader-rejects" }));
    }
    if has_ree && kind.ends_with("read-err") && detail.contains("run_ends array should be strictly positive. Found value 0 at index 0") {
        // zero-length slice of a run array is written with a single run end 0
        return Some("c04:ree-zero-length-slice:written-run-end-0-rejected-by-reader".to_string());
    }
    None
}

/// Context for turning failures into fingerprints.
pub struct Rep<'a> {
    pub schema: &'a Schema,
    pub opts: &'a Opts,
    /// the written arrays (or their children) are windows that do not start at position 0
    /// (any non-compact layout, or a Flight encoder that splits batches)
    pub windowed: bool,
    pub layout_class: String,
    pub opt_class: String,
    /// optional reducer: given (kind, family) of a failure group, tries simpler configurations and
    /// returns (family, layout class, option class) of the simplest one that fails the same way
    pub reduce: Option<&'a dyn Fn(&str, &str) -> (String, String, String)>,
}

/// Aggregate the failures of one case into class-level fingerprints.
/// `pairs` = every (writer, reader) pair that was exercised in the case.
pub fn report(st: &mut Stats, order: u64, rep: &Rep, fails: &[Fail], pairs: &[(String, String)], case: &dyn Fn() -> Value) {
    let mut groups: BTreeMap<(String, String), Vec<&Fail>> = BTreeMap::new();
    for f in fails {
        groups.entry((f.kind.clone(), f.family.clone())).or_default().push(f);
    }
    let writers: BTreeSet<&String> = pairs.iter().map(|p| &p.0).collect();
    for ((kind, fam), fs) in groups {
        let msg = format!("{} -> {}: {}", fs[0].writer, fs[0].reader.clone().unwrap_or("-".into()), fs[0].detail);
        if let Some(fp) = known_rule(&kind, &fam, &fs[0].detail, rep.schema, rep.opts, rep.windowed) {
            st.violate(order, fp, msg, case);
            continue;
        }
        let mut who: Vec<String> = vec![];
        let mut whole_writers = 0;
        for w in &writers {
            // projected reads only exist for the readers that take a projection
            let proj_only = kind.starts_with("projection");
            let readers: BTreeSet<&String> = pairs.iter().filter(|p| &&p.0 == w).map(|p| &p.1).filter(|r| !proj_only || !r.starts_with("StreamDecoder")).collect();
            let failing: BTreeSet<&String> = fs.iter().filter(|f| &&f.writer == w).filter_map(|f| f.reader.as_ref()).collect();
            let write_failed = fs.iter().any(|f| &&f.writer == w && f.reader.is_none());
            if write_failed || (!readers.is_empty() && failing.len() == readers.len()) {
                who.push((*w).clone());
                whole_writers += 1;
            } else {
                for r in failing {
                    who.push(format!("{w}>{r}"));
                }
            }
        }
        let who = if whole_writers == writers.len() && writers.len() > 1 { "all".to_string() } else { who.join("+") };
        let (fam, lc, oc) = match rep.reduce {
            Some(r) => r(&kind, &fam),
            None => (fam.clone(), rep.layout_class.clone(), rep.opt_class.clone()),
        };
        let fp = format!("c04:{kind}:{fam}:{lc}:{oc}:{who}");
        st.violate(order, fp, msg, case);
    }
}

fn proj_menu(n: usize) -> Vec<Vec<usize>> {
    let mut v: Vec<Vec<usize>> = vec![];
    for m in 0..(1u32 << n) {
        v.push((0..n).filter(|i| m >> i & 1 == 1).collect());
    }
    if n >= 2 {
        v.push((0..n).rev().collect()); // reordered
        v.push(vec![n - 1, n - 1]); // duplicate
    }
    v
}

/// Write `batches` with every writer in `writers`, read with every matching reader, compare with the
/// model; every projection in `projs` is compared with the projected full read.
#[allow(clippy::too_many_arguments)]
pub fn roundtrip_all(
    st: &mut Stats,
    schema: &SchemaRef,
    batches: &[RecordBatch],
    model: &[MBatch],
    o: &Opts,
    writers: &[W],
    projs: &[Vec<usize>],
    custom_md: &[(String, String)],
) -> (u64, Vec<Fail>, Vec<(String, String)>) {
    let mut fails = vec![];
    let mut pairs = vec![];
    let mut n = 0u64;
    let fam_all = || schema.fields().iter().map(|f| family(f.data_type())).collect::<Vec<_>>().join("|");
    for &w in writers {
        let written = match write(w, schema, batches, o, if w.is_file() { custom_md } else { &[] }) {
            Ok(x) => x,
            Err(e) => {
                n += 1;
                pairs.push((w.name().to_string(), "-".to_string()));
                st.outcome("write-err");
                fails.push(Fail { writer: w.name().into(), reader: None, kind: if e.panic { "write-panic".into() } else { "write-err".into() }, family: fam_all(), detail: format!("at {:?}: {}", e.at, e.msg) });
                continue;
            }
        };
        for r in readers_for(&written) {
            n += 1;
            pairs.push((w.name().to_string(), r.name().to_string()));
            let full = match read(r, &written, None) {
                Ok(d) => d,
                Err(e) => {
                    st.outcome("read-err");
                    fails.push(Fail { writer: w.name().into(), reader: Some(r.name().into()), kind: if e.panic { "read-panic".into() } else { "read-err".into() }, family: fam_all(), detail: e.msg });
                    continue;
                }
            };
            match compare(schema, model, &full) {
                Ok(()) => st.outcome(&format!("ok:{}>{}", w.name(), r.name())),
                Err(m) => {
                    st.outcome(&format!("mismatch:{}", m.kind));
                    fails.push(Fail { writer: w.name().into(), reader: Some(r.name().into()), kind: m.kind.into(), family: m.family, detail: m.detail });
                    continue;
                }
            }
            if let Some(md) = &full.custom_md {
                let exp: HashMap<String, String> = custom_md.iter().cloned().collect();
                if md != &exp {
                    fails.push(Fail { writer: w.name().into(), reader: Some(r.name().into()), kind: "custom-metadata".into(), family: "-".into(), detail: format!("expected {exp:?} got {md:?}") });
                }
            }
            if r.supports_projection() {
                for p in projs {
                    n += 1;
                    match read(r, &written, Some(p.clone())) {
                        Ok(d) => match compare_projection(&full, p, &d) {
                            Ok(()) => st.outcome("ok:projection"),
                            Err(m) => {
                                st.outcome("mismatch:projection");
                                fails.push(Fail { writer: w.name().into(), reader: Some(r.name().into()), kind: format!("projection-{}", m.kind), family: m.family, detail: format!("projection {p:?}: {}", m.detail) });
                            }
                        },
                        Err(e) => {
                            st.outcome("read-err:projection");
                            fails.push(Fail { writer: w.name().into(), reader: Some(r.name().into()), kind: if e.panic { "projection-read-panic".into() } else { "projection-read-err".into() }, family: fam_all(), detail: format!("projection {p:?}: {}", e.msg) });
                        }
                    }
                }
            }
        }
    }
    (n, fails, pairs)
}

// ------------------------------------------------------------------------------------------------
// shared: one column case description (replayable)

fn col_from_idx(dt: &DataType, nullable: bool, idx: &[usize]) -> Vec<Val> {
    let a = alphabet(dt, nullable);
    idx.iter().map(|&i| a[i % a.len()].clone()).collect()
}
/// all index sequences of length 0..=n over an alphabet of size k
fn idx_columns(k: usize, n: usize) -> Vec<Vec<usize>> {
    let mut out: Vec<Vec<usize>> = vec![vec![]];
    let mut last: Vec<Vec<usize>> = vec![vec![]];
    for _ in 0..n {
        let mut next = vec![];
        for c in &last {
            for l in 0..k {
                let mut d = c.clone();
                d.push(l);
                next.push(d);
            }
        }
        out.extend(next.iter().cloned());
        last = next;
    }
    out
}
fn layout_json(l: Layout) -> Value {
    match l {
        Layout::Sliced(p, q) => json!({"k": "sliced", "p": p, "q": q}),
        o => json!({"k": o.class()}),
    }
}
fn layout_from_json(v: &Value) -> Layout {
    match v["k"].as_str().unwrap_or("compact") {
        "sliced" => Layout::Sliced(v["p"].as_u64().unwrap() as usize, v["q"].as_u64().unwrap() as usize),
        "allvalid" => Layout::AllValidBuf,
        "garbage" => Layout::Garbage,
        "firstoffset" => Layout::FirstOffset,
        "padded" => Layout::Padded,
        "childsliced" => Layout::ChildSliced,
        "alt1" => Layout::Alt1,
        "alt2" => Layout::Alt2,
        _ => Layout::Compact,
    }
}

struct Item {
    ty: usize,
    nullable: bool,
    col: Vec<usize>,
}
fn single_items(types: &[DataType], n: usize) -> Vec<Item> {
    let mut v = vec![];
    for (ti, dt) in types.iter().enumerate() {
        for nullable in [true, false] {
            if matches!(dt, DataType::Null) && !nullable {
                continue; // a Null column is all-null
            }
            let a = alphabet(dt, nullable);
            for col in idx_columns(a.len(), n) {
                v.push(Item { ty: ti, nullable, col });
            }
        }
    }
    v
}

/// documented rejection: compression needs metadata V5
fn opts_invalid(o: &Opts) -> bool {
    o.ver != 0 && o.comp != 0
}

/// Build the one-column case and run every writer/reader pair. Err = harness problem (fingerprint, message).
#[allow(clippy::too_many_arguments, clippy::type_complexity)]
fn single_eval(st: &mut Stats, dt: &DataType, nullable: bool, col: &[Val], lay: Layout, o: &Opts, writers: &[W], with_proj: bool) -> Result<(u64, Vec<Fail>, Vec<(String, String)>, SchemaRef), (String, String)> {
    let arr: ArrayRef = realise(dt, col, lay).map_err(|e| (format!("harness:realise:{}:{}", family(dt), lay.class()), format!("{dt} {} {}: {e}", show_col(col), lay.name())))?;
    match extract(arr.as_ref()) {
        Ok(v) if v == col => {}
        other => return Err((format!("harness:extract:{}:{}", family(dt), lay.class()), format!("{dt} {} {}: extract gives {:?}", show_col(col), lay.name(), other.map(|v| show_col(&v))))),
    }
    let schema: SchemaRef = Arc::new(Schema::new(vec![Field::new("c", dt.clone(), nullable)]));
    let batch = make_batch(&schema, col.len(), vec![arr]).map_err(|e| (format!("harness:batch:{}:{}", family(dt), lay.class()), e))?;
    let model = vec![MBatch { rows: col.len(), cols: vec![col.to_vec()] }];
    let projs: Vec<Vec<usize>> = if with_proj { proj_menu(1) } else { vec![] };
    let (n, fails, pairs) = roundtrip_all(st, &schema, &[batch], &model, o, writers, &projs, &[]);
    Ok((n, fails, pairs, schema))
}

#[allow(clippy::too_many_arguments)]
fn single_case(st: &mut Stats, order: u64, sub: &str, full: bool, ty: usize, dt: &DataType, nullable: bool, cidx: &[usize], lay: Layout, o: &Opts, writers: &[W]) {
    let col = col_from_idx(dt, nullable, cidx);
    if !layout_applies(dt, &col, lay) {
        return;
    }
    let case = || json!({"sub": sub, "full": full, "ty": ty, "type": format!("{dt}"), "nullable": nullable, "col_idx": cidx, "col": show_col(&col), "layout": layout_json(lay), "opts": o.json()});
    if opts_invalid(o) {
        st.add(sub, 1, 0);
        match o.to_ipc() {
            Err(m) if m.contains("Compression only supported in metadata v5") => st.outcome("options-rejected-as-documented"),
            other => st.violate(order, format!("c04:invalid-options-accepted:{}", o.class()), format!("{}: expected rejection, got {:?}", o.name(), other.map(|_| "Ok")), case),
        }
        return;
    }
    let (n, fails, pairs, schema) = match single_eval(st, dt, nullable, &col, lay, o, writers, lay == Layout::Compact) {
        Ok(x) => x,
        Err((fp, msg)) => {
            st.violate(order, fp, msg, case);
            return;
        }
    };
    st.add(sub, n, if col.is_empty() { 0 } else { 1 });
    st.sample(sub, case);
    if !fails.is_empty() {
        // reduce the option point and the layout to the simplest one that fails the same way
        let reduce = |kind: &str, fam: &str| -> (String, String, String) {
            let same = |l: Layout, oo: &Opts| -> bool {
                if !layout_applies(dt, &col, l) {
                    return false;
                }
                let mut scratch = Stats::new();
                match single_eval(&mut scratch, dt, nullable, &col, l, oo, writers, false) {
                    Ok((_, f, _, _)) => f.iter().any(|x| x.kind == kind && x.family == fam),
                    Err(_) => false,
                }
            };
            let d = Opts::default();
            let oc = if *o != d && same(lay, &d) { d } else { *o };
            let lc = if lay != Layout::Compact && same(Layout::Compact, &oc) { Layout::Compact } else { lay };
            (fam.to_string(), lc.class().to_string(), oc.class())
        };
        let rep = Rep { schema: &schema, opts: o, windowed: lay != Layout::Compact, layout_class: lay.class().into(), opt_class: o.class(), reduce: Some(&reduce) };
        report(st, order, &rep, &fails, &pairs, &case);
    }
}

fn run_single(ctx: &Ctx) -> Stats {
    let full = !ctx.quick();
    let types = grid(full);
    let items = single_items(&types, ctx.pick(3, 4));
    let layouts = all_layouts(&[0, 1]);
    let o = Opts::default();
    let nl = layouts.len() as u64;
    let mut st = par_for(ctx, "single", items.len() as u64 * nl, 64, |idx, st| {
        let it = &items[(idx / nl) as usize];
        let lay = layouts[(idx % nl) as usize];
        single_case(st, idx, "single", full, it.ty, &types[it.ty], it.nullable, &it.col, lay, &o, &WRITERS);
    });
    st.extra.insert("single_types".into(), json!(types.iter().map(|t| format!("{t}")).collect::<Vec<_>>()));
    st.extra.insert("single_layouts".into(), json!(layouts.iter().map(|l| l.name()).collect::<Vec<_>>()));
    st.count("single.items(type,nullable,column)", items.len() as u64);
    st
}

/// LZ4_FRAME costs ~100x the other option points (lz4_flex frame encoder/decoder allocate their block
/// buffers per Arrow buffer), so it gets a smaller - still exhaustive - input menu.
fn expensive(o: &Opts) -> bool {
    o.comp == 1 && !opts_invalid(o)
}

fn run_options(ctx: &Ctx) -> Stats {
    let full = !ctx.quick();
    let types = grid(full);
    let filt = ctx.extra_args.iter().find_map(|a| a.strip_prefix("--optclass=").map(|s| s.to_string()));
    let opts: Vec<Opts> = Opts::enumerate(ctx.pick(2, 3)).into_iter().filter(|o| o.deviations() > 0).filter(|o| !(o.comp == 1 && o.deviations() > 2)).filter(|o| filt.as_ref().map(|f| o.name().contains(f.as_str())).unwrap_or(true)).collect();
    // menus: (items, layouts) for cheap option points, for LZ4 alone, for LZ4 + one more deviation
    let items_cheap = single_items(&types, ctx.pick(2, 3));
    let lay_cheap: Vec<Layout> = if ctx.quick() { vec![Layout::Compact, Layout::Sliced(1, 1), Layout::Sliced(9, 0), Layout::Sliced(64, 1), Layout::ChildSliced, Layout::FirstOffset] } else { all_layouts(&[1]) };
    let items_lz4 = single_items(&types, ctx.pick(1, 2));
    let lay_lz4: Vec<Layout> = if ctx.quick() { vec![Layout::Sliced(9, 1)] } else { vec![Layout::Compact, Layout::Sliced(1, 1), Layout::Sliced(9, 0), Layout::Sliced(64, 1), Layout::ChildSliced] };
    let items_lz4x = single_items(&types, ctx.pick(0, 1));
    let lay_lz4x: Vec<Layout> = if ctx.quick() { vec![Layout::Sliced(9, 1)] } else { vec![Layout::Compact, Layout::Sliced(9, 1)] };
    // a 3-row column (every letter once) is added to the small menus so that they are never only empty columns
    let three = |v: &mut Vec<Item>| {
        for (ti, dt) in types.iter().enumerate() {
            for nullable in [true, false] {
                if matches!(dt, DataType::Null) && !nullable {
                    continue;
                }
                v.push(Item { ty: ti, nullable, col: vec![0, 1, 2] });
            }
        }
    };
    let (mut items_lz4, mut items_lz4x) = (items_lz4, items_lz4x);
    three(&mut items_lz4);
    three(&mut items_lz4x);
    let mut plan: Vec<(u16, u8, u32, u8)> = vec![]; // (option idx, menu id, item idx, layout idx)
    for (oi, o) in opts.iter().enumerate() {
        let (menu, ni, nl) = if !expensive(o) {
            (0u8, items_cheap.len(), lay_cheap.len())
        } else if o.deviations() == 1 {
            (1, items_lz4.len(), lay_lz4.len())
        } else {
            (2, items_lz4x.len(), lay_lz4x.len())
        };
        for ii in 0..ni {
            for li in 0..nl {
                plan.push((oi as u16, menu, ii as u32, li as u8));
            }
        }
    }
    let base = 1u64 << 40;
    let mut st = par_for(ctx, "options", plan.len() as u64, 64, |idx, st| {
        let (oi, menu, ii, li) = plan[idx as usize];
        let (items, lays) = match menu {
            0 => (&items_cheap, &lay_cheap),
            1 => (&items_lz4, &lay_lz4),
            _ => (&items_lz4x, &lay_lz4x),
        };
        let it = &items[ii as usize];
        single_case(st, base + idx, "options", full, it.ty, &types[it.ty], it.nullable, &it.col, lays[li as usize], &opts[oi as usize], &WRITERS);
    });
    st.extra.insert("option_points".into(), json!(opts.iter().map(|o| o.name()).collect::<Vec<_>>()));
    st.extra.insert("options_layouts".into(), json!({"cheap": lay_cheap.iter().map(|l| l.name()).collect::<Vec<_>>(), "lz4": lay_lz4.iter().map(|l| l.name()).collect::<Vec<_>>(), "lz4+1": lay_lz4x.iter().map(|l| l.name()).collect::<Vec<_>>()}));
    st.extra.insert("options_column_bound".into(), json!({"cheap": ctx.pick(2, 3), "lz4": format!("N<={} plus one 3-row column", ctx.pick(1, 2)), "lz4+1": format!("N<={} plus one 3-row column", ctx.pick(0, 1))}));
    st
}

// ------------------------------------------------------------------------------------------------
// sub-engine C: multi column / multi batch / projection / metadata

fn multi_types(full: bool) -> Vec<DataType> {
    use DataType::*;
    let mut v = vec![
        Int32,
        Utf8View,
        Null,
        list_of(Int32),
        struct_of(vec![("a", Int32, true), ("b", Utf8, true)]),
        dict_of(Int8, Utf8),
        ree_of(Int16, Int32),
        union_of(vec![(0, "i", Int32), (5, "s", Utf8)], arrow_schema::UnionMode::Dense),
                Boolean,
        Utf8,
        FixedSizeBinary(3),
        map_of(Utf8, Int32),
    ];
    if full {
        v.extend([
            ListView(fld("item", Int32, true)),
            FixedSizeList(fld("item", Int32, true), 2),
            union_of(vec![(0, "i", Int32), (5, "s", Utf8)], arrow_schema::UnionMode::Sparse),
            list_of(dict_of(Int8, Utf8)),
        ]);
    }
    v
}
fn md_map(pairs: &[(&str, &str)]) -> HashMap<String, String> {
    pairs.iter().map(|(k, v)| (k.to_string(), v.to_string())).collect()
}
/// put metadata on the first nested child field of a type (if any)
fn with_child_md(dt: &DataType) -> DataType {
    use DataType::*;
    let md = md_map(&[("child-k", "child-v")]);
    let m = |f: &arrow_schema::FieldRef| Arc::new(f.as_ref().clone().with_metadata(md.clone()));
    match dt {
        List(f) => List(m(f)),
        ListView(f) => ListView(m(f)),
        FixedSizeList(f, n) => FixedSizeList(m(f), *n),
        Struct(fs) if !fs.is_empty() => Struct(fs.iter().enumerate().map(|(i, f)| if i == 0 { m(f) } else { f.clone() }).collect()),
        o => o.clone(),
    }
}

struct MultiIn {
    schema: SchemaRef,
    batches: Vec<RecordBatch>,
    model: Vec<MBatch>,
    custom: Vec<(String, String)>,
}

/// Build schema + batches for a multi case. `only`: keep just that field (used by the reducer).
#[allow(clippy::too_many_arguments)]
fn multi_build(types: &[DataType], tys: &[usize], nullable: bool, rows: &[usize], lay: Layout, md: u8, only: Option<usize>) -> Result<MultiIn, (String, String)> {
    let mut fields = vec![];
    for (j, &t) in tys.iter().enumerate() {
        let dt = if md == 1 { with_child_md(&types[t]) } else { types[t].clone() };
        let nl = nullable || matches!(dt, DataType::Null);
        let mut f = Field::new(format!("f{j}"), dt, nl);
        if md == 1 && j == 0 {
            f = f.with_metadata(md_map(&[("k", "v"), ("empty", ""), ("\u{e9}", "\u{fc}")]));
        }
        fields.push(f);
    }
    let keep: Vec<usize> = match only {
        Some(j) => vec![j],
        None => (0..fields.len()).collect(),
    };
    let mut schema = Schema::new(keep.iter().map(|&j| fields[j].clone()).collect::<Vec<_>>());
    let mut custom: Vec<(String, String)> = vec![];
    if md == 1 {
        schema = schema.with_metadata(md_map(&[("schema-k", "schema-v"), ("", "empty-key")]));
        custom = vec![("custom".to_string(), "meta".to_string()), ("c2".to_string(), "".to_string())];
    }
    let schema: SchemaRef = Arc::new(schema);
    let mut batches = vec![];
    let mut model = vec![];
    for (b, &n) in rows.iter().enumerate() {
        let mut arrs = vec![];
        let mut cols = vec![];
        for &j in &keep {
            let f = &fields[j];
            let a = alphabet(f.data_type(), f.is_nullable());
            let col: Vec<Val> = (0..n).map(|r| a[(j + 2 * b + r) % a.len()].clone()).collect();
            // one dictionary per field across the batch sequence (replacement histories live in dict.rs)
            arrs.push(realise_with(f.data_type(), &col, lay, true).map_err(|e| (format!("harness:realise:{}:{}", family(f.data_type()), lay.class()), e))?);
            cols.push(col);
        }
        batches.push(make_batch(&schema, n, arrs).map_err(|e| ("harness:batch:multi".to_string(), e))?);
        model.push(MBatch { rows: n, cols });
    }
    Ok(MultiIn { schema, batches, model, custom })
}

#[allow(clippy::too_many_arguments)]
fn multi_case(st: &mut Stats, order: u64, full: bool, tys: &[usize], nullable: bool, rows: &[usize], lay: Layout, md: u8, o: &Opts) {
    let types = multi_types(full);
    let case = || json!({"sub": "multi", "full": full, "tys": tys, "types": tys.iter().map(|&t| format!("{}", types[t])).collect::<Vec<_>>(), "nullable": nullable, "rows": rows, "layout": layout_json(lay), "md": md, "opts": o.json()});
    let inp = match multi_build(&types, tys, nullable, rows, lay, md, None) {
        Ok(x) => x,
        Err((fp, msg)) => {
            st.violate(order, fp, msg, case);
            return;
        }
    };
    let projs = proj_menu(tys.len());
    let (n, fails, pairs) = roundtrip_all(st, &inp.schema, &inp.batches, &inp.model, o, &WRITERS, &projs, &inp.custom);
    st.add("multi", n, if rows.iter().any(|r| *r > 0) { 1 } else { 0 });
    st.sample("multi", case);
    if !fails.is_empty() {
        let oc = format!("{}{}", o.class(), if md == 1 { "+md" } else { "" });
        // reduce to the single column that fails the same way, if there is one
        let reduce = |kind: &str, fam: &str| -> (String, String, String) {
            for j in 0..tys.len() {
                if let Ok(one) = multi_build(&types, tys, nullable, rows, lay, md, Some(j)) {
                    let mut scratch = Stats::new();
                    let (_, f, _) = roundtrip_all(&mut scratch, &one.schema, &one.batches, &one.model, o, &WRITERS, &proj_menu(1), &one.custom);
                    if f.iter().any(|x| x.kind == kind) {
                        return (family(one.schema.field(0).data_type()), lay.class().to_string(), oc.clone());
                    }
                }
            }
            (format!("multi[{fam}]"), lay.class().to_string(), oc.clone())
        };
        let rep = Rep { schema: &inp.schema, opts: o, windowed: lay != Layout::Compact, layout_class: lay.class().into(), opt_class: oc.clone(), reduce: Some(&reduce) };
        report(st, order, &rep, &fails, &pairs, &case);
    }
}

struct MultiSpace {
    schemas: Vec<Vec<usize>>,
    rowseqs: Vec<Vec<usize>>,
    layouts: Vec<Layout>,
}
fn multi_space(ctx: &Ctx) -> MultiSpace {
    let nt = multi_types(!ctx.quick()).len();
    // triples range over the first `n3` types of the menu, pairs and singles over all of it
    let n3 = if ctx.quick() { 6 } else { nt };
    let mut schemas: Vec<Vec<usize>> = vec![vec![]];
    for a in 0..nt {
        schemas.push(vec![a]);
    }
    for a in 0..nt {
        for b in 0..nt {
            schemas.push(vec![a, b]);
        }
    }
    for a in 0..n3 {
        for b in 0..n3 {
            for c in 0..n3 {
                schemas.push(vec![a, b, c]);
            }
        }
    }
    let rc: Vec<usize> = if ctx.quick() { vec![0, 2] } else { vec![0, 1, 3] };
    let mut rowseqs: Vec<Vec<usize>> = vec![vec![]];
    let mut last: Vec<Vec<usize>> = vec![vec![]];
    for _ in 0..3 {
        let mut next = vec![];
        for s in &last {
            for r in &rc {
                let mut t = s.clone();
                t.push(*r);
                next.push(t);
            }
        }
        rowseqs.extend(next.iter().cloned());
        last = next;
    }
    let layouts = if ctx.quick() { vec![Layout::Compact, Layout::Sliced(1, 0), Layout::Sliced(65, 1)] } else { vec![Layout::Compact, Layout::Sliced(1, 0), Layout::Sliced(3, 1), Layout::Sliced(8, 1), Layout::Sliced(9, 0), Layout::Sliced(63, 1), Layout::Sliced(64, 0), Layout::Sliced(65, 1)] };
    MultiSpace { schemas, rowseqs, layouts }
}

fn run_multi(ctx: &Ctx) -> Stats {
    let full = !ctx.quick();
    let sp = multi_space(ctx);
    // plan: schema x rowseq x (nullable fields: every layout | non-nullable fields: compact) ;
    // the metadata variant (schema + field + nested field + file custom metadata) for schemas of <= 2 fields
    let mut plan: Vec<(u32, u16, u8, bool, u8)> = vec![]; // schema, rowseq, layout, nullable, md
    for (si, s) in sp.schemas.iter().enumerate() {
        for ri in 0..sp.rowseqs.len() {
            for li in 0..sp.layouts.len() {
                plan.push((si as u32, ri as u16, li as u8, true, 0));
            }
            plan.push((si as u32, ri as u16, 0, false, 0));
            if s.len() <= 2 {
                plan.push((si as u32, ri as u16, 0, true, 1));
                plan.push((si as u32, ri as u16, (sp.layouts.len() - 1) as u8, true, 1));
            }
        }
    }
    let base = 2u64 << 40;
    let o = Opts::default();
    let mut st = par_for(ctx, "multi", plan.len() as u64, 16, |idx, st| {
        let (si, ri, li, nullable, md) = plan[idx as usize];
        multi_case(st, base + idx, full, &sp.schemas[si as usize], nullable, &sp.rowseqs[ri as usize], sp.layouts[li as usize], md, &o);
    });
    // options on a small part of the space: 2-field schemas, one row sequence, every single deviation (LZ4: compact only)
    let opts: Vec<Opts> = Opts::enumerate(1).into_iter().filter(|o| o.deviations() == 1).collect();
    let two: Vec<&Vec<usize>> = sp.schemas.iter().filter(|s| s.len() == 2).collect();
    let mut plan2: Vec<(u32, u8, u8)> = vec![];
    for ti in 0..two.len() {
        for (oi, o) in opts.iter().enumerate() {
            for li in 0..sp.layouts.len() {
                if expensive(o) && li != 1 {
                    continue;
                }
                plan2.push((ti as u32, oi as u8, li as u8));
            }
        }
    }
    let base2 = 3u64 << 40;
    st.merge(par_for(ctx, "multi-options", plan2.len() as u64, 16, |idx, st| {
        let (ti, oi, li) = plan2[idx as usize];
        multi_case(st, base2 + idx, full, two[ti as usize], true, &[2, 0, 3], sp.layouts[li as usize], 0, &opts[oi as usize]);
    }));
    st.extra.insert("multi_types".into(), json!(multi_types(full).iter().map(|t| format!("{t}")).collect::<Vec<_>>()));
    st.extra.insert("multi_row_sequences".into(), json!(sp.rowseqs));
    st.extra.insert("multi_layouts".into(), json!(sp.layouts.iter().map(|l| l.name()).collect::<Vec<_>>()));
    st.count("multi.schemas", sp.schemas.len() as u64);
    st
}

// ------------------------------------------------------------------------------------------------
// sub-engine E: Flight

/// expected schema on the wire
pub fn flight_expected_schema(schema: &Schema, resend: bool) -> Schema {
    if resend {
        return schema.clone();
    }
    let fields: Vec<Field> = schema.fields().iter().map(|f| f.as_ref().clone().with_data_type(hydrated_type(f.data_type()))).collect();
    Schema::new_with_metadata(fields, schema.metadata().clone())
}

/// Rebuild a field with every union-typed field (at any depth) made non-nullable (`flags`) and/or stripped of
/// its metadata (`md`).
fn strip_union_field(f: &Field, flags: bool, md: bool) -> Field {
    use DataType::*;
    let sf = |x: &arrow_schema::FieldRef| Arc::new(strip_union_field(x, flags, md));
    let dt = match f.data_type() {
        List(c) => List(sf(c)),
        LargeList(c) => LargeList(sf(c)),
        ListView(c) => ListView(sf(c)),
        LargeListView(c) => LargeListView(sf(c)),
        FixedSizeList(c, n) => FixedSizeList(sf(c), *n),
        Map(c, s) => Map(sf(c), *s),
        Struct(fs) => Struct(fs.iter().map(sf).collect()),
        RunEndEncoded(r, v) => RunEndEncoded(r.clone(), sf(v)),
        Union(fs, m) => Union(arrow_schema::UnionFields::try_new(fs.iter().map(|(i, _)| i), fs.iter().map(|(_, x)| strip_union_field(x, flags, md))).unwrap(), *m),
        o => o.clone(),
    };
    let is_union = matches!(f.data_type(), Union(..));
    let mut out = f.clone().with_data_type(dt);
    if is_union && flags {
        out = out.with_nullable(false);
    }
    if is_union && md {
        out = out.with_metadata(HashMap::new());
    }
    out
}
/// Tags the case "the schemas differ only in the nullable flag / the metadata of union-typed fields".
fn union_field_tags(exp: &Schema, got: &Schema) -> String {
    let strip = |s: &Schema, flags: bool, md: bool| Schema::new_with_metadata(s.fields().iter().map(|f| strip_union_field(f, flags, md)).collect::<Vec<_>>(), s.metadata().clone());
    if exp == got || strip(exp, true, true) != strip(got, true, true) {
        return String::new();
    }
    if strip(exp, false, true) == strip(got, false, true) {
        return " @union-field-metadata-dropped".to_string();
    }
    " @union-field-nullable-cleared".to_string()
}

/// Compare decoded Flight batches with the model. `split` = batches may have been split: rows are
/// compared after concatenation (order preserved), otherwise batch by batch.
pub fn flight_compare(exp_schema: &Schema, model: &[MBatch], got_schema: Option<&SchemaRef>, got: &[RecordBatch], split: bool, drop_empty: bool) -> Result<(), Mismatch> {
    match got_schema {
        Some(s) => {
            if s.as_ref() != exp_schema {
                return Err(Mismatch { kind: "schema-differs", family: schema_diff_class(exp_schema, s).into(), detail: format!("{}{}", schema_diff(exp_schema, s), union_field_tags(exp_schema, s)) });
            }
        }
        None => return Err(Mismatch { kind: "schema-missing", family: "-".into(), detail: "decoder saw no schema".into() }),
    }
    if !split {
        // no splitting requested: non-empty batches map one to one (the encoder emits nothing for a
        // 0-row batch: "split into pieces of rows" yields no piece; recorded as an outcome by the caller)
        let ne: Vec<MBatch> = model.iter().filter(|m| m.rows > 0 || !drop_empty).cloned().collect();
        let d = Decoded { schema: got_schema.unwrap().clone(), batches: got.to_vec(), custom_md: None };
        return compare(exp_schema, &ne, &d);
    }
    // every decoded batch individually well formed and typed
    let ncols = exp_schema.fields().len();
    let mut cat: Vec<Vec<Val>> = vec![vec![]; ncols];
    let mut rows = 0;
    for g in got {
        let e = MBatch {
            rows: g.num_rows(),
            cols: (0..ncols.min(g.num_columns())).map(|c| extract(g.column(c).as_ref()).unwrap_or_default()).collect(),
        };
        // reuse compare_batch for schema / type / wf checks (values trivially equal to themselves)
        compare_batch(exp_schema, &e, g)?;
        for c in 0..ncols {
            cat[c].extend(e.cols[c].iter().cloned());
        }
        rows += g.num_rows();
    }
    let exp_rows: usize = model.iter().map(|m| m.rows).sum();
    if rows != exp_rows {
        return Err(Mismatch { kind: "row-count", family: "-".into(), detail: format!("expected {exp_rows} rows in total, got {rows} in {} batches", got.len()) });
    }
    for c in 0..ncols {
        let exp: Vec<Val> = model.iter().flat_map(|m| m.cols[c].iter().cloned()).collect();
        if exp != cat[c] {
            return Err(Mismatch { kind: "rows-differ", family: family(exp_schema.field(c).data_type()), detail: format!("column {c} concatenated: expected {} got {}", show_col(&exp), show_col(&cat[c])) });
        }
    }
    Ok(())
}

struct FlightOut {
    n: u64,
    fails: Vec<Fail>,
    pairs: Vec<(String, String)>,
    schema: SchemaRef,
}

/// One Flight case: FlightDataEncoder -> both decoders, and (default configuration only) the utils pair.
#[allow(clippy::too_many_arguments)]
fn flight_eval(st: &mut Stats, dt: &DataType, nullable: bool, col: &[Val], lay: Layout, o: &Opts, cfg: &FlightCfg, nbatches: usize, md: bool) -> Result<FlightOut, (String, String)> {
    let mut f = Field::new("c", dt.clone(), nullable);
    if md {
        f = f.with_metadata(md_map(&[("k", "v")]));
    }
    let mut sch = Schema::new(vec![f]);
    if md {
        sch = sch.with_metadata(md_map(&[("schema-k", "schema-v")]));
    }
    let schema: SchemaRef = Arc::new(sch);
    let mut batches = vec![];
    let mut model = vec![];
    for b in 0..nbatches {
        // later batches rotate the column so that batches differ
        let mut c = col.to_vec();
        if !c.is_empty() {
            let k = b % c.len();
            c.rotate_left(k);
        }
        let arr = realise(dt, &c, lay).map_err(|e| (format!("harness:realise:{}:{}", family(dt), lay.class()), e))?;
        batches.push(make_batch(&schema, c.len(), vec![arr]).map_err(|e| ("harness:batch:flight".to_string(), e))?);
        model.push(MBatch { rows: c.len(), cols: vec![c] });
    }
    let fam = family(dt);
    let mut out = FlightOut { n: 0, fails: vec![], pairs: vec![], schema: schema.clone() };
    let enc_name = "FlightDataEncoder";
    out.n += 1;
    match flight::encode(&schema, &batches, o, cfg) {
        Err(e) => {
            out.pairs.push((enc_name.into(), "-".into()));
            st.outcome("flight-encode-err");
            out.fails.push(Fail { writer: enc_name.into(), reader: None, kind: if e.panic { "flight-encode-panic".into() } else { "flight-encode-err".into() }, family: fam.clone(), detail: e.msg });
        }
        Ok(fd) => {
            let exp_schema = flight_expected_schema(&schema, cfg.resend);
            if !cfg.with_schema && nbatches == 0 {
                out.pairs.push((enc_name.into(), "-".into()));
                if !fd.is_empty() {
                    out.fails.push(Fail { writer: enc_name.into(), reader: None, kind: "flight-messages-without-input".into(), family: "-".into(), detail: format!("{} messages from an empty input without schema", fd.len()) });
                }
            } else {
                let split = cfg.max_size.is_some();
                for (rname, res) in [("FlightRecordBatchStream", flight::decode_stream(&fd)), ("FlightDataDecoder", flight::decode_low(&fd))] {
                    out.n += 1;
                    out.pairs.push((enc_name.into(), rname.into()));
                    match res {
                        Err(e) => {
                            st.outcome("flight-decode-err");
                            out.fails.push(Fail { writer: enc_name.into(), reader: Some(rname.into()), kind: if e.panic { "flight-read-panic".into() } else { "flight-read-err".into() }, family: fam.clone(), detail: e.msg });
                        }
                        Ok(d) => match flight_compare(&exp_schema, &model, d.schema.as_ref(), &d.batches, split, true) {
                            Ok(()) => {
                                st.outcome(&format!("ok:flight-{}>{rname}", if cfg.resend { "resend" } else { "hydrate" }));
                                if !split && d.batches.len() < model.len() {
                                    st.outcome("flight:zero-row-batch-not-transmitted");
                                }
                                if d.batches.len() > model.len() {
                                    st.outcome("flight:batch-split");
                                }
                            }
                            Err(m) => {
                                st.outcome(&format!("flight-mismatch:{}", m.kind));
                                out.fails.push(Fail { writer: enc_name.into(), reader: Some(rname.into()), kind: format!("flight-{}", m.kind), family: m.family, detail: m.detail });
                            }
                        },
                    }
                }
            }
        }
    }
    // utils::batches_to_flight_data (always default options)
    if *o == Opts::default() && cfg.max_size.is_none() && !cfg.resend && cfg.with_schema {
        let un = "batches_to_flight_data";
        out.n += 1;
        match flight::util_encode(&schema, &batches) {
            Err(e) => {
                out.pairs.push((un.into(), "-".into()));
                st.outcome("flight-util-encode-err");
                out.fails.push(Fail { writer: un.into(), reader: None, kind: if e.panic { "flight-encode-panic".into() } else { "flight-encode-err".into() }, family: fam.clone(), detail: e.msg });
            }
            Ok(fd) => {
                out.n += 1;
                out.pairs.push((un.into(), "FlightDataDecoder".into()));
                match flight::decode_low(&fd) {
                    Err(e) => out.fails.push(Fail { writer: un.into(), reader: Some("FlightDataDecoder".into()), kind: if e.panic { "flight-read-panic".into() } else { "flight-read-err".into() }, family: fam.clone(), detail: e.msg }),
                    Ok(d) => match flight_compare(&schema, &model, d.schema.as_ref(), &d.batches, false, false) {
                        Ok(()) => st.outcome("ok:batches_to_flight_data>FlightDataDecoder"),
                        Err(m) => out.fails.push(Fail { writer: un.into(), reader: Some("FlightDataDecoder".into()), kind: format!("flight-{}", m.kind), family: m.family, detail: m.detail }),
                    },
                }
                // flight_data_to_batches takes no dictionary state: only for dictionary-free types
                if !contains_dictionary(dt) {
                    out.n += 1;
                    out.pairs.push((un.into(), "flight_data_to_batches".into()));
                    match flight::util_decode(&fd) {
                        Err(e) => out.fails.push(Fail { writer: un.into(), reader: Some("flight_data_to_batches".into()), kind: if e.panic { "flight-read-panic".into() } else { "flight-read-err".into() }, family: fam.clone(), detail: e.msg }),
                        Ok(bs) => match flight_compare(&schema, &model, Some(&schema), &bs, false, false) {
                            Ok(()) => st.outcome("ok:batches_to_flight_data>flight_data_to_batches"),
                            Err(m) => out.fails.push(Fail { writer: un.into(), reader: Some("flight_data_to_batches".into()), kind: format!("flight-{}", m.kind), family: m.family, detail: m.detail }),
                        },
                    }
                }
            }
        }
    }
    Ok(out)
}

#[allow(clippy::too_many_arguments)]
fn flight_case(st: &mut Stats, order: u64, full: bool, ty: usize, dt: &DataType, nullable: bool, cidx: &[usize], lay: Layout, o: &Opts, cfg: &FlightCfg, nbatches: usize, md: bool) {
    let col = col_from_idx(dt, nullable, cidx);
    if !layout_applies(dt, &col, lay) || opts_invalid(o) {
        return;
    }
    let case = || json!({"sub": "flight", "full": full, "ty": ty, "type": format!("{dt}"), "nullable": nullable, "col_idx": cidx, "col": show_col(&col), "layout": layout_json(lay), "opts": o.json(),
        "cfg": {"max": cfg.max_size, "resend": cfg.resend, "with_schema": cfg.with_schema}, "nbatches": nbatches, "md": md});
    let out = match flight_eval(st, dt, nullable, &col, lay, o, cfg, nbatches, md) {
        Ok(x) => x,
        Err((fp, msg)) => {
            st.violate(order, fp, msg, case);
            return;
        }
    };
    st.add("flight", out.n, if col.is_empty() || nbatches == 0 { 0 } else { 1 });
    st.sample("flight", case);
    if !out.fails.is_empty() {
        let cc = format!("{}{}", cfg.class(), if md { "+md" } else { "" });
        let reduce = |kind: &str, fam: &str| -> (String, String, String) {
            let same = |l: Layout, oo: &Opts, c: &FlightCfg| -> bool {
                if !layout_applies(dt, &col, l) {
                    return false;
                }
                let mut scratch = Stats::new();
                match flight_eval(&mut scratch, dt, nullable, &col, l, oo, c, nbatches, md) {
                    Ok(r) => r.fails.iter().any(|x| x.kind == kind && x.family == fam),
                    Err(_) => false,
                }
            };
            let d = Opts::default();
            let oc = if *o != d && same(lay, &d, cfg) { d } else { *o };
            let nosplit = FlightCfg { max_size: None, ..*cfg };
            let c2 = if cfg.max_size.is_some() && same(lay, &oc, &nosplit) { nosplit } else { *cfg };
            let lc = if lay != Layout::Compact && same(Layout::Compact, &oc, &c2) { Layout::Compact } else { lay };
            (fam.to_string(), lc.class().to_string(), format!("{}:{}{}", oc.class(), c2.class(), if md { "+md" } else { "" }))
        };
        let rep = Rep { schema: &out.schema, opts: o, windowed: lay != Layout::Compact || cfg.max_size.is_some(), layout_class: lay.class().into(), opt_class: format!("{}:{cc}", o.class()), reduce: Some(&reduce) };
        report(st, order, &rep, &out.fails, &out.pairs, &case);
    }
}

fn flight_cfgs() -> Vec<FlightCfg> {
    let mut v = vec![];
    for resend in [false, true] {
        for max_size in [None, Some(1), Some(64), Some(200)] {
            v.push(FlightCfg { max_size, resend, with_schema: true });
        }
        v.push(FlightCfg { max_size: None, resend, with_schema: false });
    }
    v
}

fn run_flight(ctx: &Ctx) -> Stats {
    let full = !ctx.quick();
    let types = grid(full);
    // columns: every column N<=1 (3 thorough) plus two longer cyclic ones (3 and 7 rows; thorough 5 and 7) so that splitting has remainders
    let mut items = single_items(&types, ctx.pick(1, 3));
    for (ti, dt) in types.iter().enumerate() {
        for nullable in [true, false] {
            if matches!(dt, DataType::Null) && !nullable {
                continue;
            }
            for len in if ctx.quick() { vec![3usize, 7] } else { vec![5usize, 7] } {
                items.push(Item { ty: ti, nullable, col: (0..len).collect() });
            }
        }
    }
    let layouts = if ctx.quick() { vec![Layout::Compact, Layout::Sliced(1, 1), Layout::Sliced(9, 0), Layout::Sliced(65, 1)] } else { vec![Layout::Compact, Layout::Sliced(1, 1), Layout::Sliced(3, 1), Layout::Sliced(9, 1), Layout::Sliced(64, 1), Layout::Sliced(65, 1), Layout::ChildSliced, Layout::Alt1] };
    let cfgs = flight_cfgs();
    // option points: default + every single deviation; crossed with the flight configs with <= 2 deviations overall
    let opts: Vec<Opts> = Opts::enumerate(1);
    let mut combos: Vec<(Opts, FlightCfg, usize)> = vec![];
    for o in &opts {
        for c in &cfgs {
            let cdev = c.max_size.is_some() as usize + c.resend as usize + (!c.with_schema) as usize;
            if o.deviations() + cdev <= 2 {
                for nb in [1usize, 2] {
                    if nb == 2 && ctx.quick() && o.deviations() > 0 {
                        continue;
                    }
                    combos.push((*o, *c, nb));
                }
                if o.deviations() == 0 && c.max_size.is_none() {
                    combos.push((*o, *c, 0));
                }
            }
        }
    }
    // LZ4 (expensive): only the 7-row column, one sliced layout
    let mut plan: Vec<(u32, u8, u16)> = vec![];
    for (ii, it) in items.iter().enumerate() {
        for li in 0..layouts.len() {
            for (ci, (o, _, _)) in combos.iter().enumerate() {
                if expensive(o) && !(it.col.len() == 7 && li == 1) {
                    continue;
                }
                plan.push((ii as u32, li as u8, ci as u16));
            }
        }
    }
    let base = 5u64 << 40;
    let mut st = par_for(ctx, "flight", plan.len() as u64, 32, |idx, st| {
        let (ii, li, ci) = plan[idx as usize];
        let it = &items[ii as usize];
        let (o, c, nb) = &combos[ci as usize];
        flight_case(st, base + idx, full, it.ty, &types[it.ty], it.nullable, &it.col, layouts[li as usize], o, c, *nb, false);
    });
    // field + schema metadata variant: default options, both dictionary modes, compact layout, one 3-row column
    let mdcases: Vec<(usize, bool, bool)> = types.iter().enumerate().flat_map(|(ti, _)| [(ti, true, false), (ti, true, true), (ti, false, false), (ti, false, true)]).filter(|(ti, nl, _)| *nl || !matches!(types[*ti], DataType::Null)).collect();
    let base_md = (5u64 << 40) + (1u64 << 39);
    st.merge(par_for(ctx, "flight-md", mdcases.len() as u64, 8, |idx, st| {
        let (ti, nullable, resend) = mdcases[idx as usize];
        flight_case(st, base_md + idx, full, ti, &types[ti], nullable, &[0, 1, 2], Layout::Compact, &Opts::default(), &FlightCfg { max_size: None, resend, with_schema: true }, 1, true);
    }));
    st.extra.insert("flight_configs".into(), json!(combos.iter().map(|(o, c, nb)| format!("{}|{}|{}batches", o.name(), c.name(), nb)).collect::<Vec<_>>()));
    st
}

// ------------------------------------------------------------------------------------------------

pub fn run(ctx: &Ctx) -> ! {
    if let Some(case) = vcore::load_replay(ctx) {
        replay(ctx, &case);
    }
    let mut st = Stats::new();
    let only = ctx.extra_args.iter().find_map(|a| a.strip_prefix("--only=").map(|s| s.to_string()));
    let want = |s: &str| only.as_deref().map(|o| o.split(',').any(|x| x == s)).unwrap_or(true);
    let t0 = std::time::Instant::now();
    let mut times = vec![];
    let lap = |name: &str, t: &mut Vec<(String, f64)>| t.push((name.to_string(), t0.elapsed().as_secs_f64()));
    if want("single") {
        st.merge(run_single(ctx));
        lap("single", &mut times);
    }
    if want("options") {
        st.merge(run_options(ctx));
        lap("options", &mut times);
    }
    if want("multi") {
        st.merge(run_multi(ctx));
        lap("multi", &mut times);
    }
    if want("dict") {
        st.merge(crate::dict::run_dict(ctx));
        lap("dict", &mut times);
    }
    if want("flight") {
        st.merge(run_flight(ctx));
        lap("flight", &mut times);
    }
    st.extra.insert("sub_engine_finish_times_s".into(), json!(times));
    if let Some(o) = &only {
        st.extra.insert("only".into(), json!(o));
    }
    let level = Level {
        category: "model_checking",
        rule: "a case is one (schema, batch sequence, physical layout, option point); non-trivial = at least one batch has >= 1 row and the layout deviation physically applies to the column (for dict histories: every history of depth >= 1); an evaluation is one writer->reader round trip or one projected read compared with the model".into(),
        assumptions: vec![
            "inputs are valid by construction (ArrayData::build + validate_full); harness extract() is self-checked against the generated column on every single-column case".into(),
            "Flight encoder/decoder are driven as in-process futures streams with futures::executor::block_on; the tonic transport is not exercised".into(),
            "dictionary-history dedup key = (dictionary values last handed to the writer per dictionary field, whether the tracker holds the very same allocation); writer and reader dictionary state are functions of it (see dict.rs)".into(),
        ],
        exhaustive_space: "type grid x nullability x all columns N<=3 over per-type alphabets x layouts {compact, sliced(p,q) p in {1,3,8,9,63,64,65} q in {0,1}, all-valid buffer, garbage under nulls, first offset != 0, padded values, sliced children, 2 type specific alternatives} x writers {FileWriter, StreamWriter, StreamEncoder, IpcDataGenerator} x readers {FileReader, FileDecoder, StreamReader, StreamDecoder (whole + encoder chunks)}; options <= 2 deviations; schemas <= 3 fields x row-count sequences <= 3 batches x all projections; dictionary histories (bfs) x writers x handling; Flight encoder configs".into(),
    };
    vcore::finish(ctx, level, st)
}

// ------------------------------------------------------------------------------------------------
// replay

fn replay(ctx: &Ctx, case: &Value) -> ! {
    let mut st = Stats::new();
    let sub = case["sub"].as_str().unwrap_or("").to_string();
    println!("replaying sub-engine {sub:?}: {case}");
    let full = case["full"].as_bool().unwrap_or(false);
    let idxs = |v: &Value| -> Vec<usize> { v.as_array().map(|a| a.iter().map(|x| x.as_u64().unwrap() as usize).collect()).unwrap_or_default() };
    match sub.as_str() {
        "single" | "options" => {
            let types = grid(full);
            let ty = case["ty"].as_u64().unwrap() as usize;
            single_case(&mut st, 0, &sub, full, ty, &types[ty], case["nullable"].as_bool().unwrap(), &idxs(&case["col_idx"]), layout_from_json(&case["layout"]), &Opts::from_json(&case["opts"]), &WRITERS);
        }
        "multi" => {
            let rows = idxs(&case["rows"]);
            multi_case(&mut st, 0, full, &idxs(&case["tys"]), case["nullable"].as_bool().unwrap(), &rows, layout_from_json(&case["layout"]), case["md"].as_u64().unwrap_or(0) as u8, &Opts::from_json(&case["opts"]));
        }
        "flight" => {
            let types = grid(full);
            let ty = case["ty"].as_u64().unwrap() as usize;
            let cfg = FlightCfg { max_size: case["cfg"]["max"].as_u64().map(|x| x as usize), resend: case["cfg"]["resend"].as_bool().unwrap(), with_schema: case["cfg"]["with_schema"].as_bool().unwrap() };
            flight_case(&mut st, 0, full, ty, &types[ty], case["nullable"].as_bool().unwrap(), &idxs(&case["col_idx"]), layout_from_json(&case["layout"]), &Opts::from_json(&case["opts"]), &cfg, case["nbatches"].as_u64().unwrap_or(1) as usize, case["md"].as_bool().unwrap_or(false));
        }
        s if s.starts_with("dict") => crate::dict::replay(ctx, case, &mut st),
        other => {
            eprintln!("MACHINERY: unknown sub-engine in replay: {other:?}");
            std::process::exit(2)
        }
    }
    if st.violations.is_empty() {
        println!("replay: property held on this case (expectation == observation)");
        std::process::exit(0)
    }
    for v in &st.violations {
        println!("VIOLATION (replay) fingerprint={}\n  observation vs expectation: {}", v.fingerprint, v.message);
    }
    std::process::exit(1)
}
