//! Dictionary evolution histories (model checking part of C04).
//!
//! A history is a sequence of per-batch actions on every dictionary-bearing field. Batch 0 is always
//! written with the initial dictionary; action k produces the dictionary of batch k+1 from the one of
//! batch k. `run(hist)` replays the history on a fresh real writer, predicts with a small model of
//! `DictionaryTracker` whether the writer must accept or (file format only) reject, reads everything
//! back with every reader and compares all batches.
//!
//! State key (dedup runs): per dictionary field (entries last handed to the writer, "the tracker holds
//! this very allocation" bit). The tracker stores the last dictionary it *inserted*; equal copies are
//! not inserted, so pointer identity is hidden state and part of the key. The reader-side dictionary is
//! a function of the entries (replacement: equal to them; delta: concatenation equal to them).
use crate::c04::{flight_compare, flight_expected_schema};
use crate::flight::{self, FlightCfg};
use crate::model::*;
use crate::rt::*;
use arrow_array::types::{Int8Type, Int16Type, Int32Type};
use arrow_array::*;
use arrow_buffer::{OffsetBuffer, ScalarBuffer};
use arrow_schema::{DataType, Field, Fields, Schema, SchemaRef};
use std::collections::BTreeMap;
use std::sync::Arc;
use std::sync::Mutex;
use std::sync::atomic::{AtomicU64, Ordering};
use vcore::bfs::{HistoryModel, Step, explore};
use vcore::serde_json::{Value, json};
use vcore::{Ctx, Stats};

#[derive(Clone, Copy, Debug, PartialEq, Eq, Hash, PartialOrd, Ord)]
pub enum Act {
    /// reuse the very same values allocation
    Same,
    /// equal values, new allocation
    EqualCopy,
    /// old values are a prefix, one new value appended
    Extended,
    /// same length, all values different
    Replaced,
    /// last value removed
    Shrunk,
    /// old values are a prefix, a null value appended
    WithNullValue,
    /// one value longer, all values different (longer but not an extension)
    Regrown,
    /// back to the dictionary of batch 0: the very same allocation
    RevertFirstSame,
    /// back to the dictionary of batch 0: an equal copy
    RevertFirstCopy,
    /// back to the dictionary of the batch before the previous one: the very same allocation
    RevertPrev2Same,
    /// back to the dictionary of the batch before the previous one: an equal copy
    RevertPrev2Copy,
}
const ACTS: [Act; 11] = [
    Act::Same,
    Act::EqualCopy,
    Act::Extended,
    Act::Replaced,
    Act::Shrunk,
    Act::WithNullValue,
    Act::Regrown,
    Act::RevertFirstSame,
    Act::RevertFirstCopy,
    Act::RevertPrev2Same,
    Act::RevertPrev2Copy,
];
/// reduced menu for the deepest two-dictionary exploration of the thorough tier
const ACTS_CORE: [Act; 7] = [Act::Same, Act::EqualCopy, Act::Extended, Act::Replaced, Act::Regrown, Act::RevertFirstSame, Act::RevertFirstCopy];
fn act_from(s: &str) -> Option<Act> {
    ACTS.iter().copied().find(|a| format!("{a:?}") == s.trim())
}

#[derive(Clone, Copy, Debug, PartialEq, Eq)]
pub enum Variant {
    Top,
    Two,
    InList,
    InStruct,
    InMapValues,
    InRee,
    DictOfList,
}
const VARIANTS: [Variant; 7] = [Variant::Top, Variant::Two, Variant::InList, Variant::InStruct, Variant::InMapValues, Variant::InRee, Variant::DictOfList];
impl Variant {
    fn n_dicts(&self) -> usize {
        if *self == Variant::Two { 2 } else { 1 }
    }
    fn value_type(&self) -> DataType {
        if *self == Variant::DictOfList { list_of(DataType::Int32) } else { DataType::Utf8 }
    }
    fn schema(&self) -> SchemaRef {
        use DataType::*;
        let d8 = dict_of(Int8, self.value_type());
        let fields = match self {
            Variant::Top | Variant::DictOfList => vec![Field::new("d", d8, true)],
            Variant::Two => vec![Field::new("d1", d8, true), Field::new("x", Int32, true), Field::new("d2", dict_of(Int16, Utf8), true)],
            Variant::InList => vec![Field::new("l", list_of(d8), true)],
            Variant::InStruct => vec![Field::new("s", struct_of(vec![("d", d8, true), ("x", Int32, true)]), true)],
            Variant::InMapValues => vec![Field::new("m", map_of(Utf8, d8), true)],
            Variant::InRee => vec![Field::new("r", ree_of(Int32, d8), true)],
        };
        Arc::new(Schema::new(fields))
    }
}

#[derive(Clone, Copy, Debug, PartialEq, Eq)]
pub enum Sink {
    Ipc(W),
    FlightResend,
    FlightHydrate,
}
impl Sink {
    fn name(&self) -> String {
        match self {
            Sink::Ipc(w) => w.name().to_string(),
            Sink::FlightResend => "FlightEncoder(Resend)".into(),
            Sink::FlightHydrate => "FlightEncoder(Hydrate)".into(),
        }
    }
    fn error_on_replacement(&self) -> bool {
        matches!(self, Sink::Ipc(W::File))
    }
}

type Entries = Vec<Option<u32>>;

fn values_array(vt: &DataType, e: &Entries) -> ArrayRef {
    match vt {
        DataType::Utf8 => Arc::new(StringArray::from(e.iter().map(|x| x.map(|i| format!("v{i}"))).collect::<Vec<_>>())),
        _ => {
            // List<Int32>: entry i -> [i, 10*i] (or [] when i % 3 == 0)
            let mut b = builder::ListBuilder::new(builder::Int32Builder::new());
            for x in e {
                match x {
                    None => b.append(false),
                    Some(i) => {
                        if i % 3 != 0 {
                            b.values().append_value(*i as i32);
                            b.values().append_value(10 * *i as i32);
                        }
                        b.append(true);
                    }
                }
            }
            Arc::new(b.finish())
        }
    }
}

#[derive(Clone)]
struct FieldState {
    entries: Entries,
    arr: ArrayRef,
}

fn keys_i8(len: usize, rows: usize) -> Int8Array {
    (0..rows).map(|r| if r < len { Some(r as i8) } else { None }).collect()
}
fn keys_i16(len: usize, rows: usize) -> Int16Array {
    (0..rows).map(|r| if r < len { Some(r as i16) } else { None }).collect()
}

fn build_batch(v: Variant, schema: &SchemaRef, fs: &[FieldState]) -> Result<RecordBatch, String> {
    let rows = fs.iter().map(|f| f.entries.len()).max().unwrap() + 1;
    let e = |x: arrow_schema::ArrowError| x.to_string();
    let d0: ArrayRef = Arc::new(DictionaryArray::<Int8Type>::try_new(keys_i8(fs[0].entries.len(), rows), fs[0].arr.clone()).map_err(e)?);
    let cols: Vec<ArrayRef> = match v {
        Variant::Top | Variant::DictOfList => vec![d0],
        Variant::Two => {
            let d2: ArrayRef = Arc::new(DictionaryArray::<Int16Type>::try_new(keys_i16(fs[1].entries.len(), rows), fs[1].arr.clone()).map_err(e)?);
            vec![d0, Arc::new(Int32Array::from((0..rows as i32).collect::<Vec<_>>())), d2]
        }
        Variant::InList => {
            let DataType::List(f) = schema.field(0).data_type() else { unreachable!() };
            let offs = OffsetBuffer::new(ScalarBuffer::from(vec![0i32, 1, 1, rows as i32]));
            let nulls = arrow_buffer::NullBuffer::from(vec![true, false, true]);
            vec![Arc::new(ListArray::try_new(f.clone(), offs, d0, Some(nulls)).map_err(e)?)]
        }
        Variant::InStruct => {
            let DataType::Struct(f) = schema.field(0).data_type() else { unreachable!() };
            let x: ArrayRef = Arc::new(Int32Array::from((0..rows as i32).collect::<Vec<_>>()));
            vec![Arc::new(StructArray::try_new(f.clone(), vec![d0, x], None).map_err(e)?)]
        }
        Variant::InMapValues => {
            let DataType::Map(f, _) = schema.field(0).data_type() else { unreachable!() };
            let DataType::Struct(ef) = f.data_type() else { unreachable!() };
            let keys: ArrayRef = Arc::new(StringArray::from((0..rows).map(|r| format!("k{r}")).collect::<Vec<_>>()));
            let entries = StructArray::try_new(ef.clone(), vec![keys, d0], None).map_err(e)?;
            let offs = OffsetBuffer::new(ScalarBuffer::from(vec![0i32, 0, rows as i32]));
            vec![Arc::new(MapArray::try_new(f.clone(), offs, entries, None, false).map_err(e)?)]
        }
        Variant::InRee => {
            let ends = Int32Array::from((1..=rows as i32).collect::<Vec<_>>());
            vec![Arc::new(RunArray::<Int32Type>::try_new(&ends, d0.as_ref()).map_err(e)?)]
        }
    };
    let n = cols[0].len();
    make_batch(schema, n, cols)
}

/// `past` = the field's dictionary in every batch written so far (past[0] = batch 0, last = current)
fn apply(a: Act, past: &[FieldState], vt: &DataType, fresh: &mut u32) -> Option<FieldState> {
    let cur = past.last().unwrap();
    let mut e = cur.entries.clone();
    match a {
        Act::Same => return Some(FieldState { entries: e, arr: cur.arr.clone() }),
        Act::EqualCopy => {}
        Act::RevertFirstSame => return Some(FieldState { entries: past[0].entries.clone(), arr: past[0].arr.clone() }),
        Act::RevertFirstCopy => e = past[0].entries.clone(),
        Act::RevertPrev2Same | Act::RevertPrev2Copy => {
            if past.len() < 3 {
                return None; // needs two earlier batches, and batch 0 is covered by RevertFirst*
            }
            let p = &past[past.len() - 3];
            if a == Act::RevertPrev2Same {
                return Some(FieldState { entries: p.entries.clone(), arr: p.arr.clone() });
            }
            e = p.entries.clone();
        }
        Act::Extended => {
            e.push(Some(*fresh));
            *fresh += 1;
        }
        Act::Replaced => {
            if e.is_empty() {
                return None;
            }
            for x in e.iter_mut() {
                *x = Some(*fresh);
                *fresh += 1;
            }
        }
        Act::Shrunk => {
            e.pop()?;
        }
        Act::WithNullValue => e.push(None),
        Act::Regrown => {
            e.push(None);
            for x in e.iter_mut() {
                *x = Some(*fresh);
                *fresh += 1;
            }
        }
    }
    let arr = values_array(vt, &e);
    Some(FieldState { entries: e, arr })
}

/// model of DictionaryTracker::insert_column for one field
#[derive(Clone, Debug, PartialEq)]
enum Upd {
    New,
    None,
    Replaced,
    Delta,
    Err,
}
struct Tracked {
    entries: Entries,
    arr: ArrayRef,
}
fn same_alloc(a: &ArrayRef, b: &ArrayRef) -> bool {
    arrow_data::ArrayData::ptr_eq(&a.to_data(), &b.to_data())
}
fn track(t: &mut Option<Tracked>, f: &FieldState, delta: bool, err_on_repl: bool) -> Upd {
    let Some(old) = t else {
        *t = Some(Tracked { entries: f.entries.clone(), arr: f.arr.clone() });
        return Upd::New;
    };
    if same_alloc(&old.arr, &f.arr) || old.entries == f.entries {
        return Upd::None;
    }
    let is_delta = f.entries.len() > old.entries.len() && f.entries[..old.entries.len()] == old.entries[..];
    if is_delta && delta {
        *t = Some(Tracked { entries: f.entries.clone(), arr: f.arr.clone() });
        return Upd::Delta;
    }
    if err_on_repl {
        return Upd::Err;
    }
    *t = Some(Tracked { entries: f.entries.clone(), arr: f.arr.clone() });
    Upd::Replaced
}

pub struct DictModel {
    pub variant: Variant,
    pub sink: Sink,
    pub delta: bool,
    pub menu: Vec<Act>,
    pub evals: AtomicU64,
    pub outcomes: Mutex<BTreeMap<String, u64>>,
}
impl DictModel {
    fn new(variant: Variant, sink: Sink, delta: bool) -> Self {
        DictModel { variant, sink, delta, menu: ACTS.to_vec(), evals: AtomicU64::new(0), outcomes: Mutex::new(BTreeMap::new()) }
    }
    fn label(&self) -> String {
        format!("dict|{:?}|{}|{}", self.variant, self.sink.name(), if self.delta { "delta" } else { "resend" })
    }
    fn outcome(&self, s: String) {
        *self.outcomes.lock().unwrap().entry(s).or_default() += 1;
    }
    fn fp(&self, kind: &str, last: &[Act]) -> String {
        format!("c04:dict:{kind}:{:?}:{}:{}:after-{}", self.variant, self.sink.name(), if self.delta { "delta" } else { "resend" }, last.iter().map(|a| format!("{a:?}")).collect::<Vec<_>>().join("+"))
    }
}

impl HistoryModel for DictModel {
    type Op = Vec<Act>;
    type Key = Vec<(Entries, Entries, bool, bool, bool)>;
    fn ops(&self) -> Vec<Vec<Act>> {
        if self.variant.n_dicts() == 1 {
            self.menu.iter().map(|a| vec![*a]).collect()
        } else {
            let mut v = vec![];
            for a in &self.menu {
                for b in &self.menu {
                    v.push(vec![*a, *b]);
                }
            }
            v
        }
    }
    fn run(&self, hist: &[Vec<Act>]) -> Step<Self::Key> {
        let v = self.variant;
        let schema = v.schema();
        let nd = v.n_dicts();
        let vts: Vec<DataType> = (0..nd).map(|j| if j == 0 { v.value_type() } else { DataType::Utf8 }).collect();
        let mut fresh = 100u32;
        let mut cur: Vec<FieldState> = (0..nd)
            .map(|j| {
                let e: Entries = vec![Some(j as u32 * 10), Some(j as u32 * 10 + 1)];
                FieldState { arr: values_array(&vts[j], &e), entries: e }
            })
            .collect();
        let mut past: Vec<Vec<FieldState>> = cur.iter().map(|f| vec![f.clone()]).collect();
        let mut batches = vec![];
        let mut tracked: Vec<Option<Tracked>> = (0..nd).map(|_| None).collect();
        let mut expect_err_at: Option<usize> = None;
        let mut upds: Vec<Upd> = vec![];
        let last: Vec<Act> = hist.last().cloned().unwrap_or_default();
        for bi in 0..=hist.len() {
            if bi > 0 {
                let mut next = vec![];
                for j in 0..nd {
                    match apply(hist[bi - 1][j], &past[j], &vts[j], &mut fresh) {
                        Some(f) => next.push(f),
                        None => return Step::Disabled,
                    }
                }
                cur = next;
                for j in 0..nd {
                    past[j].push(cur[j].clone());
                }
            }
            match build_batch(v, &schema, &cur) {
                Ok(b) => batches.push(b),
                Err(e) => return Step::Violation(format!("harness:dict:build:{v:?}"), e),
            }
            if expect_err_at.is_none() && self.sink != Sink::FlightHydrate {
                for j in 0..nd {
                    let u = track(&mut tracked[j], &cur[j], self.delta, self.sink.error_on_replacement());
                    if u == Upd::Err {
                        expect_err_at = Some(bi);
                        upds.push(u);
                        break;
                    }
                    upds.push(u);
                }
            }
        }
        if expect_err_at.is_some() && expect_err_at != Some(hist.len()) {
            // an earlier batch already made the writer fail: that prefix is a terminal state, not expanded
            return Step::Disabled;
        }
        let model: Vec<MBatch> = match batches.iter().map(|b| Ok(MBatch { rows: b.num_rows(), cols: b.columns().iter().map(|c| extract(c.as_ref())).collect::<Result<_, String>>()? })).collect::<Result<Vec<_>, String>>() {
            Ok(m) => m,
            Err(e) => return Step::Violation(format!("harness:dict:extract:{v:?}"), e),
        };
        // what later actions and the tracker's pointer fast path can depend on: current and previous dictionary, and
        // which of {current, previous, first} allocation the tracker holds
        let key: Self::Key = (0..nd)
            .map(|j| {
                let p = &past[j];
                let prev = if p.len() >= 2 { &p[p.len() - 2] } else { &p[0] };
                let held = |a: &ArrayRef| tracked[j].as_ref().map(|t| same_alloc(&t.arr, a)).unwrap_or(false);
                (cur[j].entries.clone(), prev.entries.clone(), held(&cur[j].arr), held(&prev.arr), held(&p[0].arr))
            })
            .collect();
        let o = Opts { delta: self.delta, ..Opts::default() };
        self.outcome(format!("tracker:{}", upds.last().map(|u| format!("{u:?}")).unwrap_or("-".into())));
        match self.sink {
            Sink::Ipc(w) => {
                self.evals.fetch_add(1, Ordering::Relaxed);
                match write(w, &schema, &batches, &o, &[]) {
                    Err(e) => {
                        if let Some(at) = expect_err_at {
                            if e.at == Some(at) && !e.panic && e.msg.contains("Dictionary replacement detected") {
                                self.outcome("file-writer-rejects-replacement-as-documented".into());
                                return Step::State { key, terminal: true };
                            }
                        }
                        Step::Violation(self.fp(if e.panic { "write-panic" } else { "write-err" }, &last), format!("{}: unexpected error at batch {:?}: {} (model expected {:?})", w.name(), e.at, e.msg, expect_err_at))
                    }
                    Ok(written) => {
                        if let Some(at) = expect_err_at {
                            return Step::Violation(self.fp("replacement-accepted", &last), format!("{} accepted a dictionary replacement at batch {at} (the file format allows one dictionary per field; an Err is documented)", w.name()));
                        }
                        for r in readers_for(&written) {
                            self.evals.fetch_add(1, Ordering::Relaxed);
                            let d = match read(r, &written, None) {
                                Ok(d) => d,
                                Err(e) => return Step::Violation(self.fp(&format!("{}:{}", if e.panic { "read-panic" } else { "read-err" }, r.name()), &last), format!("{} -> {}: {}", w.name(), r.name(), e.msg)),
                            };
                            if let Err(m) = compare(&schema, &model, &d) {
                                return Step::Violation(self.fp(&format!("{}:{}", m.kind, r.name()), &last), format!("{} -> {}: {}", w.name(), r.name(), m.detail));
                            }
                            if r.supports_projection() && schema.fields().len() > 1 {
                                for p in [vec![0usize], vec![2], vec![1], vec![2, 0]] {
                                    self.evals.fetch_add(1, Ordering::Relaxed);
                                    match read(r, &written, Some(p.clone())) {
                                        Ok(pd) => {
                                            if let Err(m) = compare_projection(&d, &p, &pd) {
                                                return Step::Violation(self.fp(&format!("projection-{}:{}", m.kind, r.name()), &last), format!("{} -> {} projection {p:?}: {}", w.name(), r.name(), m.detail));
                                            }
                                        }
                                        Err(e) => return Step::Violation(self.fp(&format!("projection-read-err:{}", r.name()), &last), format!("{} -> {} projection {p:?}: {}", w.name(), r.name(), e.msg)),
                                    }
                                }
                            }
                        }
                        self.outcome("roundtrip-ok".into());
                        Step::State { key, terminal: false }
                    }
                }
            }
            Sink::FlightResend | Sink::FlightHydrate => {
                let resend = self.sink == Sink::FlightResend;
                let cfg = FlightCfg { max_size: None, resend, with_schema: true };
                self.evals.fetch_add(1, Ordering::Relaxed);
                let fd = match flight::encode(&schema, &batches, &o, &cfg) {
                    Ok(fd) => fd,
                    Err(e) => return Step::Violation(self.fp(if e.panic { "encode-panic" } else { "encode-err" }, &last), format!("FlightDataEncoder: {}", e.msg)),
                };
                let exp_schema = flight_expected_schema(&schema, resend);
                for (rname, res) in [("FlightRecordBatchStream", flight::decode_stream(&fd)), ("FlightDataDecoder", flight::decode_low(&fd))] {
                    self.evals.fetch_add(1, Ordering::Relaxed);
                    match res {
                        Err(e) => return Step::Violation(self.fp(&format!("decode-err:{rname}"), &last), format!("{rname}: {}", e.msg)),
                        Ok(d) => {
                            if let Err(m) = flight_compare(&exp_schema, &model, d.schema.as_ref(), &d.batches, false, true) {
                                return Step::Violation(self.fp(&format!("{}:{rname}", m.kind), &last), format!("{rname}: {}", m.detail));
                            }
                        }
                    }
                }
                self.outcome("flight-roundtrip-ok".into());
                Step::State { key, terminal: false }
            }
        }
    }
}

fn configs() -> Vec<(Variant, Sink, bool)> {
    let mut v = vec![];
    for var in VARIANTS {
        for w in WRITERS {
            for delta in [false, true] {
                v.push((var, Sink::Ipc(w), delta));
            }
        }
        for delta in [false, true] {
            v.push((var, Sink::FlightResend, delta));
        }
        v.push((var, Sink::FlightHydrate, false));
    }
    v
}

pub fn run_dict(ctx: &Ctx) -> Stats {
    let cfgs = configs();
    // one explorer per configuration, configurations spread over the workers (the explorer itself single threaded)
    let inner = Ctx { prop: ctx.prop.clone(), tier: ctx.tier, seed: ctx.seed, replay: None, start: ctx.start, budget: ctx.budget, verif_dir: ctx.verif_dir.clone(), threads: 1, extra_args: vec![] };
    let mut st = vcore::par_for(ctx, "dict", cfgs.len() as u64, 1, |idx, st| {
        let (var, sink, delta) = cfgs[idx as usize];
        let mut m = DictModel::new(var, sink, delta);
        // every history (no dedup) up to `depth`; two dictionary fields: all 121 action pairs to depth 2
        let depth = if var == Variant::Two { 2 } else { ctx.pick(3, 4) };
        let mut local = Stats::new();
        explore(&inner, &m.label(), &m, depth, false, &mut local);
        // deeper, merging equal states
        if var == Variant::Top {
            let mut label = m.label();
            label.push_str("|dedup");
            explore(&inner, &label, &m, ctx.pick(4, 6), true, &mut local);
        }
        // thorough: two dictionary fields to depth 3 over the core action menu (49 pairs)
        if var == Variant::Two && !ctx.quick() {
            m.menu = ACTS_CORE.to_vec();
            let mut label = m.label();
            label.push_str("|core");
            explore(&inner, &label, &m, 3, false, &mut local);
        }
        local.add("dict", m.evals.load(Ordering::Relaxed), local.traces);
        for (k, n) in m.outcomes.lock().unwrap().iter() {
            local.outcome_n(&format!("dict:{k}"), *n);
        }
        // violation order keys: keep configurations apart
        for v in local.violations.iter_mut() {
            v.order += (6u64 << 40) + (idx << 24);
        }
        st.merge(local);
    });
    st.count("dict.configs(variant x sink x handling)", cfgs.len() as u64);
    st.extra.insert("dict_actions".into(), json!(ACTS.iter().map(|a| format!("{a:?}")).collect::<Vec<_>>()));
    st.extra.insert("dict_variants".into(), json!(VARIANTS.iter().map(|a| format!("{a:?} {:?}", a.schema().fields().iter().map(|f| format!("{}", f.data_type())).collect::<Vec<_>>())).collect::<Vec<_>>()));
    st.extra.insert("dict_depth".into(), json!({"all histories (11 actions)": ctx.pick(3, 4), "two dictionary fields (121 action pairs)": 2, "two dictionary fields, core menu (49 pairs), thorough only": 3, "dedup run (Top)": ctx.pick(4, 6)}));
    st
}

pub fn replay(_ctx: &Ctx, case: &Value, st: &mut Stats) {
    let label = case["sub"].as_str().unwrap_or("");
    let parts: Vec<&str> = label.split('|').collect();
    let var = VARIANTS.iter().copied().find(|v| format!("{v:?}") == parts.get(1).copied().unwrap_or("")).expect("variant");
    let sink = {
        let n = parts.get(2).copied().unwrap_or("");
        let mut s = vec![Sink::FlightResend, Sink::FlightHydrate];
        s.extend(WRITERS.iter().map(|w| Sink::Ipc(*w)));
        s.into_iter().find(|s| s.name() == n).expect("sink")
    };
    let delta = parts.get(3).copied() == Some("delta");
    let hist: Vec<Vec<Act>> = case["history"]
        .as_array()
        .map(|a| a.iter().map(|op| op.as_str().unwrap_or("").trim_matches(|c| c == '[' || c == ']').split(',').filter_map(act_from).collect()).collect())
        .unwrap_or_default();
    println!("dict replay: variant {var:?} sink {} delta {delta} history {hist:?}", sink.name());
    let m = DictModel::new(var, sink, delta);
    match m.run(&hist) {
        Step::Violation(fp, msg) => st.violate(0, fp, msg, || case.clone()),
        Step::Disabled => println!("history not enabled"),
        Step::State { terminal, .. } => println!("state reached (terminal={terminal})"),
    }
}

#[allow(dead_code)]
fn _unused(_: Fields) {}
