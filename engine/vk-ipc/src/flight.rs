//! Flight encoder / decoder drivers: in-process futures streams, `futures::executor::block_on`.
use crate::rt::Opts;
use arrow_array::RecordBatch;
use arrow_flight::FlightData;
use arrow_flight::decode::{DecodedPayload, FlightDataDecoder, FlightRecordBatchStream};
use arrow_flight::encode::{DictionaryHandling, FlightDataEncoderBuilder};
use arrow_flight::error::FlightError;
use arrow_schema::SchemaRef;
use futures::StreamExt;
use futures::executor::block_on;
use vcore::catch;

#[derive(Clone, Copy, Debug, PartialEq, Eq, Hash)]
pub struct FlightCfg {
    /// None = default (2 MiB)
    pub max_size: Option<usize>,
    pub resend: bool,
    /// pass the schema to the builder up front
    pub with_schema: bool,
}
impl FlightCfg {
    pub fn name(&self) -> String {
        format!("{}-{}-{}", if self.resend { "resend" } else { "hydrate" }, self.max_size.map(|m| format!("max{m}")).unwrap_or("maxdefault".into()), if self.with_schema { "schema" } else { "noschema" })
    }
    pub fn class(&self) -> String {
        format!("{}{}", if self.resend { "resend" } else { "hydrate" }, if self.max_size.is_some() { "+split" } else { "" })
    }
}

#[derive(Debug, Clone)]
pub struct FErr {
    pub msg: String,
    pub panic: bool,
}
fn fe(e: FlightError) -> FErr {
    FErr { msg: e.to_string(), panic: false }
}

/// FlightDataEncoderBuilder stream -> all FlightData messages
pub fn encode(schema: &SchemaRef, batches: &[RecordBatch], o: &Opts, cfg: &FlightCfg) -> Result<Vec<FlightData>, FErr> {
    let opts = o.to_ipc().map_err(|m| FErr { msg: format!("options: {m}"), panic: false })?;
    let r = catch(|| {
        let mut b = FlightDataEncoderBuilder::new().with_options(opts).with_dictionary_handling(if cfg.resend { DictionaryHandling::Resend } else { DictionaryHandling::Hydrate });
        if let Some(m) = cfg.max_size {
            b = b.with_max_flight_data_size(m);
        }
        if cfg.with_schema {
            b = b.with_schema(schema.clone());
        }
        let input = futures::stream::iter(batches.to_vec().into_iter().map(Ok));
        let mut enc = b.build(input);
        block_on(async {
            let mut out = vec![];
            while let Some(x) = enc.next().await {
                out.push(x.map_err(fe)?);
            }
            Ok(out)
        })
    });
    match r {
        Ok(x) => x,
        Err(p) => Err(FErr { msg: p.fingerprint(), panic: true }),
    }
}

pub struct FDecoded {
    pub schema: Option<SchemaRef>,
    pub batches: Vec<RecordBatch>,
}

/// FlightRecordBatchStream over an in-memory message list
pub fn decode_stream(fd: &[FlightData]) -> Result<FDecoded, FErr> {
    let fd = fd.to_vec();
    let r = catch(|| {
        let mut s = FlightRecordBatchStream::new_from_flight_data(futures::stream::iter(fd.into_iter().map(Ok)));
        block_on(async {
            let mut out = vec![];
            while let Some(x) = s.next().await {
                out.push(x.map_err(fe)?);
            }
            Ok(FDecoded { schema: s.schema().cloned(), batches: out })
        })
    });
    match r {
        Ok(x) => x,
        Err(p) => Err(FErr { msg: p.fingerprint(), panic: true }),
    }
}

/// FlightDataDecoder (low level): schema payloads + record batches in order
pub fn decode_low(fd: &[FlightData]) -> Result<FDecoded, FErr> {
    let fd = fd.to_vec();
    let r = catch(|| {
        let mut s = FlightDataDecoder::new(futures::stream::iter(fd.into_iter().map(Ok)));
        block_on(async {
            let mut out = vec![];
            let mut schema = None;
            let mut n_schema = 0;
            while let Some(x) = s.next().await {
                match x.map_err(fe)?.payload {
                    DecodedPayload::Schema(sc) => {
                        n_schema += 1;
                        schema = Some(sc)
                    }
                    DecodedPayload::RecordBatch(b) => out.push(b),
                    DecodedPayload::None => {}
                }
            }
            if n_schema > 1 {
                return Err(FErr { msg: format!("{n_schema} schema messages in one encoder stream"), panic: false });
            }
            Ok(FDecoded { schema, batches: out })
        })
    });
    match r {
        Ok(x) => x,
        Err(p) => Err(FErr { msg: p.fingerprint(), panic: true }),
    }
}

pub fn util_encode(schema: &SchemaRef, batches: &[RecordBatch]) -> Result<Vec<FlightData>, FErr> {
    let b = batches.to_vec();
    match catch(|| arrow_flight::utils::batches_to_flight_data(schema, b)) {
        Ok(Ok(x)) => Ok(x),
        Ok(Err(e)) => Err(FErr { msg: e.to_string(), panic: false }),
        Err(p) => Err(FErr { msg: p.fingerprint(), panic: true }),
    }
}
pub fn util_decode(fd: &[FlightData]) -> Result<Vec<RecordBatch>, FErr> {
    match catch(|| arrow_flight::utils::flight_data_to_batches(fd)) {
        Ok(Ok(x)) => Ok(x),
        Ok(Err(e)) => Err(FErr { msg: e.to_string(), panic: false }),
        Err(p) => Err(FErr { msg: p.fingerprint(), panic: true }),
    }
}
