mod c04;
mod dict;
mod flight;
mod model;
mod rt;
fn main() {
    let ctx = vcore::Ctx::from_args();
    match ctx.prop.as_str() {
        "C04" => c04::run(&ctx),
        other => {
            eprintln!("MACHINERY: vk-ipc does not serve property {other:?}");
            std::process::exit(2)
        }
    }
}
