//! Logical model for C04: value trees, per-type alphabets, `build` (logical column -> Arrow array in a
//! chosen physical layout, validating constructors only) and `extract` (Arrow array -> value trees via
//! typed accessors only; no `==`, no kernels).
use arrow_array::cast::AsArray;
use arrow_array::types::*;
use arrow_array::*;
use arrow_buffer::{BooleanBuffer, Buffer, MutableBuffer, NullBuffer};
use arrow_data::ArrayData;
use arrow_schema::*;
use std::sync::Arc;

#[derive(Clone, Debug, PartialEq, Eq, Hash, PartialOrd, Ord)]
pub enum Val {
    Null,
    B(bool),
    /// fixed-width little-endian bytes, or the bytes of a string / binary value
    P(Vec<u8>),
    /// list / list-view / fixed-size-list elements; map entries as `S([k, v])`
    L(Vec<Val>),
    /// struct fields
    S(Vec<Val>),
    /// union (type id, value)
    U(i8, Box<Val>),
}

impl Val {
    pub fn show(&self) -> String {
        match self {
            Val::Null => "null".into(),
            Val::B(b) => format!("{b}"),
            Val::P(b) => {
                if !b.is_empty() && b.iter().all(|c| c.is_ascii_graphic()) {
                    format!("'{}'", String::from_utf8_lossy(b))
                } else {
                    format!("x{}", b.iter().map(|c| format!("{c:02x}")).collect::<String>())
                }
            }
            Val::L(v) => format!("[{}]", v.iter().map(|x| x.show()).collect::<Vec<_>>().join(",")),
            Val::S(v) => format!("{{{}}}", v.iter().map(|x| x.show()).collect::<Vec<_>>().join(",")),
            Val::U(t, v) => format!("u{}:{}", t, v.show()),
        }
    }
}
pub fn show_col(c: &[Val]) -> String {
    format!("[{}]", c.iter().map(|x| x.show()).collect::<Vec<_>>().join(", "))
}

// ------------------------------------------------------------------------------------------------
// helpers for types

pub fn fld(name: &str, dt: DataType, nullable: bool) -> FieldRef {
    Arc::new(Field::new(name, dt, nullable))
}
pub fn list_of(dt: DataType) -> DataType {
    DataType::List(fld("item", dt, true))
}
pub fn large_list_of(dt: DataType) -> DataType {
    DataType::LargeList(fld("item", dt, true))
}
pub fn dict_of(k: DataType, v: DataType) -> DataType {
    DataType::Dictionary(Box::new(k), Box::new(v))
}
pub fn ree_of(r: DataType, v: DataType) -> DataType {
    DataType::RunEndEncoded(fld("run_ends", r, false), fld("values", v, true))
}
pub fn map_of(k: DataType, v: DataType) -> DataType {
    DataType::Map(fld("entries", DataType::Struct(Fields::from(vec![Field::new("key", k, false), Field::new("value", v, true)])), false), false)
}
pub fn struct_of(fs: Vec<(&str, DataType, bool)>) -> DataType {
    DataType::Struct(Fields::from(fs.into_iter().map(|(n, d, nl)| Field::new(n, d, nl)).collect::<Vec<_>>()))
}
pub fn union_of(fs: Vec<(i8, &str, DataType)>, mode: UnionMode) -> DataType {
    let ids: Vec<i8> = fs.iter().map(|f| f.0).collect();
    let fields: Vec<Field> = fs.into_iter().map(|(_, n, d)| Field::new(n, d, true)).collect();
    DataType::Union(UnionFields::try_new(ids, fields).unwrap(), mode)
}

/// coarse family name used in fingerprints: outer type constructor plus flags for what is nested inside
pub fn family(dt: &DataType) -> String {
    use DataType::*;
    let outer = match dt {
        Null => "Null",
        Boolean => "Boolean",
        Int8 | Int16 | Int32 | Int64 | UInt8 | UInt16 | UInt32 | UInt64 => "Int",
        Float16 | Float32 | Float64 => "Float",
        Decimal32(..) | Decimal64(..) | Decimal128(..) | Decimal256(..) => "Decimal",
        Date32 | Date64 | Time32(_) | Time64(_) | Timestamp(..) | Duration(_) | Interval(_) => "Temporal",
        Utf8 | LargeUtf8 | Binary | LargeBinary => "ByteArray",
        Utf8View | BinaryView => "ByteView",
        FixedSizeBinary(_) => "FixedSizeBinary",
        List(_) | LargeList(_) => "List",
        ListView(_) | LargeListView(_) => "ListView",
        FixedSizeList(..) => "FixedSizeList",
        Struct(_) => "Struct",
        Map(..) => "Map",
        Dictionary(..) => "Dictionary",
        RunEndEncoded(..) => "RunEndEncoded",
        Union(_, UnionMode::Dense) => "DenseUnion",
        Union(_, UnionMode::Sparse) => "SparseUnion",
    };
    let mut out = outer.to_string();
    let inner = |p: &dyn Fn(&DataType) -> bool| -> bool {
        match dt {
            Dictionary(_, v) => contains_type(v, p),
            List(f) | LargeList(f) | ListView(f) | LargeListView(f) | FixedSizeList(f, _) | Map(f, _) => contains_type(f.data_type(), p),
            RunEndEncoded(_, v) => contains_type(v.data_type(), p),
            Struct(fs) => fs.iter().any(|f| contains_type(f.data_type(), p)),
            Union(fs, _) => fs.iter().any(|(_, f)| contains_type(f.data_type(), p)),
            _ => false,
        }
    };
    if inner(&|d| matches!(d, Dictionary(..))) {
        out.push_str("+dict");
    }
    if inner(&|d| matches!(d, Utf8View | BinaryView)) {
        out.push_str("+view");
    }
    if inner(&|d| matches!(d, RunEndEncoded(..))) {
        out.push_str("+ree");
    }
    if inner(&|d| matches!(d, Union(..))) {
        out.push_str("+union");
    }
    out
}

pub fn contains_dictionary(dt: &DataType) -> bool {
    use DataType::*;
    match dt {
        Dictionary(_, _) => true,
        List(f) | LargeList(f) | ListView(f) | LargeListView(f) | FixedSizeList(f, _) | Map(f, _) => contains_dictionary(f.data_type()),
        RunEndEncoded(_, v) => contains_dictionary(v.data_type()),
        Struct(fs) => fs.iter().any(|f| contains_dictionary(f.data_type())),
        Union(fs, _) => fs.iter().any(|(_, f)| contains_dictionary(f.data_type())),
        _ => false,
    }
}
pub fn contains_type(dt: &DataType, pred: &dyn Fn(&DataType) -> bool) -> bool {
    use DataType::*;
    if pred(dt) {
        return true;
    }
    match dt {
        Dictionary(_, v) => contains_type(v, pred),
        List(f) | LargeList(f) | ListView(f) | LargeListView(f) | FixedSizeList(f, _) | Map(f, _) => contains_type(f.data_type(), pred),
        RunEndEncoded(_, v) => contains_type(v.data_type(), pred),
        Struct(fs) => fs.iter().any(|f| contains_type(f.data_type(), pred)),
        Union(fs, _) => fs.iter().any(|(_, f)| contains_type(f.data_type(), pred)),
        _ => false,
    }
}

/// The type a Flight `Hydrate` encoder documents: every dictionary replaced by its value type (recursively).
pub fn hydrated_type(dt: &DataType) -> DataType {
    use DataType::*;
    let hf = |f: &FieldRef| -> FieldRef { Arc::new(f.as_ref().clone().with_data_type(hydrated_type(f.data_type()))) };
    match dt {
        Dictionary(_, v) => hydrated_type(v),
        List(f) => List(hf(f)),
        LargeList(f) => LargeList(hf(f)),
        ListView(f) => ListView(hf(f)),
        LargeListView(f) => LargeListView(hf(f)),
        FixedSizeList(f, n) => FixedSizeList(hf(f), *n),
        Map(f, s) => Map(hf(f), *s),
        RunEndEncoded(r, v) => RunEndEncoded(r.clone(), hf(v)),
        Struct(fs) => Struct(fs.iter().map(hf).collect()),
        Union(fs, m) => Union(UnionFields::try_new(fs.iter().map(|(i, _)| i), fs.iter().map(|(_, f)| hf(f))).unwrap(), *m),
        other => other.clone(),
    }
}

fn width(dt: &DataType) -> Option<usize> {
    dt.primitive_width()
}

// ------------------------------------------------------------------------------------------------
// alphabets

fn pat(w: usize, base: u8) -> Vec<u8> {
    (0..w).map(|i| base.wrapping_add(i as u8)).collect()
}
fn le_i(v: i128, w: usize) -> Vec<u8> {
    let b = v.to_le_bytes();
    let mut out = b[..w.min(16)].to_vec();
    while out.len() < w {
        out.push(if v < 0 { 0xFF } else { 0 });
    }
    out
}

/// Non-null letters of a type (2..=3 values). `junk(dt)` is a further value never in the alphabet.
pub fn letters(dt: &DataType) -> Vec<Val> {
    use DataType::*;
    match dt {
        Null => vec![],
        Boolean => vec![Val::B(true), Val::B(false)],
        Decimal32(..) | Decimal64(..) | Decimal128(..) | Decimal256(..) => {
            let w = width(dt).unwrap();
            vec![Val::P(le_i(12345, w)), Val::P(le_i(-7, w))]
        }
        Utf8 | LargeUtf8 | Utf8View => vec![Val::P(b"".to_vec()), Val::P(b"ab".to_vec()), Val::P("\u{e9}-13-bytes-xy".as_bytes().to_vec())],
        Binary | LargeBinary | BinaryView => vec![Val::P(vec![]), Val::P(vec![0xFF, 0x00]), Val::P((1u8..=14).map(|x| x.wrapping_mul(37)).collect())],
        FixedSizeBinary(n) => {
            if *n == 0 {
                vec![Val::P(vec![])]
            } else {
                vec![Val::P(pat(*n as usize, 1)), Val::P(pat(*n as usize, 0xF1))]
            }
        }
        List(f) | LargeList(f) | ListView(f) | LargeListView(f) => {
            let (x, y) = two(f);
            vec![Val::L(vec![]), Val::L(vec![x.clone()]), Val::L(vec![y, x])]
        }
        FixedSizeList(f, n) => {
            let (x, y) = two(f);
            let n = *n as usize;
            if n == 0 {
                vec![Val::L(vec![])]
            } else {
                vec![Val::L((0..n).map(|i| if i % 2 == 0 { x.clone() } else { y.clone() }).collect()), Val::L((0..n).map(|i| if i % 2 == 0 { y.clone() } else { x.clone() }).collect())]
            }
        }
        Struct(fs) => {
            if fs.is_empty() {
                vec![Val::S(vec![])]
            } else {
                let a: Vec<Val> = fs.iter().map(|f| two(f).0).collect();
                let b: Vec<Val> = fs.iter().map(|f| two(f).1).collect();
                vec![Val::S(a), Val::S(b)]
            }
        }
        Map(f, _) => {
            let Struct(fs) = f.data_type() else { panic!("map entries") };
            let ks = letters(fs[0].data_type());
            let (k1, k2) = (ks[ks.len() - 1].clone(), ks[ks.len().saturating_sub(2)].clone());
            let (v1, v2) = two(&fs[1]);
            vec![Val::L(vec![]), Val::L(vec![Val::S(vec![k1.clone(), v1.clone()])]), Val::L(vec![Val::S(vec![k2, v2]), Val::S(vec![k1, v1])])]
        }
        Dictionary(_, v) => letters(v),
        RunEndEncoded(_, v) => letters(v.data_type()),
        Union(fs, _) => {
            let mut out = vec![];
            for (id, f) in fs.iter() {
                let (x, y) = two(f);
                out.push(Val::U(id, Box::new(x)));
                if out.len() < 3 {
                    out.push(Val::U(id, Box::new(y)));
                }
            }
            out.truncate(3);
            out
        }
        _ => {
            let w = width(dt).unwrap_or_else(|| panic!("no alphabet for {dt:?}"));
            vec![Val::P(pat(w, 1)), Val::P(pat(w, 0xF1))]
        }
    }
}
/// two child values for use inside a nested letter: (first letter, Null if nullable else second letter)
fn two(f: &Field) -> (Val, Val) {
    let l = letters(f.data_type());
    if l.is_empty() {
        return (Val::Null, Val::Null); // Null type
    }
    let x = l[l.len() - 1].clone();
    let y = if f.is_nullable() && has_top_nulls(f.data_type()) { Val::Null } else { l[0].clone() };
    (x, y)
}
/// can the type hold a `Val::Null` at its own level?
pub fn has_top_nulls(dt: &DataType) -> bool {
    !matches!(dt, DataType::Union(..))
}
/// value never in the alphabet (used for rows that are sliced away / unreferenced / under nulls)
pub fn junk(dt: &DataType) -> Val {
    use DataType::*;
    match dt {
        Null => Val::Null,
        Boolean => Val::B(true),
        Decimal32(..) | Decimal64(..) | Decimal128(..) | Decimal256(..) => Val::P(le_i(-99, width(dt).unwrap())),
        Utf8 | LargeUtf8 | Utf8View => Val::P(b"JUNK-junk-JUNK-j".to_vec()),
        Binary | LargeBinary | BinaryView => Val::P(vec![0xEE; 15]),
        FixedSizeBinary(n) => Val::P(vec![0xEE; *n as usize]),
        List(f) | LargeList(f) | ListView(f) | LargeListView(f) => Val::L(vec![junk(f.data_type()), junk(f.data_type()), junk(f.data_type())]),
        FixedSizeList(f, n) => Val::L((0..*n).map(|_| junk(f.data_type())).collect()),
        Struct(fs) => Val::S(fs.iter().map(|f| junk(f.data_type())).collect()),
        Map(f, _) => {
            let Struct(fs) = f.data_type() else { panic!() };
            Val::L(vec![Val::S(vec![junk(fs[0].data_type()), junk(fs[1].data_type())])])
        }
        Dictionary(_, v) => junk(v),
        RunEndEncoded(_, v) => junk(v.data_type()),
        Union(fs, _) => {
            let (id, f) = fs.iter().last().unwrap();
            Val::U(id, Box::new(junk(f.data_type())))
        }
        _ => Val::P(vec![0xEE; width(dt).unwrap()]),
    }
}

/// alphabet incl. Null when the column may contain nulls
pub fn alphabet(dt: &DataType, nullable: bool) -> Vec<Val> {
    let mut a: Vec<Val> = vec![];
    for l in letters(dt) {
        if !a.contains(&l) {
            a.push(l);
        }
    }
    if matches!(dt, DataType::Null) {
        return vec![Val::Null];
    }
    if nullable && has_top_nulls(dt) {
        a.push(Val::Null);
    }
    a
}

// ------------------------------------------------------------------------------------------------
// layouts

#[derive(Clone, Copy, Debug, PartialEq, Eq, Hash)]
pub enum Layout {
    Compact,
    /// `p` extra leading rows, `q` extra trailing rows, then `slice(p, len)`
    Sliced(usize, usize),
    /// validity buffer present although there is no null
    AllValidBuf,
    /// payload under null slots is not the neutral one
    Garbage,
    /// offsets start at k>0 (unused leading bytes / children)
    FirstOffset,
    /// unreferenced bytes / children / data buffers after the last used one
    Padded,
    /// children of the nested array are themselves slices with a non-zero offset
    ChildSliced,
    /// type specific alternative encodings (dictionary with unused + permuted entries, split runs,
    /// reversed list-view children, permuted dense union children, one view data buffer per value)
    Alt1,
    /// second type specific alternative (dictionary null value instead of null key, overlapping
    /// list views, garbage in unselected sparse union slots)
    Alt2,
}
pub const SLICE_P: [usize; 7] = [1, 3, 8, 9, 63, 64, 65];

impl Layout {
    pub fn name(&self) -> String {
        match self {
            Layout::Sliced(p, q) => format!("sliced({p},{q})"),
            o => format!("{o:?}").to_lowercase(),
        }
    }
    pub fn class(&self) -> &'static str {
        match self {
            Layout::Compact => "compact",
            Layout::Sliced(..) => "sliced",
            Layout::AllValidBuf => "allvalid",
            Layout::Garbage => "garbage",
            Layout::FirstOffset => "firstoffset",
            Layout::Padded => "padded",
            Layout::ChildSliced => "childsliced",
            Layout::Alt1 => "alt1",
            Layout::Alt2 => "alt2",
        }
    }
}
pub fn all_layouts(qs: &[usize]) -> Vec<Layout> {
    let mut v = vec![Layout::Compact];
    for p in SLICE_P {
        for q in qs {
            v.push(Layout::Sliced(p, *q));
        }
    }
    v.extend([Layout::AllValidBuf, Layout::Garbage, Layout::FirstOffset, Layout::Padded, Layout::ChildSliced, Layout::Alt1, Layout::Alt2]);
    v
}

/// Does the layout produce a physically different array for this (type, column)? (rule for "non-trivial")
pub fn layout_applies(dt: &DataType, col: &[Val], l: Layout) -> bool {
    use DataType::*;
    let has_null = col.iter().any(|v| *v == Val::Null);
    match l {
        Layout::Compact | Layout::Sliced(..) => true,
        Layout::AllValidBuf => !has_null && !matches!(dt, Null | Union(..) | RunEndEncoded(..)),
        Layout::Garbage => {
            has_null
                && matches!(
                    dt,
                    Boolean | Utf8 | LargeUtf8 | Binary | LargeBinary | Utf8View | BinaryView | FixedSizeBinary(_) | List(_) | LargeList(_) | Map(..) | Dictionary(..) | Struct(_) | FixedSizeList(..)
                )
                || has_null && width(dt).is_some() && !matches!(dt, Decimal32(..) | Decimal64(..) | Decimal128(..) | Decimal256(..))
        }
        Layout::FirstOffset | Layout::Padded => matches!(dt, Utf8 | LargeUtf8 | Binary | LargeBinary | List(_) | LargeList(_) | Map(..)) || (l == Layout::Padded && matches!(dt, Utf8View | BinaryView | ListView(_) | LargeListView(_))),
        Layout::ChildSliced => matches!(dt, List(_) | LargeList(_) | ListView(_) | LargeListView(_) | FixedSizeList(..) | Map(..) | Struct(_) | Dictionary(..) | RunEndEncoded(..) | Union(..)) && !matches!(dt, Struct(fs) if fs.is_empty()),
        Layout::Alt1 => matches!(dt, Dictionary(..) | RunEndEncoded(..) | ListView(_) | LargeListView(_) | Utf8View | BinaryView | Union(_, UnionMode::Dense)),
        Layout::Alt2 => (matches!(dt, Dictionary(..)) && has_null) || matches!(dt, ListView(_) | LargeListView(_) | Union(_, UnionMode::Sparse)),
    }
}

#[derive(Clone, Copy, Default)]
struct Bo {
    all_valid: bool,
    garbage: bool,
    first_off: usize,
    pad: usize,
    child_lead: usize,
    alt: u8,
    /// dictionaries hold the whole alphabet (+ junk) in a fixed order, independent of the column
    stable_dict: bool,
}

/// Build the column in the given layout. Every array goes through `ArrayData::build` (full validation).
pub fn realise(dt: &DataType, col: &[Val], l: Layout) -> Result<ArrayRef, String> {
    realise_with(dt, col, l, false)
}
/// `stable_dict`: every dictionary (at any nesting level) holds the same values in every call, so that
/// batch sequences keep one dictionary per field.
pub fn realise_with(dt: &DataType, col: &[Val], l: Layout, stable_dict: bool) -> Result<ArrayRef, String> {
    let base = Bo { stable_dict, ..Bo::default() };
    match l {
        Layout::Compact => build(dt, col, base),
        Layout::Sliced(p, q) => {
            let fill = filler_rows(dt);
            let mut ext: Vec<Val> = (0..p).map(|i| fill[i % fill.len()].clone()).collect();
            ext.extend(col.iter().cloned());
            ext.extend((0..q).map(|i| fill[(i + 1) % fill.len()].clone()));
            let a = build(dt, &ext, base)?;
            Ok(a.slice(p, col.len()))
        }
        Layout::AllValidBuf => build(dt, col, Bo { all_valid: true, ..base }),
        Layout::Garbage => build(dt, col, Bo { garbage: true, ..base }),
        Layout::FirstOffset => build(dt, col, Bo { first_off: 3, ..base }),
        Layout::Padded => build(dt, col, Bo { pad: 2, ..base }),
        Layout::ChildSliced => build(dt, col, Bo { child_lead: 3, ..base }),
        Layout::Alt1 => build(dt, col, Bo { alt: 1, ..base }),
        Layout::Alt2 => build(dt, col, Bo { alt: 2, ..base }),
    }
}
/// rows used outside the logical window: junk, a real letter, and null where possible (so that a
/// wrong offset shows up as a wrong value or a wrong validity bit)
fn filler_rows(dt: &DataType) -> Vec<Val> {
    let mut v = vec![junk(dt)];
    let l = letters(dt);
    if let Some(x) = l.first() {
        v.push(x.clone());
    }
    if has_top_nulls(dt) {
        v.push(Val::Null);
    }
    if let Some(x) = l.last() {
        v.push(x.clone());
    }
    v
}

fn nulls_of(col: &[Val], force: bool) -> Option<NullBuffer> {
    if col.iter().any(|v| *v == Val::Null) || force {
        Some(NullBuffer::new(BooleanBuffer::from(col.iter().map(|v| *v != Val::Null).collect::<Vec<bool>>())))
    } else {
        None
    }
}
/// 64-byte aligned buffer (a `Vec<u8>` backed buffer is only 1-aligned)
fn abuf(bytes: Vec<u8>) -> Buffer {
    let mut m = MutableBuffer::new(bytes.len());
    m.extend_from_slice(&bytes);
    m.into()
}
fn mk(b: arrow_data::ArrayDataBuilder) -> Result<ArrayRef, String> {
    let d: ArrayData = b.build().map_err(|e| format!("build: {e}"))?;
    d.validate_full().or_else(|e| if e.to_string().contains("null_bit_buffer size too small") { Ok(()) } else { Err(e) }).map_err(|e| format!("validate_full: {e}"))?;
    Ok(make_array(d))
}
fn int_bytes(v: usize, w: usize) -> Vec<u8> {
    (v as u64).to_le_bytes()[..w].to_vec()
}
fn child_with_lead(f: &Field, vals: &[Val], o: Bo) -> Result<ArrayRef, String> {
    let lead = o.child_lead;
    let cb = Bo { stable_dict: o.stable_dict, ..Bo::default() };
    if lead == 0 {
        return build(f.data_type(), vals, cb);
    }
    let fill = filler_rows(f.data_type());
    let fill: Vec<Val> = if f.is_nullable() { fill } else { fill.into_iter().filter(|v| *v != Val::Null).collect() };
    let mut ext: Vec<Val> = (0..lead).map(|i| fill[i % fill.len()].clone()).collect();
    if matches!(f.data_type(), DataType::Null) {
        ext = vec![Val::Null; lead];
    }
    ext.extend(vals.iter().cloned());
    Ok(build(f.data_type(), &ext, cb)?.slice(lead, vals.len()))
}
/// neutral child value under a null parent slot
fn under_null(f: &Field, garbage: bool) -> Val {
    if matches!(f.data_type(), DataType::Null) {
        return Val::Null;
    }
    if f.is_nullable() && has_top_nulls(f.data_type()) && !garbage { Val::Null } else { junk(f.data_type()) }
}

fn build(dt: &DataType, col: &[Val], o: Bo) -> Result<ArrayRef, String> {
    use DataType::*;
    let n = col.len();
    let nulls = nulls_of(col, o.all_valid);
    match dt {
        Null => mk(ArrayData::builder(dt.clone()).len(n)),
        Boolean => {
            let bits: Vec<bool> = col
                .iter()
                .map(|v| match v {
                    Val::B(b) => *b,
                    _ => o.garbage,
                })
                .collect();
            mk(ArrayData::builder(dt.clone()).len(n).add_buffer(BooleanBuffer::from(bits).into_inner()).nulls(nulls))
        }
        Utf8 | Binary | LargeUtf8 | LargeBinary => {
            let ow = if matches!(dt, Utf8 | Binary) { 4 } else { 8 };
            let mut data: Vec<u8> = vec![b'#'; o.first_off];
            let mut offs: Vec<u8> = int_bytes(data.len(), ow);
            for v in col {
                match v {
                    Val::P(b) => data.extend_from_slice(b),
                    Val::Null => {
                        if o.garbage {
                            data.extend_from_slice(b"zz")
                        }
                    }
                    _ => return Err(format!("bad val for {dt:?}")),
                }
                offs.extend(int_bytes(data.len(), ow));
            }
            data.extend(std::iter::repeat_n(b'~', o.pad));
            mk(ArrayData::builder(dt.clone()).len(n).add_buffer(abuf(offs)).add_buffer(abuf(data)).nulls(nulls))
        }
        Utf8View | BinaryView => {
            // views built by hand: <=12 bytes inline, else (len, prefix, buffer index, offset)
            let mut views: Vec<u8> = vec![];
            let mut bufs: Vec<Vec<u8>> = vec![];
            // alt 0: all long values share one data buffer (none if every value is inline); alt 1: one buffer each
            for v in col {
                match v {
                    Val::P(b) if b.len() <= 12 => {
                        views.extend((b.len() as u32).to_le_bytes());
                        let mut p = b.clone();
                        p.resize(12, 0);
                        views.extend(p);
                    }
                    Val::P(b) => {
                        let (bi, off) = if o.alt == 1 {
                            bufs.push(b.clone());
                            (bufs.len() - 1, 0)
                        } else {
                            if bufs.is_empty() {
                                bufs.push(vec![]);
                            }
                            let off = bufs[0].len();
                            bufs[0].extend_from_slice(b);
                            (0, off)
                        };
                        views.extend((b.len() as u32).to_le_bytes());
                        views.extend(&b[..4]);
                        views.extend((bi as u32).to_le_bytes());
                        views.extend((off as u32).to_le_bytes());
                    }
                    Val::Null => {
                        if o.garbage {
                            views.extend(2u32.to_le_bytes());
                            views.extend(b"zz\0\0\0\0\0\0\0\0\0\0");
                        } else {
                            views.extend([0u8; 16]);
                        }
                    }
                    _ => return Err(format!("bad val for {dt:?}")),
                }
            }
            if o.pad > 0 {
                bufs.push(b"unused-trailing-buffer".to_vec());
            }
            let mut b = ArrayData::builder(dt.clone()).len(n).add_buffer(abuf(views)).nulls(nulls);
            for x in bufs {
                b = b.add_buffer(abuf(x));
            }
            mk(b)
        }
        FixedSizeBinary(w) => {
            let w = *w as usize;
            let mut data = vec![];
            for v in col {
                match v {
                    Val::P(b) => data.extend_from_slice(b),
                    _ => data.extend(std::iter::repeat_n(if o.garbage { 0xEE } else { 0 }, w)),
                }
            }
            mk(ArrayData::builder(dt.clone()).len(n).add_buffer(abuf(data)).nulls(nulls))
        }
        List(f) | LargeList(f) | Map(f, _) => {
            let ow = if matches!(dt, LargeList(_)) { 8 } else { 4 };
            let j = junk(f.data_type());
            let mut child: Vec<Val> = vec![j.clone(); o.first_off];
            let mut offs: Vec<u8> = int_bytes(child.len(), ow);
            for v in col {
                match v {
                    Val::L(e) => child.extend(e.iter().cloned()),
                    Val::Null => {
                        if o.garbage {
                            child.push(j.clone())
                        }
                    }
                    _ => return Err(format!("bad val for {dt:?}")),
                }
                offs.extend(int_bytes(child.len(), ow));
            }
            child.extend(std::iter::repeat_n(j, o.pad));
            let c = child_with_lead(f, &child, o)?;
            mk(ArrayData::builder(dt.clone()).len(n).add_buffer(abuf(offs)).add_child_data(c.to_data()).nulls(nulls))
        }
        ListView(f) | LargeListView(f) => {
            let ow = if matches!(dt, LargeListView(_)) { 8 } else { 4 };
            // alt 0: children in row order; alt 1: rows laid out in reverse order; alt 2: equal rows share one range
            let mut child: Vec<Val> = vec![];
            let mut ranges: Vec<(usize, usize)> = vec![(0, 0); n];
            let order: Vec<usize> = if o.alt == 1 { (0..n).rev().collect() } else { (0..n).collect() };
            let mut seen: Vec<(Vec<Val>, usize)> = vec![];
            for i in order {
                if let Val::L(e) = &col[i] {
                    if o.alt == 2 {
                        if let Some((_, at)) = seen.iter().find(|(s, _)| s == e) {
                            ranges[i] = (*at, e.len());
                            continue;
                        }
                        seen.push((e.clone(), child.len()));
                    }
                    ranges[i] = (child.len(), e.len());
                    child.extend(e.iter().cloned());
                }
            }
            child.extend(std::iter::repeat_n(junk(f.data_type()), o.pad));
            let mut offs = vec![];
            let mut sizes = vec![];
            for (a, b) in ranges {
                offs.extend(int_bytes(a, ow));
                sizes.extend(int_bytes(b, ow));
            }
            let c = child_with_lead(f, &child, o)?;
            mk(ArrayData::builder(dt.clone()).len(n).add_buffer(abuf(offs)).add_buffer(abuf(sizes)).add_child_data(c.to_data()).nulls(nulls))
        }
        FixedSizeList(f, k) => {
            let k = *k as usize;
            let mut child = vec![];
            for v in col {
                match v {
                    Val::L(e) => {
                        if e.len() != k {
                            return Err("fsl arity".into());
                        }
                        child.extend(e.iter().cloned())
                    }
                    _ => child.extend(std::iter::repeat_n(under_null(f, o.garbage), k)),
                }
            }
            let c = child_with_lead(f, &child, o)?;
            mk(ArrayData::builder(dt.clone()).len(n).add_child_data(c.to_data()).nulls(nulls))
        }
        Struct(fs) => {
            let mut b = ArrayData::builder(dt.clone()).len(n).nulls(nulls);
            for (j, f) in fs.iter().enumerate() {
                let cv: Vec<Val> = col
                    .iter()
                    .map(|v| match v {
                        Val::S(x) => x[j].clone(),
                        _ => under_null(f, o.garbage),
                    })
                    .collect();
                b = b.add_child_data(child_with_lead(f, &cv, o)?.to_data());
            }
            mk(b)
        }
        Dictionary(k, v) => {
            let kw = width(k).unwrap();
            let mut values: Vec<Val> = vec![];
            if o.stable_dict {
                values = letters(v);
                values.push(junk(v));
                values.dedup();
            }
            for x in col {
                if *x != Val::Null && !values.contains(x) {
                    values.push(x.clone());
                }
            }
            if o.alt == 1 {
                // permuted, with an unused leading and an unused trailing entry
                values.reverse();
                values.insert(0, Val::Null);
                values.push(junk(v));
            }
            let null_entry = if o.alt == 2 && col.iter().any(|x| *x == Val::Null) {
                values.push(Val::Null);
                Some(values.len() - 1)
            } else {
                None
            };
            let mut keys = vec![];
            let mut kcol = vec![];
            for x in col {
                if *x == Val::Null {
                    if let Some(ne) = null_entry {
                        keys.extend(int_bytes(ne, kw));
                        kcol.push(Val::B(true));
                    } else {
                        keys.extend(int_bytes(if o.garbage { 100 } else { 0 }, kw));
                        kcol.push(Val::Null);
                    }
                } else {
                    let idx = values.iter().position(|y| y == x).unwrap();
                    keys.extend(int_bytes(idx, kw));
                    kcol.push(Val::B(true));
                }
            }
            let vf = Field::new("values", v.as_ref().clone(), true);
            let varr = child_with_lead(&vf, &values, o)?;
            mk(ArrayData::builder(dt.clone()).len(n).add_buffer(abuf(keys)).add_child_data(varr.to_data()).nulls(nulls_of(&kcol, o.all_valid)))
        }
        RunEndEncoded(r, v) => {
            let rw = width(r.data_type()).unwrap();
            let mut ends = vec![];
            let mut vals: Vec<Val> = vec![];
            let mut nruns = 0;
            for (i, x) in col.iter().enumerate() {
                let last = i + 1 == n || col[i + 1] != *x || o.alt == 1;
                if last {
                    ends.extend(int_bytes(i + 1, rw));
                    vals.push(x.clone());
                    nruns += 1;
                }
            }
            let re = mk(ArrayData::builder(r.data_type().clone()).len(nruns).add_buffer(abuf(ends)))?;
            let va = child_with_lead(v, &vals, o)?;
            mk(ArrayData::builder(dt.clone()).len(n).add_child_data(re.to_data()).add_child_data(va.to_data()))
        }
        Union(fs, mode) => {
            let mut tids: Vec<u8> = vec![];
            let mut per: Vec<Vec<Val>> = vec![vec![]; fs.len()];
            let pos = |id: i8| fs.iter().position(|(i, _)| i == id).unwrap();
            let mut offs_idx: Vec<(usize, usize)> = vec![];
            for x in col {
                let Val::U(id, v) = x else { return Err(format!("bad val for {dt:?}")) };
                tids.push(*id as u8);
                let p = pos(*id);
                match mode {
                    UnionMode::Dense => {
                        offs_idx.push((p, per[p].len()));
                        per[p].push((**v).clone());
                    }
                    UnionMode::Sparse => {
                        for (q, (_, f)) in fs.iter().enumerate() {
                            per[q].push(if q == p { (**v).clone() } else { under_null(f, o.alt == 2) });
                        }
                    }
                }
            }
            let mut b = ArrayData::builder(dt.clone()).len(n).add_buffer(abuf(tids));
            if *mode == UnionMode::Dense {
                let mut offs = vec![];
                if o.alt == 1 {
                    // children reversed, one unused leading slot each
                    let lens: Vec<usize> = per.iter().map(|p| p.len()).collect();
                    for (p, i) in &offs_idx {
                        offs.extend(int_bytes(1 + (lens[*p] - 1 - i), 4));
                    }
                    for (q, (_, f)) in fs.iter().enumerate() {
                        per[q].reverse();
                        per[q].insert(0, under_null(f, true));
                    }
                } else {
                    for (_, i) in &offs_idx {
                        offs.extend(int_bytes(*i, 4));
                    }
                }
                b = b.add_buffer(abuf(offs));
            }
            for (q, (_, f)) in fs.iter().enumerate() {
                b = b.add_child_data(child_with_lead(f, &per[q], o)?.to_data());
            }
            mk(b)
        }
        _ => {
            let w = width(dt).ok_or_else(|| format!("unsupported type in model {dt:?}"))?;
            let mut data = vec![];
            for v in col {
                match v {
                    Val::P(b) if b.len() == w => data.extend_from_slice(b),
                    Val::Null => data.extend(std::iter::repeat_n(if o.garbage { 0xEE } else { 0 }, w)),
                    _ => return Err(format!("bad val {v:?} for {dt:?}")),
                }
            }
            mk(ArrayData::builder(dt.clone()).len(n).add_buffer(abuf(data)).nulls(nulls))
        }
    }
}

// ------------------------------------------------------------------------------------------------
// extract

/// Read a column back through typed accessors.
pub fn extract(a: &dyn Array) -> Result<Vec<Val>, String> {
    use DataType::*;
    let n = a.len();
    let dt = a.data_type().clone();
    let mut out = Vec::with_capacity(n);
    macro_rules! bytes_like {
        ($arr:expr) => {{
            let arr = $arr;
            for i in 0..n {
                out.push(if arr.is_null(i) { Val::Null } else { Val::P(AsRef::<[u8]>::as_ref(arr.value(i)).to_vec()) });
            }
        }};
    }
    macro_rules! list_like {
        ($arr:expr) => {{
            let arr = $arr;
            for i in 0..n {
                out.push(if arr.is_null(i) { Val::Null } else { Val::L(extract(arr.value(i).as_ref())?) });
            }
        }};
    }
    match &dt {
        Null => out.extend(std::iter::repeat_n(Val::Null, n)),
        Boolean => {
            let arr = a.as_boolean();
            for i in 0..n {
                out.push(if arr.is_null(i) { Val::Null } else { Val::B(arr.value(i)) });
            }
        }
        Utf8 => bytes_like!(a.as_string::<i32>()),
        LargeUtf8 => bytes_like!(a.as_string::<i64>()),
        Binary => bytes_like!(a.as_binary::<i32>()),
        LargeBinary => bytes_like!(a.as_binary::<i64>()),
        Utf8View => bytes_like!(a.as_string_view()),
        BinaryView => bytes_like!(a.as_binary_view()),
        FixedSizeBinary(_) => bytes_like!(a.as_fixed_size_binary()),
        List(_) => list_like!(a.as_list::<i32>()),
        LargeList(_) => list_like!(a.as_list::<i64>()),
        ListView(_) => list_like!(a.as_list_view::<i32>()),
        LargeListView(_) => list_like!(a.as_list_view::<i64>()),
        FixedSizeList(..) => list_like!(a.as_fixed_size_list()),
        Map(..) => {
            let arr = a.as_map();
            for i in 0..n {
                out.push(if arr.is_null(i) { Val::Null } else { Val::L(extract(&arr.value(i))?) });
            }
        }
        Struct(_) => {
            let arr = a.as_struct();
            let cols: Vec<Vec<Val>> = arr.columns().iter().map(|c| extract(c.as_ref())).collect::<Result<_, _>>()?;
            for c in &cols {
                if c.len() != n {
                    return Err(format!("struct child length {} != {}", c.len(), n));
                }
            }
            for i in 0..n {
                out.push(if arr.is_null(i) { Val::Null } else { Val::S(cols.iter().map(|c| c[i].clone()).collect()) });
            }
        }
        Dictionary(..) => {
            let arr = a.as_any_dictionary();
            let vals = extract(arr.values().as_ref())?;
            let keys = arr.keys();
            let kb = prim_bytes(keys)?;
            for i in 0..n {
                if keys.is_null(i) {
                    out.push(Val::Null);
                } else {
                    let mut k = [0u8; 8];
                    k[..kb[i].len()].copy_from_slice(&kb[i]);
                    let k = u64::from_le_bytes(k) as usize;
                    out.push(vals.get(k).cloned().ok_or_else(|| format!("dictionary key {k} out of range {}", vals.len()))?);
                }
            }
        }
        RunEndEncoded(r, _) => {
            macro_rules! ree {
                ($t:ty) => {{
                    let arr = a.as_run::<$t>();
                    let vals = extract(arr.values().as_ref())?;
                    for i in 0..n {
                        let p = arr.get_physical_index(i);
                        out.push(vals.get(p).cloned().ok_or_else(|| format!("run physical index {p} out of range {}", vals.len()))?);
                    }
                }};
            }
            match r.data_type() {
                Int16 => ree!(Int16Type),
                Int32 => ree!(Int32Type),
                Int64 => ree!(Int64Type),
                o => return Err(format!("run end type {o:?}")),
            }
        }
        Union(fs, _) => {
            let arr = a.as_union();
            let mut kids: Vec<(i8, Vec<Val>)> = vec![];
            for (id, _) in fs.iter() {
                kids.push((id, extract(arr.child(id).as_ref())?));
            }
            for i in 0..n {
                let id = arr.type_id(i);
                let off = arr.value_offset(i);
                let k = kids.iter().find(|k| k.0 == id).ok_or_else(|| format!("undeclared type id {id}"))?;
                out.push(Val::U(id, Box::new(k.1.get(off).cloned().ok_or_else(|| format!("union offset {off} out of range {}", k.1.len()))?)));
            }
        }
        _ => {
            let pb = prim_bytes(a)?;
            for (i, b) in pb.into_iter().enumerate() {
                out.push(if a.is_null(i) { Val::Null } else { Val::P(b) });
            }
        }
    }
    Ok(out)
}

/// little-endian bytes of every slot of a primitive array, through the typed `value(i)` accessor
fn prim_bytes(a: &dyn Array) -> Result<Vec<Vec<u8>>, String> {
    use arrow_buffer::ToByteSlice;
    macro_rules! go {
        ($t:ty) => {{
            let arr = a.as_primitive::<$t>();
            Ok((0..arr.len()).map(|i| arr.value(i).to_byte_slice().to_vec()).collect())
        }};
    }
    use DataType::*;
    match a.data_type() {
        Int8 => go!(Int8Type),
        Int16 => go!(Int16Type),
        Int32 => go!(Int32Type),
        Int64 => go!(Int64Type),
        UInt8 => go!(UInt8Type),
        UInt16 => go!(UInt16Type),
        UInt32 => go!(UInt32Type),
        UInt64 => go!(UInt64Type),
        Float16 => go!(Float16Type),
        Float32 => go!(Float32Type),
        Float64 => go!(Float64Type),
        Decimal32(..) => go!(Decimal32Type),
        Decimal64(..) => go!(Decimal64Type),
        Decimal128(..) => go!(Decimal128Type),
        Decimal256(..) => go!(Decimal256Type),
        Date32 => go!(Date32Type),
        Date64 => go!(Date64Type),
        Time32(TimeUnit::Second) => go!(Time32SecondType),
        Time32(TimeUnit::Millisecond) => go!(Time32MillisecondType),
        Time64(TimeUnit::Microsecond) => go!(Time64MicrosecondType),
        Time64(TimeUnit::Nanosecond) => go!(Time64NanosecondType),
        Timestamp(TimeUnit::Second, _) => go!(TimestampSecondType),
        Timestamp(TimeUnit::Millisecond, _) => go!(TimestampMillisecondType),
        Timestamp(TimeUnit::Microsecond, _) => go!(TimestampMicrosecondType),
        Timestamp(TimeUnit::Nanosecond, _) => go!(TimestampNanosecondType),
        Duration(TimeUnit::Second) => go!(DurationSecondType),
        Duration(TimeUnit::Millisecond) => go!(DurationMillisecondType),
        Duration(TimeUnit::Microsecond) => go!(DurationMicrosecondType),
        Duration(TimeUnit::Nanosecond) => go!(DurationNanosecondType),
        Interval(IntervalUnit::YearMonth) => go!(IntervalYearMonthType),
        Interval(IntervalUnit::DayTime) => go!(IntervalDayTimeType),
        Interval(IntervalUnit::MonthDayNano) => go!(IntervalMonthDayNanoType),
        o => Err(format!("extract: unsupported type {o:?}")),
    }
}

// ------------------------------------------------------------------------------------------------
// type grid

pub fn grid(full: bool) -> Vec<DataType> {
    use DataType::*;
    let i32f = || Int32;
    let mut v = vec![
        Null,
        Boolean,
        Int8,
        Int32,
        Int64,
        UInt8,
        UInt64,
        Float16,
        Float32,
        Float64,
        Decimal32(5, 2),
        Decimal128(10, -1),
        Decimal256(40, 3),
        Date32,
        Date64,
        Time32(TimeUnit::Second),
        Time64(TimeUnit::Nanosecond),
        Timestamp(TimeUnit::Second, None),
        Timestamp(TimeUnit::Nanosecond, Some("+05:30".into())),
        Duration(TimeUnit::Millisecond),
        Interval(IntervalUnit::YearMonth),
        Interval(IntervalUnit::DayTime),
        Interval(IntervalUnit::MonthDayNano),
        Utf8,
        LargeUtf8,
        Utf8View,
        Binary,
        LargeBinary,
        BinaryView,
        FixedSizeBinary(0),
        FixedSizeBinary(3),
        list_of(i32f()),
        large_list_of(Utf8),
        ListView(fld("item", Int32, true)),
        LargeListView(fld("item", Int32, true)),
        FixedSizeList(fld("item", Int32, true), 2),
        FixedSizeList(fld("item", Int32, true), 0),
        struct_of(vec![("a", Int32, true), ("b", Utf8, true)]),
        Struct(Fields::empty()),
        map_of(Utf8, Int32),
        dict_of(Int8, Utf8),
        dict_of(UInt16, Int32),
        dict_of(Int32, Utf8View),
        ree_of(Int16, Int32),
        ree_of(Int32, Utf8),
        ree_of(Int64, Boolean),
        union_of(vec![(0, "i", Int32), (5, "s", Utf8)], UnionMode::Dense),
        union_of(vec![(0, "i", Int32), (5, "s", Utf8)], UnionMode::Sparse),
        list_of(list_of(Int32)),
        list_of(struct_of(vec![("a", Int32, true)])),
        struct_of(vec![("l", list_of(Utf8), true)]),
        dict_of(Int8, list_of(Int32)),
        // dictionaries nested inside list / struct / map values / run-end values / fixed-size list
        list_of(dict_of(Int8, Utf8)),
        struct_of(vec![("d", dict_of(Int16, Utf8), true), ("x", Int32, true)]),
        map_of(Utf8, dict_of(Int8, Utf8)),
        ree_of(Int32, dict_of(Int8, Utf8)),
        FixedSizeList(fld("item", Boolean, true), 2),
        list_of(Boolean),
        list_of(Utf8View),
        struct_of(vec![("v", BinaryView, true), ("w", Utf8View, true)]),
        list_of(FixedSizeBinary(3)),
        // unions below a parent that windows into its child (list / map / fixed-size list / struct in list)
        list_of(union_of(vec![(0, "i", Int32), (5, "s", Utf8)], UnionMode::Dense)),
        list_of(union_of(vec![(0, "i", Int32), (5, "s", Utf8)], UnionMode::Sparse)),
        FixedSizeList(fld("item", union_of(vec![(0, "i", Int32), (5, "s", Utf8)], UnionMode::Dense), true), 2),
        map_of(Utf8, union_of(vec![(0, "i", Int32), (5, "s", Utf8)], UnionMode::Sparse)),
        list_of(struct_of(vec![("u", union_of(vec![(0, "i", Int32), (5, "s", Utf8)], UnionMode::Dense), true)])),
        struct_of(vec![("u", union_of(vec![(0, "i", Int32), (5, "s", Utf8)], UnionMode::Sparse), true), ("x", Int32, true)]),
        list_of(ree_of(Int32, Int32)),
        list_of(map_of(Utf8, Int32)),
        large_list_of(list_of(Utf8)),
        // every other child kind below a list (the writer windows the child per type)
        list_of(ListView(fld("item", Int32, true))),
        list_of(FixedSizeList(fld("item", Int32, true), 2)),
        list_of(Null),
        list_of(Int8),
        list_of(Decimal256(40, 3)),
        list_of(LargeBinary),
        // dictionary child of a union (Flight hydration treats sparse and dense differently)
        union_of(vec![(0, "d", dict_of(Int8, Utf8)), (1, "i", Int32)], UnionMode::Dense),
        union_of(vec![(0, "d", dict_of(Int8, Utf8)), (1, "i", Int32)], UnionMode::Sparse),
    ];
    if full {
        v.extend([
            Int16,
            UInt16,
            UInt32,
            Decimal64(12, 4),
            Time32(TimeUnit::Millisecond),
            Time64(TimeUnit::Microsecond),
            Timestamp(TimeUnit::Millisecond, Some("UTC".into())),
            Timestamp(TimeUnit::Microsecond, Some("Europe/Paris".into())),
            Duration(TimeUnit::Second),
            Duration(TimeUnit::Microsecond),
            Duration(TimeUnit::Nanosecond),
            FixedSizeBinary(1),
            FixedSizeBinary(17),
            large_list_of(Int64),
            LargeListView(fld("item", Utf8, true)),
            ListView(fld("item", list_of(Int32), true)),
            FixedSizeList(fld("item", Utf8, true), 3),
            FixedSizeList(fld("item", list_of(Int32), true), 2),
            List(fld("element", Int32, false)),
            struct_of(vec![("a", Int32, false), ("b", Utf8, false)]),
            struct_of(vec![("s", struct_of(vec![("a", Int32, true)]), true), ("n", Null, true)]),
            map_of(Int32, Utf8),
            map_of(Utf8, list_of(Int32)),
            dict_of(Int16, Utf8),
            dict_of(Int64, Utf8),
            dict_of(UInt8, Binary),
            dict_of(UInt32, FixedSizeBinary(3)),
            dict_of(UInt64, LargeUtf8),
            dict_of(Int8, struct_of(vec![("a", Int32, true)])),
            dict_of(Int8, Boolean),
            ree_of(Int16, Utf8View),
            ree_of(Int32, list_of(Int32)),
            ree_of(Int64, struct_of(vec![("a", Int32, true)])),
            ree_of(Int32, Float64),
            union_of(vec![(3, "only", Int32)], UnionMode::Dense),
            union_of(vec![(3, "only", Int32)], UnionMode::Sparse),
            union_of(vec![(1, "a", Int32), (2, "b", Utf8), (7, "c", Boolean)], UnionMode::Dense),
            union_of(vec![(1, "a", Int32), (2, "b", Utf8), (7, "c", Boolean)], UnionMode::Sparse),
            union_of(vec![(0, "l", list_of(Int32)), (1, "v", Utf8View)], UnionMode::Dense),
            union_of(vec![(0, "l", list_of(Int32)), (1, "v", Utf8View)], UnionMode::Sparse),
            list_of(list_of(list_of(Int32))),
            struct_of(vec![("r", ree_of(Int16, Utf8), true), ("u", union_of(vec![(0, "i", Int32)], UnionMode::Sparse), true)]),
            large_list_of(dict_of(Int32, Utf8)),
            ListView(fld("item", dict_of(Int8, Utf8), true)),
            FixedSizeList(fld("item", dict_of(Int8, Utf8), true), 2),
            dict_of(Int8, list_of(dict_of(Int8, Utf8))),
            struct_of(vec![("n", Null, true)]),
        ]);
    }
    v
}
