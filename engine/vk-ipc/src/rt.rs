//! Writers, readers and the round-trip oracle for the plain IPC paths (file / stream / encoder /
//! data generator).
use crate::model::{Val, extract, family, show_col};
use arrow_array::{Array, ArrayRef, RecordBatch, RecordBatchOptions};
use arrow_buffer::Buffer;
use arrow_ipc::reader::{FileDecoder, FileReader, StreamDecoder, StreamReader, read_footer_length};
use arrow_ipc::writer::{DictionaryHandling, DictionaryTracker, FileWriter, IpcDataGenerator, IpcWriteContext, IpcWriteOptions, StreamEncoder, StreamWriter, write_message};
use arrow_ipc::{CompressionType, MetadataVersion};
use arrow_schema::{Schema, SchemaRef};
use std::collections::HashMap;
use std::io::Cursor;
use std::sync::Arc;
use vcore::catch;
use vcore::serde_json::{Value, json};

#[derive(Clone, Copy, Debug, PartialEq, Eq, Hash)]
pub struct Opts {
    pub align: usize,
    /// 0 = V5, 1 = V4, 2 = V4 + legacy framing
    pub ver: u8,
    /// 0 none, 1 LZ4_FRAME, 2 ZSTD
    pub comp: u8,
    pub delta: bool,
}
impl Default for Opts {
    fn default() -> Self {
        Opts { align: 64, ver: 0, comp: 0, delta: false }
    }
}
impl Opts {
    pub fn deviations(&self) -> usize {
        (self.align != 64) as usize + (self.ver != 0) as usize + (self.comp != 0) as usize + self.delta as usize
    }
    pub fn name(&self) -> String {
        format!("align{}-{}-{}-{}", self.align, ["v5", "v4", "v4legacy"][self.ver as usize], ["nocomp", "lz4", "zstd"][self.comp as usize], if self.delta { "delta" } else { "resend" })
    }
    pub fn class(&self) -> String {
        let mut v = vec![];
        if self.align != 64 {
            v.push("align")
        }
        if self.ver != 0 {
            v.push(["", "v4", "v4legacy"][self.ver as usize])
        }
        if self.comp != 0 {
            v.push(["", "lz4", "zstd"][self.comp as usize])
        }
        if self.delta {
            v.push("delta")
        }
        if v.is_empty() { "default".into() } else { v.join("+") }
    }
    pub fn json(&self) -> Value {
        json!({"align": self.align, "ver": self.ver, "comp": self.comp, "delta": self.delta})
    }
    pub fn from_json(v: &Value) -> Opts {
        Opts { align: v["align"].as_u64().unwrap_or(64) as usize, ver: v["ver"].as_u64().unwrap_or(0) as u8, comp: v["comp"].as_u64().unwrap_or(0) as u8, delta: v["delta"].as_bool().unwrap_or(false) }
    }
    /// Err(msg) when the library rejects the combination (documented: compression needs V5)
    pub fn to_ipc(&self) -> Result<IpcWriteOptions, String> {
        let ver = if self.ver == 0 { MetadataVersion::V5 } else { MetadataVersion::V4 };
        let o = IpcWriteOptions::try_new(self.align, self.ver == 2, ver).map_err(|e| e.to_string())?;
        let o = match self.comp {
            0 => o,
            1 => o.try_with_compression(Some(CompressionType::LZ4_FRAME)).map_err(|e| e.to_string())?,
            _ => o.try_with_compression(Some(CompressionType::ZSTD)).map_err(|e| e.to_string())?,
        };
        Ok(o.with_dictionary_handling(if self.delta { DictionaryHandling::Delta } else { DictionaryHandling::Resend }))
    }
    /// every option point with at most `k` deviations from the default
    pub fn enumerate(k: usize) -> Vec<Opts> {
        let mut v = vec![];
        for align in [64, 8, 16, 32] {
            for ver in 0..3u8 {
                for comp in 0..3u8 {
                    for delta in [false, true] {
                        let o = Opts { align, ver, comp, delta };
                        if o.deviations() <= k {
                            v.push(o);
                        }
                    }
                }
            }
        }
        v.sort_by_key(|o| o.deviations());
        v
    }
}

#[derive(Clone, Copy, Debug, PartialEq, Eq, Hash, PartialOrd, Ord)]
pub enum W {
    File,
    Stream,
    StreamEnc,
    DataGen,
}
pub const WRITERS: [W; 4] = [W::File, W::Stream, W::StreamEnc, W::DataGen];
impl W {
    pub fn name(&self) -> &'static str {
        match self {
            W::File => "FileWriter",
            W::Stream => "StreamWriter",
            W::StreamEnc => "StreamEncoder",
            W::DataGen => "IpcDataGenerator",
        }
    }
    pub fn is_file(&self) -> bool {
        *self == W::File
    }
}

pub enum Written {
    File(Vec<u8>),
    /// stream bytes + (for the encoder) the buffers as returned, in order
    Stream(Vec<u8>, Option<Vec<Buffer>>),
}

#[derive(Debug, Clone)]
pub struct WriteErr {
    /// None: constructing the writer failed; Some(i): writing batch i failed; Some(n): finish failed
    pub at: Option<usize>,
    pub msg: String,
    pub panic: bool,
}

fn eos(o: &Opts) -> Vec<u8> {
    if o.ver == 2 { vec![0, 0, 0, 0] } else { vec![0xFF, 0xFF, 0xFF, 0xFF, 0, 0, 0, 0] }
}

pub fn write(w: W, schema: &Schema, batches: &[RecordBatch], o: &Opts, custom_md: &[(String, String)]) -> Result<Written, WriteErr> {
    let opts = o.to_ipc().map_err(|e| WriteErr { at: None, msg: format!("options: {e}"), panic: false })?;
    let mut stage: Option<usize> = None;
    let r = catch(|| -> Result<Written, WriteErr> {
        let er = |at: Option<usize>| move |e: arrow_schema::ArrowError| WriteErr { at, msg: e.to_string(), panic: false };
        match w {
            W::File => {
                let mut fw = FileWriter::try_new_with_options(Vec::new(), schema, opts.clone()).map_err(er(None))?;
                for (k, v) in custom_md {
                    fw.write_metadata(k.clone(), v.clone());
                }
                for (i, b) in batches.iter().enumerate() {
                    stage = Some(i);
                    fw.write(b).map_err(er(Some(i)))?;
                }
                stage = Some(batches.len());
                fw.finish().map_err(er(Some(batches.len())))?;
                Ok(Written::File(fw.into_inner().map_err(er(Some(batches.len())))?))
            }
            W::Stream => {
                let mut sw = StreamWriter::try_new_with_options(Vec::new(), schema, opts.clone()).map_err(er(None))?;
                for (i, b) in batches.iter().enumerate() {
                    stage = Some(i);
                    sw.write(b).map_err(er(Some(i)))?;
                }
                stage = Some(batches.len());
                sw.finish().map_err(er(Some(batches.len())))?;
                Ok(Written::Stream(sw.into_inner().map_err(er(Some(batches.len())))?, None))
            }
            W::StreamEnc => {
                let mut enc = StreamEncoder::try_new_with_options(schema, opts.clone()).map_err(er(None))?;
                let mut bufs: Vec<Buffer> = vec![];
                for (i, b) in batches.iter().enumerate() {
                    stage = Some(i);
                    bufs.extend(enc.encode(b).map_err(er(Some(i)))?);
                }
                stage = Some(batches.len());
                bufs.extend(enc.finish().map_err(er(Some(batches.len())))?);
                let mut all = vec![];
                for b in &bufs {
                    all.extend_from_slice(b.as_slice());
                }
                Ok(Written::Stream(all, Some(bufs)))
            }
            W::DataGen => {
                let dg = IpcDataGenerator::default();
                let mut tracker = DictionaryTracker::new(false);
                let mut ctx = IpcWriteContext::default();
                let mut out: Vec<u8> = vec![];
                let enc = dg.schema_to_bytes_with_dictionary_tracker(schema, &mut tracker, &opts);
                write_message(&mut out, enc, &opts).map_err(er(None))?;
                for (i, b) in batches.iter().enumerate() {
                    stage = Some(i);
                    let (dicts, batch) = dg.encode(b, &mut tracker, &opts, &mut ctx).map_err(er(Some(i)))?;
                    for d in dicts {
                        write_message(&mut out, d, &opts).map_err(er(Some(i)))?;
                    }
                    write_message(&mut out, batch, &opts).map_err(er(Some(i)))?;
                }
                out.extend(eos(o));
                Ok(Written::Stream(out, None))
            }
        }
    });
    match r {
        Ok(x) => x,
        Err(p) => Err(WriteErr { at: stage, msg: p.fingerprint(), panic: true }),
    }
}

#[derive(Clone, Copy, Debug, PartialEq, Eq, Hash, PartialOrd, Ord)]
pub enum R {
    FileReader,
    FileDecoder,
    StreamReader,
    StreamDecoder,
    /// StreamDecoder fed the StreamEncoder's buffers one at a time
    StreamDecoderChunks,
}
impl R {
    pub fn name(&self) -> &'static str {
        match self {
            R::FileReader => "FileReader",
            R::FileDecoder => "FileDecoder",
            R::StreamReader => "StreamReader",
            R::StreamDecoder => "StreamDecoder",
            R::StreamDecoderChunks => "StreamDecoder(chunks)",
        }
    }
    pub fn supports_projection(&self) -> bool {
        !matches!(self, R::StreamDecoder | R::StreamDecoderChunks)
    }
}
pub fn readers_for(w: &Written) -> Vec<R> {
    match w {
        Written::File(_) => vec![R::FileReader, R::FileDecoder],
        Written::Stream(_, None) => vec![R::StreamReader, R::StreamDecoder],
        Written::Stream(_, Some(_)) => vec![R::StreamReader, R::StreamDecoder, R::StreamDecoderChunks],
    }
}

pub struct Decoded {
    pub schema: SchemaRef,
    pub batches: Vec<RecordBatch>,
    pub custom_md: Option<HashMap<String, String>>,
}

#[derive(Debug, Clone)]
pub struct ReadErr {
    pub msg: String,
    pub panic: bool,
}

pub fn read(r: R, w: &Written, proj: Option<Vec<usize>>) -> Result<Decoded, ReadErr> {
    let res = catch(|| -> Result<Decoded, String> {
        let es = |e: arrow_schema::ArrowError| e.to_string();
        match (r, w) {
            (R::FileReader, Written::File(bytes)) => {
                let fr = FileReader::try_new(Cursor::new(bytes.as_slice()), proj).map_err(es)?;
                let schema = fr.schema();
                let md = fr.custom_metadata().clone();
                let nb = fr.num_batches();
                let mut fr = fr;
                let mut batches = vec![];
                for b in fr.by_ref() {
                    batches.push(b.map_err(es)?);
                }
                if batches.len() != nb {
                    return Err(format!("num_batches() = {nb} but iterator yielded {}", batches.len()));
                }
                // random access: every block again, last to first, must decode to the same batch
                for k in (0..nb).rev() {
                    fr.set_index(k).map_err(es)?;
                    match fr.next() {
                        Some(Ok(b)) if b == batches[k] => {}
                        Some(Ok(_)) => return Err(format!("set_index({k}) then next(): batch differs from the sequential read")),
                        Some(Err(e)) => return Err(format!("set_index({k}) then next(): {e}")),
                        None => return Err(format!("set_index({k}) then next(): None")),
                    }
                }
                Ok(Decoded { schema, batches, custom_md: Some(md) })
            }
            (R::FileDecoder, Written::File(bytes)) => {
                // the documented low-level recipe (see FileDecoder docs)
                let buffer = Buffer::from(bytes.clone());
                if buffer.len() < 10 {
                    return Err("file shorter than trailer".into());
                }
                let trailer_start = buffer.len() - 10;
                let footer_len = read_footer_length(buffer[trailer_start..].try_into().unwrap()).map_err(es)?;
                let footer = arrow_ipc::root_as_footer(&buffer[trailer_start - footer_len..trailer_start]).map_err(|e| format!("footer: {e:?}"))?;
                let schema = Arc::new(arrow_ipc::convert::try_fb_to_schema(footer.schema().ok_or("no schema in footer")?).map_err(es)?);
                let mut dec = FileDecoder::new(schema.clone(), footer.version());
                let out_schema = match &proj {
                    Some(p) => {
                        dec = dec.with_projection(p.clone());
                        Arc::new(schema.project(p).map_err(es)?)
                    }
                    None => schema.clone(),
                };
                for block in footer.dictionaries().iter().flatten() {
                    let len = block.bodyLength() as usize + block.metaDataLength() as usize;
                    let data = buffer.slice_with_length(block.offset() as usize, len);
                    dec.read_dictionary(block, &data).map_err(es)?;
                }
                let mut batches = vec![];
                for block in footer.recordBatches().iter().flatten() {
                    let len = block.bodyLength() as usize + block.metaDataLength() as usize;
                    let data = buffer.slice_with_length(block.offset() as usize, len);
                    match dec.read_record_batch(block, &data).map_err(es)? {
                        Some(b) => batches.push(b),
                        None => return Err("record batch block decoded to None".into()),
                    }
                }
                let mut md = HashMap::new();
                if let Some(kvs) = footer.custom_metadata() {
                    for kv in kvs {
                        md.insert(kv.key().unwrap_or_default().to_string(), kv.value().unwrap_or_default().to_string());
                    }
                }
                Ok(Decoded { schema: out_schema, batches, custom_md: Some(md) })
            }
            (R::StreamReader, Written::Stream(bytes, _)) => {
                let mut sr = StreamReader::try_new(Cursor::new(bytes.as_slice()), proj).map_err(es)?;
                let schema = sr.schema();
                let mut batches = vec![];
                for b in sr.by_ref() {
                    batches.push(b.map_err(es)?);
                }
                if !sr.is_finished() {
                    return Err("StreamReader not finished after None".into());
                }
                Ok(Decoded { schema, batches, custom_md: None })
            }
            (R::StreamDecoder, Written::Stream(bytes, _)) => {
                let mut dec = StreamDecoder::new();
                let mut buf = Buffer::from(bytes.clone());
                let mut batches = vec![];
                while !buf.is_empty() {
                    if let Some(b) = dec.decode(&mut buf).map_err(es)? {
                        batches.push(b);
                    }
                }
                dec.finish().map_err(es)?;
                let schema = dec.schema().ok_or("StreamDecoder has no schema")?;
                Ok(Decoded { schema, batches, custom_md: None })
            }
            (R::StreamDecoderChunks, Written::Stream(_, Some(bufs))) => {
                let mut dec = StreamDecoder::new();
                let mut batches = vec![];
                for b in bufs {
                    let mut buf = b.clone();
                    while !buf.is_empty() {
                        if let Some(b) = dec.decode(&mut buf).map_err(es)? {
                            batches.push(b);
                        }
                    }
                }
                dec.finish().map_err(es)?;
                let schema = dec.schema().ok_or("StreamDecoder has no schema")?;
                Ok(Decoded { schema, batches, custom_md: None })
            }
            _ => Err("reader/writer mismatch (harness)".into()),
        }
    });
    match res {
        Ok(Ok(d)) => Ok(d),
        Ok(Err(m)) => Err(ReadErr { msg: m, panic: false }),
        Err(p) => Err(ReadErr { msg: p.fingerprint(), panic: true }),
    }
}

// ------------------------------------------------------------------------------------------------
// model batches + oracle

#[derive(Clone, Debug)]
pub struct MBatch {
    pub rows: usize,
    pub cols: Vec<Vec<Val>>,
}

pub fn make_batch(schema: &SchemaRef, rows: usize, arrays: Vec<ArrayRef>) -> Result<RecordBatch, String> {
    RecordBatch::try_new_with_options(schema.clone(), arrays, &RecordBatchOptions::new().with_row_count(Some(rows))).map_err(|e| format!("RecordBatch::try_new: {e}"))
}

#[derive(Debug, Clone)]
pub struct Mismatch {
    /// schema-differs | batch-count | row-count | column-count | type-differs | rows-differ | wf | extract
    pub kind: &'static str,
    pub family: String,
    pub detail: String,
}

pub fn schema_diff(exp: &Schema, got: &Schema) -> String {
    if exp.fields().len() != got.fields().len() {
        return format!("field count {} vs {}", exp.fields().len(), got.fields().len());
    }
    for (a, b) in exp.fields().iter().zip(got.fields().iter()) {
        if a != b {
            let mut what = vec![];
            if a.name() != b.name() {
                what.push(format!("name {:?} vs {:?}", a.name(), b.name()));
            }
            if a.is_nullable() != b.is_nullable() {
                what.push(format!("nullable {} vs {}", a.is_nullable(), b.is_nullable()));
            }
            if a.metadata() != b.metadata() {
                what.push(format!("field metadata {:?} vs {:?}", a.metadata(), b.metadata()));
            }
            if a.data_type() != b.data_type() {
                what.push(format!("type {} vs {}", a.data_type(), b.data_type()));
            }
            return format!("field {:?}: {}", a.name(), what.join("; "));
        }
    }
    if exp.metadata() != got.metadata() {
        return format!("schema metadata {:?} vs {:?}", exp.metadata(), got.metadata());
    }
    "schemas differ (unknown part)".into()
}
pub fn schema_diff_class(exp: &Schema, got: &Schema) -> &'static str {
    if exp.fields().len() != got.fields().len() {
        return "field-count";
    }
    for (a, b) in exp.fields().iter().zip(got.fields().iter()) {
        if a != b {
            if a.name() != b.name() {
                return "name";
            }
            if a.data_type() != b.data_type() {
                return "type";
            }
            if a.is_nullable() != b.is_nullable() {
                return "nullable";
            }
            return "field-metadata";
        }
    }
    "schema-metadata"
}

/// schema + batch-by-batch comparison of a decode result with the model
pub fn compare(exp_schema: &Schema, exp: &[MBatch], got: &Decoded) -> Result<(), Mismatch> {
    if exp_schema != got.schema.as_ref() {
        return Err(Mismatch { kind: "schema-differs", family: schema_diff_class(exp_schema, &got.schema).into(), detail: schema_diff(exp_schema, &got.schema) });
    }
    if exp.len() != got.batches.len() {
        return Err(Mismatch { kind: "batch-count", family: "-".into(), detail: format!("expected {} batches, got {}", exp.len(), got.batches.len()) });
    }
    for (bi, (e, g)) in exp.iter().zip(got.batches.iter()).enumerate() {
        compare_batch(exp_schema, e, g).map_err(|mut m| {
            m.detail = format!("batch {bi}: {}", m.detail);
            m
        })?;
    }
    Ok(())
}

pub fn compare_batch(exp_schema: &Schema, e: &MBatch, g: &RecordBatch) -> Result<(), Mismatch> {
    if g.schema().as_ref() != exp_schema {
        return Err(Mismatch { kind: "schema-differs", family: format!("batch-{}", schema_diff_class(exp_schema, &g.schema())), detail: format!("batch schema: {}", schema_diff(exp_schema, &g.schema())) });
    }
    if g.num_rows() != e.rows {
        return Err(Mismatch { kind: "row-count", family: "-".into(), detail: format!("expected {} rows, got {}", e.rows, g.num_rows()) });
    }
    if g.num_columns() != e.cols.len() {
        return Err(Mismatch { kind: "column-count", family: "-".into(), detail: format!("expected {} columns, got {}", e.cols.len(), g.num_columns()) });
    }
    for (ci, (ec, gc)) in e.cols.iter().zip(g.columns().iter()).enumerate() {
        let f = exp_schema.field(ci);
        let fam = family(f.data_type());
        if gc.data_type() != f.data_type() {
            return Err(Mismatch { kind: "type-differs", family: fam, detail: format!("column {ci}: type {} vs {}", f.data_type(), gc.data_type()) });
        }
        // (lead's note: validate_full falsely reports "null_bit_buffer size too small" for some well-formed
        // sliced arrays - that message is not treated as a well-formedness violation)
        if let Err(err) = gc.to_data().validate_full().or_else(|e| if e.to_string().contains("null_bit_buffer size too small") { Ok(()) } else { Err(e) }) {
            return Err(Mismatch { kind: "wf", family: fam, detail: format!("column {ci} ({}): validate_full: {err}", f.data_type()) });
        }
        let got = match catch(|| extract(gc.as_ref())) {
            Ok(Ok(v)) => v,
            Ok(Err(m)) => return Err(Mismatch { kind: "extract", family: fam, detail: format!("column {ci} ({}): {m}", f.data_type()) }),
            Err(p) => return Err(Mismatch { kind: "extract", family: fam, detail: format!("column {ci} ({}): accessor panic {}", f.data_type(), p.fingerprint()) }),
        };
        if &got != ec {
            return Err(Mismatch { kind: "rows-differ", family: fam, detail: format!("column {ci} ({}): expected {} got {}", f.data_type(), show_col(ec), show_col(&got)) });
        }
    }
    Ok(())
}

/// projection result must equal projecting the full read (schema, types, values)
pub fn compare_projection(full: &Decoded, proj: &[usize], got: &Decoded) -> Result<(), Mismatch> {
    let exp_schema = full.schema.project(proj).map_err(|e| Mismatch { kind: "harness", family: "-".into(), detail: e.to_string() })?;
    let mut exp = vec![];
    for b in &full.batches {
        let mut cols = vec![];
        for &i in proj {
            cols.push(extract(b.column(i).as_ref()).map_err(|m| Mismatch { kind: "harness", family: "-".into(), detail: m })?);
        }
        exp.push(MBatch { rows: b.num_rows(), cols });
    }
    compare(&exp_schema, &exp, got)
}
