//! C10 finding `c10:cmp-kernels:empty-ree-slice`
//! Comparison kernels on an EMPTY run-end-encoded slice with a non-zero offset: `expand_from_runs` /
//! `ree_physical_indices` iterate from `start_physical` (0 for an empty slice) and compute
//! `run_end.min(end) - pos` with pos = offset > run_end -> usize underflow -> absurd allocation
//! ("failed to allocate memory" / "capacity overflow") instead of an empty result.
use arrow_array::types::*;
use arrow_array::*;
fn main() {
    let ree = RunArray::<Int16Type>::try_new(&Int16Array::from(vec![1i16, 2, 3]), &Int32Array::from(vec![7, 5, 9])).unwrap();
    let five = Int32Array::from(vec![5]);
    for off in [0usize, 1, 2, 3] {
        let e = ree.slice(off, 0);
        let r = std::panic::catch_unwind(std::panic::AssertUnwindSafe(|| arrow_ord::cmp::eq(&e, &Scalar::new(five.clone())).map(|a| a.len())));
        println!("eq(REE.slice({off}, 0), scalar 5) = {r:?}   <- expected Ok(Ok(0))");
    }
}
