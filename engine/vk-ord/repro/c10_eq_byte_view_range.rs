//! C10 finding `c10:array_eq:comparator-consistency:view-child`
//! arrow-data `byte_view_equal(lhs, rhs, lhs_start, rhs_start, len)` tests `lhs.is_null(idx)` with the
//! range-relative idx instead of `lhs_start + idx`: when a range does not start at 0 and slot `idx` of the
//! whole array is null, the comparison of that position is skipped. Reached through run-end arrays
//! (values compared at physical positions): 'a' == '' although make_comparator says Greater.
use arrow_array::types::*;
use arrow_array::*;
use arrow_schema::SortOptions;
fn main() {
    let vals = StringViewArray::from(vec![None, Some("a"), Some("")]);
    let ree = RunArray::<Int16Type>::try_new(&Int16Array::from(vec![1i16, 2, 3]), &vals).unwrap();
    let (x, y) = (ree.slice(1, 1), ree.slice(2, 1));
    println!("REE<Utf8View>['a'] == REE<Utf8View>[''] : {}   <- expected false", x.to_data() == y.to_data());
    let cmp = arrow_ord::ord::make_comparator(&x, &y, SortOptions::default()).unwrap();
    println!("make_comparator says {:?}", cmp(0, 0));
}
