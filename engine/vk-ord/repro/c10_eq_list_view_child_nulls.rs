//! C10 finding `c10:array_eq:comparator-consistency:listview`
//! arrow-data `list_view_equal` compares the child ranges with `equal_values` (value buffers only)
//! instead of `equal_range` (validity + values): a null child element equals any value.
use arrow_array::*;
use arrow_schema::*;
use std::sync::Arc;
fn main() {
    let field = Arc::new(Field::new("item", DataType::Int32, true));
    let lv = ListViewArray::try_new(field, vec![0i32, 1].into(), vec![1i32, 1].into(), Arc::new(Int32Array::from(vec![None, Some(-1)])), None).unwrap();
    let (x, y) = (lv.slice(0, 1), lv.slice(1, 1));
    println!("ListView [[null]] == [[-1]] : {}   <- expected false", x == y);
    let cmp = arrow_ord::ord::make_comparator(&x, &y, SortOptions::default()).unwrap();
    println!("make_comparator says {:?}", cmp(0, 0));
}
