//! C10 finding `c10:cmp-kernels:scalar-scalar-encoded-rhs`
//! arrow_ord::cmp::{eq,lt,...}(Scalar, Scalar) with a dictionary- or run-end-encoded RIGHT operand:
//! `apply` re-expands the 1-row result by the right side's keys / runs although both sides are scalar
//! (`let side = if l_s.is_none() { l_info } else { r_info }` picks r_info when both are scalar).
//! * dictionary key != 0  -> take() out of bounds -> panic
//! * run-end physical index != 0 -> `buffer.value_unchecked(physical)` reads past the 1-bit buffer -> wrong value
use arrow_array::types::*;
use arrow_array::*;
use std::sync::Arc;
fn main() {
    let five = Int32Array::from(vec![5]);
    let ree = RunArray::<Int16Type>::try_new(&Int16Array::from(vec![1i16, 2]), &Int32Array::from(vec![7, 5])).unwrap().slice(1, 1);
    println!("5 == REE[7,5].slice(1,1)  (scalar/scalar): {:?}   <- expected [true]", arrow_ord::cmp::eq(&Scalar::new(five.clone()), &Scalar::new(ree.clone())).unwrap());
    println!("REE[7,5].slice(1,1) == 5  (scalar/scalar): {:?}", arrow_ord::cmp::eq(&Scalar::new(ree), &Scalar::new(five.clone())).unwrap());
    let d = DictionaryArray::<Int8Type>::try_new(Int8Array::from(vec![1i8]), Arc::new(Int32Array::from(vec![7, 5]))).unwrap();
    println!("Dict(key 1 -> 5) == 5 (scalar/scalar): {:?}", arrow_ord::cmp::eq(&Scalar::new(d.clone()), &Scalar::new(five.clone())).unwrap());
    println!("5 == Dict(key 1 -> 5) (scalar/scalar): panics next");
    let _ = arrow_ord::cmp::eq(&Scalar::new(five), &Scalar::new(d));
}
