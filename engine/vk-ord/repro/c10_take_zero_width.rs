//! C10 findings `c10:sorted-take:len:fsb` and `c10:sorted-take:len:fsl`
//! sort / sort_limit / lexsort materialise the sorted rows with `take`; for FixedSizeBinary(0) and
//! FixedSizeList<_, 0> `take` returns an array of 0 rows (the length cannot be derived from an empty
//! values buffer), so sorting a 1-row array returns 0 rows. sort_to_indices itself is correct.
use arrow_array::*;
use arrow_buffer::*;
use arrow_schema::*;
use std::sync::Arc;
fn main() {
    let fsb = FixedSizeBinaryArray::try_new_with_len(0, Buffer::from(Vec::<u8>::new()), None, 1).unwrap();
    let idx = UInt32Array::from(vec![0u32]);
    println!("FixedSizeBinary(0): len {} -> take([0]).len() = {}, sort().len() = {}", fsb.len(), arrow_select::take::take(&fsb, &idx, None).unwrap().len(), arrow_ord::sort::sort(&fsb, None).unwrap().len());
    let field = Arc::new(Field::new("item", DataType::Int32, true));
    let fsl = FixedSizeListArray::try_new_with_length(field, 0, Arc::new(Int32Array::from(Vec::<i32>::new())), None, 2).unwrap();
    println!("FixedSizeList<Int32,0>: len {} -> take([0]).len() = {}, sort().len() = {}", fsl.len(), arrow_select::take::take(&fsl, &idx, None).unwrap().len(), arrow_ord::sort::sort(&fsl, None).unwrap().len());
}
