//! C11 finding `c11:convert_rows:panic@arrow-row/src/lib.rs:index out of bounds: ...:union`
//! Row format, dense union decode: offsets are rebuilt with `count[*type_id as usize]` - the type id is
//! used as a field index. With type ids that are not 0..n (here {0, 5}) convert_rows panics; with
//! permuted ids it would build wrong offsets.
use arrow_array::*;
use arrow_buffer::*;
use arrow_row::*;
use arrow_schema::*;
use std::sync::Arc;
fn main() {
    let fields = UnionFields::try_new([0i8, 5], [Field::new("a", DataType::Int32, true), Field::new("b", DataType::Utf8, true)]).unwrap();
    let u = UnionArray::try_new(fields, ScalarBuffer::from(vec![5i8]), Some(ScalarBuffer::from(vec![0i32])), vec![Arc::new(Int32Array::from(Vec::<i32>::new())), Arc::new(StringArray::from(vec!["x"]))]).unwrap();
    let conv = RowConverter::new(vec![SortField::new(u.data_type().clone())]).unwrap();
    let rows = conv.convert_columns(&[Arc::new(u)]).unwrap();
    println!("convert_rows panics next (index out of bounds: the len is 2 but the index is 5)");
    let _ = conv.convert_rows(&rows);
}
