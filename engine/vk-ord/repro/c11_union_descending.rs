//! C11 finding `c11:Row::cmp:order:union`
//! Row format, union field with `descending: true`: only the type-id byte is negated; the child row is
//! encoded with {descending: false, nulls_first: nulls_first != descending} and copied verbatim ("the
//! encoded contents will be inverted if descending is set" - they are not), so values of one branch
//! keep ascending order and child nulls land on the wrong side.
use arrow_array::*;
use arrow_buffer::*;
use arrow_row::*;
use arrow_schema::*;
use std::sync::Arc;
fn main() {
    let fields = UnionFields::try_new([0i8, 1], [Field::new("a", DataType::Int32, true), Field::new("b", DataType::Utf8, true)]).unwrap();
    let u = UnionArray::try_new(fields, ScalarBuffer::from(vec![0i8, 0]), None, vec![Arc::new(Int32Array::from(vec![-1, 1])), Arc::new(StringArray::from(vec![None::<&str>, None]))]).unwrap();
    for descending in [false, true] {
        let conv = RowConverter::new(vec![SortField::new_with_options(u.data_type().clone(), SortOptions { descending, nulls_first: true })]).unwrap();
        let rows = conv.convert_columns(&[Arc::new(u.clone())]).unwrap();
        println!("descending={descending}: row(-1).cmp(row(1)) = {:?}  {:02x?} / {:02x?}", rows.row(0).cmp(&rows.row(1)), rows.row(0).as_ref(), rows.row(1).as_ref());
    }
    println!("expected Less for ascending and Greater for descending");
}
