use arrow_array::*;
use arrow_array::types::*;
fn main() {
    let re = Int16Array::from(vec![1i16, 2, 3]);
    let ree = RunArray::<Int16Type>::try_new(&re, &Int32Array::from(vec![7, 5, 9])).unwrap();
    for (o, l) in [(0usize, 0usize), (1, 0), (2, 0), (3, 0)] {
        let e = ree.slice(o, l);
        let r = std::panic::catch_unwind(std::panic::AssertUnwindSafe(|| arrow_ord::cmp::eq(&e, &Scalar::new(Int32Array::from(vec![5])))));
        println!("REE.slice({o},{l}) eq scalar 5: {:?}", r.map(|x| x.map(|a| a.len())));
        let r = std::panic::catch_unwind(std::panic::AssertUnwindSafe(|| arrow_ord::cmp::eq(&e, &Int32Array::from(Vec::<i32>::new()))));
        println!("REE.slice({o},{l}) eq empty array: {:?}", r.map(|x| x.map(|a| a.len())));
    }
}
